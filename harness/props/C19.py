"""C19 — ManageSieve: no script access before login; the script store is a map.

Model: coq/theories/Sieve/{PyDict,FilterSet,FilterSetGen,SieveWire,Sieve}.v,
proofs Sieve/{PyDictProofs,FilterSetAgree,SieveProofs}.v, statements
Props/C19.v, checkers Sieve/SieveCheck.v.

Each run
 0. regenerates Sieve/FilterSetGen.v from pymap/backend/dict/filter.py
    (harness/translate_filterset.py, fail closed) so that FilterSetAgree.v
    re-proves "hand model = current source";
 1. re-checks the proofs;
 2. correspondence: (a) Command.parse on generated / swept command buffers,
    (b) method-call sequences on a real FilterSet object, (c) whole programs
    over several connections and users on the in-process ManageSieve server
    (responses and every user's _filters/_active after every step);
 3. monitor: an independent dictionary model + the gate clause + isolation,
    observing the stores only through LISTSCRIPTS/GETSCRIPT of extra
    authenticated connections.
"""
from __future__ import annotations

import asyncio
import base64
import itertools
import logging
import os
import re

from .. import coqterm as T
from ..pymap_env import DictEnv, REPO

HEADER = ('From PV Require Import Base.Prelude Sieve.PyDict Sieve.FilterSet '
          'Sieve.SieveWire Sieve.Sieve Sieve.SieveCheck.\n')

USERS = {'u1': 'pw1', 'u2': 'pw2', 'testuser': 'testpass'}
FIVE = (b'NOOP', b'LOGOUT', b'CAPABILITY', b'STARTTLS', b'AUTHENTICATE')
SCRIPT_CMDS = (b'HAVESPACE', b'PUTSCRIPT', b'LISTSCRIPTS', b'SETACTIVE', b'GETSCRIPT',
               b'DELETESCRIPT', b'RENAMESCRIPT', b'CHECKSCRIPT')

# configurations of the server under test: (name, DictEnv args, start overrides, model config)
CONFIGS = {
    'default': ({}, {}, (1000000000, False)),
    'small':   ({}, {'max_append_len': 24}, (24, False)),
    'nolimit': ({}, {'max_append_len': None}, (None, False)),
    'tls':     ({'tls': True}, {}, (1000000000, True)),
}


# ------------------------------------------------------------------ encoders
# Long byte strings that recur in the generated programs (names, scripts, the
# demo script) are defined once in the header of the case files and referred
# to by name; a buffer that contains one is written as a concatenation.
POOL: dict[bytes, str] = {}


def pool_add(b: bytes, force: bool = False) -> None:
    if (len(b) >= 32 or force) and b not in POOL:
        POOL[b] = f'pool_{len(POOL)}'


def _periodic(b: bytes) -> str:
    for p in range(1, 9):
        if len(b) % p == 0 and len(b) // p > 8 and b == b[:p] * (len(b) // p):
            return f'(concat (repeat {T.bytes_(b[:p])} (N.to_nat {T.N(len(b) // p)})))'
    return T.bytes_(b)


def _tokenise(b: bytes, pool: dict, minlen: int) -> str:
    alts = sorted((p for p in pool if len(p) >= minlen), key=lambda x: -len(x))
    if not alts:
        return T.bytes_(b)
    rx = re.compile(b'(' + b'|'.join(re.escape(p) for p in alts) + b')', re.S)
    parts = [pool[x] if i % 2 else T.bytes_(x) for i, x in enumerate(rx.split(b)) if x]
    return '(' + ' ++ '.join(parts) + ')' if len(parts) > 1 else parts[0]


def pool_header() -> str:
    """Definitions of the pooled strings; a long one is written in terms of the
    long ones before it (the quoted / literal spelling of a name reuses the name)."""
    out, earlier = [], {}
    for b, n in list(POOL.items()):
        per = _periodic(b)
        body = per if per.startswith('(concat') else _tokenise(b, earlier, 32)
        out.append(f'Definition {n} : bytes := {body}.\n')
        earlier[b] = n
    return ''.join(out)


_POOL_RE = (0, None)


def B(b) -> str:
    """bytes -> Gallina term of type bytes: a pooled name, or a concatenation of
    pooled pieces (longest first) and literal leftovers."""
    global _POOL_RE
    b = bytes(b)
    if b in POOL:
        return POOL[b]
    if len(b) < 8:
        return T.bytes_(b)
    if _POOL_RE[0] != len(POOL):
        alts = sorted((p for p in list(POOL) if len(p) >= 5), key=lambda x: -len(x))
        _POOL_RE = (len(POOL), re.compile(b'(' + b'|'.join(re.escape(p) for p in alts) + b')', re.S))
    parts = [POOL[x] if i % 2 else T.bytes_(x)
             for i, x in enumerate(_POOL_RE[1].split(b)) if x]
    return '(' + ' ++ '.join(parts) + ')' if len(parts) > 1 else parts[0]


def enc_key(s) -> str:
    if isinstance(s, str):
        s = s.encode('utf-8', 'surrogatepass')
    return B(s)


def enc_optkey(s) -> str:
    return 'None' if s is None else f'(Some {enc_key(s)})'


def enc_fstate(filters, active) -> str:
    items = T.lst(T.pair(enc_key(k), B(v)) for k, v in filters)
    return f'(mk_fstate {items} {enc_optkey(active)})'


def enc_cmd(c) -> str:
    n = type(c).__name__
    ob = lambda b: 'None' if b is None else f'(Some {T.bytes_(b)})'
    if n == 'NoOpCommand':
        return f'(CNoop {ob(c.tag)})'
    if n == 'LogoutCommand':
        return 'CLogout'
    if n == 'CapabilityCommand':
        return 'CCapability'
    if n == 'StartTLSCommand':
        return 'CStartTLS'
    if n == 'AuthenticateCommand':
        return f'(CAuthenticate {T.bytes_(c.mech_name)} {ob(c.initial_data)})'
    if n == 'UnauthenticateCommand':
        return 'CUnauthenticate'
    if n == 'HaveSpaceCommand':
        return f'(CHaveSpace {enc_key(c.script_name)} {T.N(c.size)})'
    if n == 'PutScriptCommand':
        return f'(CPutScript {enc_key(c.script_name)} {T.bytes_(c.script_data)})'
    if n == 'ListScriptsCommand':
        return 'CListScripts'
    if n == 'SetActiveCommand':
        return f'(CSetActive {enc_optkey(c.script_name)})'
    if n == 'GetScriptCommand':
        return f'(CGetScript {enc_key(c.script_name)})'
    if n == 'DeleteScriptCommand':
        return f'(CDeleteScript {enc_key(c.script_name)})'
    if n == 'RenameScriptCommand':
        return f'(CRenameScript {enc_key(c.old_script_name)} {enc_key(c.new_script_name)})'
    if n == 'CheckScriptCommand':
        return f'(CCheckScript {T.bytes_(c.script_data)})'
    raise ValueError(n)


def impl_parse(buf: bytes):
    """Command.parse as ManageSieveConnection._read_command calls it."""
    from pymap.parsing import Params
    from pymap.parsing.exceptions import NotParseable
    from pymap.sieve.manage.command import Command
    try:
        cmd, _ = Command.parse(memoryview(buf), Params().copy(allow_continuations=False))
    except NotParseable:
        return None
    except ValueError:      # int() of more than 4300 digits; the connection answers as for NotParseable
        return ValueError
    return cmd


# ------------------------------------------------------------ wire helpers
def q(b: bytes) -> bytes:
    return b'"' + b.replace(b'\\', b'\\\\').replace(b'"', b'\\"') + b'"'


def lit(b: bytes) -> bytes:
    return b'{%d+}\r\n' % len(b) + b


def framed(buf: bytes) -> bool:
    """True when the connection's reader (_read_data: a line; if that line
    ends in {n+} CRLF, n more bytes and the next line; ...) takes exactly
    `buf` as one command buffer — so that one send is one command and the next
    send starts a new one."""
    pos = 0
    while True:
        i = buf.find(b'\n', pos)
        if i < 0:
            return False
        line = buf[pos:i + 1]
        pos = i + 1
        m = re.search(rb'\{(\d+)\+\}\r?\n$', line)
        if not m:
            break
        if len(m.group(1)) > 9:
            return False
        n = int(m.group(1))
        if pos + n > len(buf):
            return False
        pos += n
    return pos == len(buf)


class Resp:
    def __init__(self, cond, code, text, items):
        self.cond, self.code, self.text, self.items = cond, code, text, items

    def __repr__(self):
        return f'Resp({self.cond}, code={self.code}, text={self.text!r}, items={self.items})'


def _string_at(buf: bytes, pos: int):
    if buf[pos:pos + 1] == b'"':
        out = bytearray()
        i = pos + 1
        while i < len(buf):
            c = buf[i:i + 1]
            if c == b'\\':
                out += buf[i + 1:i + 2]
                i += 2
            elif c == b'"':
                return bytes(out), i + 1
            else:
                out += c
                i += 1
        raise ValueError('unterminated quoted string')
    m = re.compile(rb'\{(\d+)\}\r\n').match(buf, pos)
    if not m:
        raise ValueError(f'no string at {pos}: {buf[pos:pos + 20]!r}')
    n = int(m.group(1))
    if m.end() + n > len(buf):
        raise ValueError('short literal')
    return buf[m.end():m.end() + n], m.end() + n


def parse_output(out: bytes):
    """Server output -> (list of complete responses, pending data lines).
    A data line is  string [SP ACTIVE | SP string] CRLF ; a status line is
    OK|NO|BYE [SP (code)] [SP string] CRLF."""
    pos, items, done = 0, [], []
    while pos < len(out):
        m = re.compile(rb'(OK|NO|BYE)(?=[ \r])').match(out, pos)
        if m:
            pos = m.end()
            code = text = None
            if out[pos:pos + 2] == b' (':
                pos += 2
                a = re.compile(rb'[^ )\r\n]+').match(out, pos)
                name = a.group(0)
                pos = a.end()
                arg = None
                if out[pos:pos + 1] == b' ':
                    arg, pos = _string_at(out, pos + 1)
                if out[pos:pos + 1] != b')':
                    raise ValueError('unterminated response code')
                pos += 1
                code = (name, arg)
            if out[pos:pos + 1] == b' ':
                t, pos = _string_at(out, pos + 1)
                text = t.decode('utf-8', 'replace')
            if out[pos:pos + 2] != b'\r\n':
                raise ValueError(f'status line not terminated: {out[pos:pos + 20]!r}')
            pos += 2
            done.append(Resp(m.group(1).decode(), code, text, items))
            items = []
            continue
        s, pos = _string_at(out, pos)
        second = None
        if out[pos:pos + 7] == b' ACTIVE':
            second = True
            pos += 7
        elif out[pos:pos + 1] == b' ':
            second, pos = _string_at(out, pos + 1)
        if out[pos:pos + 2] != b'\r\n':
            raise ValueError(f'data line not terminated: {out[pos:pos + 20]!r}')
        pos += 2
        items.append((s, second))
    return done, items


def enc_caps(items) -> str:
    d = dict(items)
    sasl = 'None'
    if b'SASL' in d:
        sasl = f'(Some {T.boolean(bool(d[b"SASL"]))})'
    owner = 'None' if b'OWNER' not in d else f'(Some {T.bytes_(d[b"OWNER"])})'
    return f'(mk_caps {sasl} {T.boolean(b"STARTTLS" in d)} {owner})'


def enc_resp(word: bytes, rs) -> str:
    """The response(s) to one command whose first word (upper) was `word`."""
    r = rs[-1]
    code = 'RcNone'
    if r.code is not None:
        name, arg = r.code
        simple = {b'NONEXISTENT': 'RcNonexistent', b'ACTIVE': 'RcActive',
                  b'ALREADYEXISTS': 'RcAlreadyExists', b'QUOTA/MAXSIZE': 'RcQuota'}
        if arg is None and name in simple:
            code = simple[name]
        elif name == b'TAG' and arg is not None:
            code = f'(RcTag {B(arg)})'
        elif name == b'SASL' and arg is not None:
            code = f'(RcSasl {T.bytes_(arg)})'
        else:
            code = f'(RcOther {T.bytes_(name + b" " + (arg or b""))})'
    t = r.text
    if t is None:
        text = 'TxNone'
    elif t == 'Bad command.':
        text = 'TxBadCommand'
    elif t.startswith('Bad command: '):
        text = 'TxParse'
    elif word == b'AUTHENTICATE' and r.cond == 'NO':
        text = 'TxAuth'            # no mechanism / failed / cancelled / broke: the SASL oracle's side
    elif t == 'Server error.':
        text = 'TxServerError'
    elif t == 'Action not supported.':
        text = 'TxNotSupported'
    elif word == b'CHECKSCRIPT' and r.cond == 'NO':
        text = 'TxCompile'
    else:
        text = 'TxOther'
    if len(rs) == 2 and word == b'STARTTLS' and not rs[0].items and rs[0].cond == 'OK' \
            and rs[0].code is None and rs[0].text is None:
        payload = f'(PTlsCaps {enc_caps(r.items)})'
    elif len(rs) != 1:
        payload = '(PScript [0;0;0]%N)'      # more than one response: matches nothing sensible
        text = 'TxOther'
    elif word == b'LISTSCRIPTS' and r.cond == 'OK':
        payload = '(PList ' + T.lst(T.pair(B(n), T.boolean(a is True)) for n, a in r.items) + ')'
    elif not r.items:
        payload = 'PNone'
    elif word in (b'CAPABILITY', b'') and r.cond == 'OK':
        payload = f'(PCaps {enc_caps(r.items)})'
    elif word == b'GETSCRIPT' and len(r.items) == 1 and r.items[0][1] is None:
        payload = f'(PScript {B(r.items[0][0])})'
    else:
        payload = '(PList ' + T.lst(T.pair(B(n), T.boolean(a is True))
                                    for n, a in r.items) + ')'
    return f'(mk_resp {r.cond} {code} {text} {payload})'


def first_word(buf: bytes) -> bytes:
    m = re.match(rb' *([^ \r\n"{(]+)', buf)
    return m.group(1).upper() if m else b''


# ------------------------------------------------------- the implementation
import threading
# building a server configuration creates an SSLContext (OpenSSL loads the CA
# store); doing that from several threads at once crashed the interpreter, so
# environments are built one at a time
_ENV_LOCK = threading.Lock()
_ENV_LOCK2 = threading.Lock()


def _memoise_entry_points() -> None:
    """pysasl rescans the installed distributions' entry points for every
    new connection (8 ms); the answer cannot change within this process, so it
    is computed once.  Performance only: pymap and pysasl code is untouched."""
    import pysasl
    if getattr(pysasl.entry_points, '_verif_memo', False):
        return
    real, memo = pysasl.entry_points, {}

    def entry_points(**kw):
        key = tuple(sorted(kw.items()))
        if key not in memo:
            memo[key] = real(**kw)
        return memo[key]
    entry_points._verif_memo = True
    pysasl.entry_points = entry_points
    # every IMAPConfig builds an SSLContext (ssl.create_default_context loads the CA store:
    # slow, and it crashed the interpreter when done from several threads); no TLS is ever
    # spoken here, so one context is shared
    import ssl
    real_ctx, made = ssl.create_default_context, []

    def create_default_context(*a, **kw):
        with _ENV_LOCK2:
            if not made:
                made.append(real_ctx(*a, **kw))
        return made[0]
    ssl.create_default_context = create_default_context


class World:
    """One in-process dict-backend server with the three users, a few program
    connections and one observer connection per user."""

    backend = 'dict'
    users = USERS

    def __init__(self, cfg_name: str) -> None:
        self.cfg_name = cfg_name
        self.env = None
        self.conns = []
        self.observers = {}
        self.greeting = None
        self.all_conns = []

    async def start(self, nconns: int, observe=('u1', 'u2'), warm=tuple(USERS)) -> 'World':
        from pymap.user import Passwords, UserMetadata
        from pymap.backend.dict import Identity
        _memoise_entry_points()
        args, overrides, _ = CONFIGS[self.cfg_name]
        with _ENV_LOCK:
            self.env = await DictEnv(**args).start(**overrides)
        cfg = self.env.config
        pw = Passwords(cfg)
        for name, password in USERS.items():
            if name == 'testuser':
                continue
            await Identity(name, self.env.backend.login, None, set()).set(
                UserMetadata(cfg, name, password=await pw.hash_password(password)))
        for u in warm:          # the first login creates the user's store (demo data for testuser)
            c = await self._connect()
            if self.cfg_name == 'tls':
                await c.send(b'STARTTLS\r\n')
            r = await c.send(b'AUTHENTICATE "PLAIN" ' + q(base64.b64encode(
                b'\0' + u.encode() + b'\0' + USERS[u].encode())) + b'\r\n')
            assert r == b'OK\r\n', r
            if u in observe:
                self.observers[u] = c
            else:
                await c.send(b'LOGOUT\r\n')
        for _ in range(nconns):
            c = await self._connect()
            self.conns.append(c)
            self.greeting = c.greeting
        return self

    async def _connect(self):
        c = await self.env.connect(sieve=True)
        self.all_conns.append(c)
        return c

    def snapshot(self):
        """Every user's store as the backend holds it (no entry = never
        logged in = empty)."""
        out = {}
        for u in USERS:
            ent = self.env.config.set_cache.get(u)
            if ent is None:
                out[u] = ((), None)
            else:
                fs = ent[1]
                out[u] = (tuple(fs._filters.items()), fs._active)
        return out

    async def send(self, k: int, buf: bytes, conts):
        """-> (responses or None when nothing was answered, lines consumed by
        challenges)."""
        c = self.conns[k]
        if c.closed:
            return None, []
        out = await c.send(buf)
        used = []
        conts = list(conts)
        while True:
            rs, pending = parse_output(out)
            if rs and not pending:
                return rs, used
            if not rs and not pending:
                return None, used
            # a challenge: answer with the next prepared line (or cancel)
            line = conts.pop(0) if conts else b'"*"\r\n'
            used.append(line)
            more = await c.send(line)
            if not more and c.closed:
                return None, used
            out = more if not rs else out + more
            if len(used) > 6:
                raise RuntimeError('endless SASL exchange')

    async def observe(self, u: str):
        """The store of `u` as seen on the wire: ({name: bytes}, [active names])."""
        c = self.observers[u]
        rs, _ = parse_output(await c.send(b'LISTSCRIPTS\r\n'))
        assert len(rs) == 1 and rs[0].cond == 'OK', rs
        names = [n for n, _a in rs[0].items]
        active = [n for n, a in rs[0].items if a is True]
        scripts = {}
        for n in names:
            g, _ = parse_output(await c.send(b'GETSCRIPT ' + lit(n) + b'\r\n'))
            if len(g) == 1 and g[0].cond == 'OK' and len(g[0].items) == 1:
                scripts[n] = g[0].items[0][0]
            else:
                scripts[n] = ('unreadable', repr(g))
        return names, scripts, active

    async def close(self) -> None:
        for c in self.all_conns:
            try:
                await c.send_eof()
            except Exception:
                pass

    # how a store snapshot is written for the model
    @staticmethod
    def enc_store(snap) -> str:
        return enc_fstate(*snap)

    @staticmethod
    def snap_strings(snap):
        return [v for _n, v in snap[0]]

    case_ctor, case_type, case_chk, case_diag = 'mk_case', 'prog_case', 'chk_prog', 'diag_prog'


M_USERS = {'u1': 'pw1', 'u2': 'pw2'}


class MWorld(World):
    """The maildir backend (temporary directory, '++' layout) behind the same
    ManageSieve server; a user's store is the file <user dir>/dovecot.sieve."""
    backend = 'maildir'
    users = M_USERS

    async def start(self, nconns: int, observe=('u1', 'u2'), warm=()) -> 'MWorld':
        from ..pymap_env import MaildirEnv, Conn
        from pymap.sieve.manage import ManageSieveServer
        _memoise_entry_points()
        with _ENV_LOCK:
            self.env = await MaildirEnv('++', users=tuple(M_USERS.items())).start()
        self._server = ManageSieveServer(self.env.login_obj, self.env.config)
        self._Conn = Conn
        for u in observe:
            c = await self._connect()
            r = await c.send(b'AUTHENTICATE "PLAIN" ' + q(base64.b64encode(
                b'\0' + u.encode() + b'\0' + M_USERS[u].encode())) + b'\r\n')
            assert r == b'OK\r\n', r
            self.observers[u] = c
        for _ in range(nconns):
            c = await self._connect()
            self.conns.append(c)
            self.greeting = c.greeting
        return self

    async def _connect(self):
        c = self._Conn(self._server)
        c.greeting = await c.start()
        self.all_conns.append(c)
        return c

    def snapshot(self):
        import os
        out = {}
        for u in M_USERS:
            try:
                with open(os.path.join(self.env.base, u, 'dovecot.sieve'), 'rb') as f:
                    out[u] = f.read()
            except FileNotFoundError:
                out[u] = None
        return out

    async def close(self) -> None:
        await super().close()
        self.env.close()

    @staticmethod
    def enc_store(snap) -> str:
        return 'None' if snap is None else f'(Some {B(snap)})'

    @staticmethod
    def snap_strings(snap):
        return [] if snap is None else [snap]

    case_ctor, case_type, case_chk, case_diag = 'mk_mcase', 'mprog_case', 'chk_mprog', 'diag_mprog'


WORLDS = {'dict': World, 'maildir': MWorld}


def expected_auth(mech: bytes, initial, conts, users=USERS):
    """The harness's own SASL oracle (its user table): the user an exchange
    authenticates, or None.  PLAIN: authzid NUL authcid NUL password in the
    initial response or in the first continuation line; LOGIN: user name and
    password lines.  (ManageSieve ignores the authorization id.)"""
    def b64(x):
        try:
            return base64.b64decode(x, validate=True)
        except Exception:
            return None
    def val(line):
        try:
            v, _ = _string_at(re.sub(rb'^\{(\d+)\+\}', rb'{\1}', line), 0)
            return v
        except Exception:
            return None
    m = mech.upper()
    if m == b'PLAIN':
        enc = initial if initial is not None else (val(conts[0]) if conts else None)
        if enc is None or enc == b'*':
            return None
        dec = b64(enc)
        if dec is None or dec.count(b'\0') != 2:
            return None
        _zid, cid, pw = dec.split(b'\0')
    elif m == b'LOGIN' and initial is None and len(conts) >= 2:
        a, b = val(conts[0]), val(conts[1])
        if a is None or b is None or a == b'*' or b == b'*':
            return None
        cid, pw = b64(a), b64(b)
        if cid is None or pw is None:
            return None
    else:
        return None
    try:
        user = cid.decode('utf-8')
    except UnicodeError:
        return None
    if users.get(user) is not None and users[user].encode() == pw:
        return user
    return None


_compiler = None


def compiles(data: bytes) -> bool:
    """Oracle: what pymap's Sieve compiler says about these bytes (the
    coroutine never suspends)."""
    global _compiler
    from pymap.sieve import SieveCompiler, SieveParseError
    if _compiler is None:
        _compiler = SieveCompiler()
    coro = _compiler.compile(data)
    try:
        coro.send(None)
    except StopIteration:
        return True
    except SieveParseError:
        return False
    raise RuntimeError('SieveCompiler.compile suspended')


# ------------------------------------------------------------------ monitor
class Monitor:
    """The property statement as a dictionary model, driven by the responses:
    what was answered OK takes effect as the statement says, what was answered
    NO/BYE has no effect, an unauthenticated connection gets NO for everything
    but the five commands and has no effect at all, nobody affects another
    user.  After every step the stores observed through the observers'
    LISTSCRIPTS/GETSCRIPT must equal the dictionaries."""

    def __init__(self, users, backend: str = 'dict') -> None:
        self.backend = backend
        self.single = backend == 'maildir'      # one-script store: what is stored is active
        self.maps = {u: {} for u in users}
        self.active = {u: None for u in users}
        self.auth = {}          # connection -> user name (authenticated)
        self.fail = []          # (clause, what, obs)

    def load(self, u, names, scripts, active):
        self.maps[u] = dict(scripts)
        self.active[u] = active[0] if active else None

    def bad(self, clause, what, kind):
        self.fail.append((clause, what, {'kind': kind, 'backend': self.backend}))

    def step(self, ev, rs):
        """ev: dict(conn, kind, args, ok_spelling, word); rs: responses|None."""
        k, kind, a = ev['conn'], ev['kind'], ev.get('args', ())
        if rs is None:
            return
        r = rs[-1]
        u = self.auth.get(k)
        if u is None:
            if ev['word'] not in FIVE and r.cond != 'NO':
                self.bad('sieve_gate', f'{ev["word"]!r} answered {r.cond} before authentication',
                         'unauth_not_refused')
            if r.items and ev['word'] not in (b'CAPABILITY', b'STARTTLS'):
                self.bad('sieve_gate', f'{ev["word"]!r} returned data before authentication',
                         'unauth_data')
            if kind == 'AUTH' and r.cond == 'OK' and ev.get('user'):
                self.auth[k] = ev['user']
            return
        m, act = self.maps.get(u), self.active.get(u)
        for rr in rs:
            for nm, val in rr.items:
                if nm == b'OWNER' and isinstance(val, bytes) and ev['word'] == b'CAPABILITY' \
                        and val != u.encode():
                    self.bad('sieve_isolation', f'connection authenticated as {u} is told OWNER {val!r}',
                             'owner_wrong')
        if kind == 'UNAUTH' and r.cond == 'OK':
            del self.auth[k]
            return
        if m is None:       # a user we do not observe
            return
        ok = r.cond == 'OK'
        # a map does not refuse what it must accept (well-spelled commands only)
        if ev['ok_spelling'] and not ok and not self.single:
            must = (kind == 'SETACTIVE' and (a[0] == b'' or a[0] in m)) \
                or (kind == 'DELETE' and a[0] in m and a[0] != act) \
                or (kind == 'RENAME' and a[0] in m and a[1] not in m and a[1] in NAMES)
            if must:
                self.bad('sieve_map', f'{kind} {a!r} refused ({r}) although the store is {sorted(m)} '
                         f'active {act!r}', 'refused')
        if kind == 'PUT' and ok:
            m[a[0]] = a[1]
            if self.single:
                self.active[u] = a[0]
        elif kind == 'GET':
            if a[0] in m and ev['ok_spelling']:
                if not ok or r.items != [(m[a[0]], None)]:
                    self.bad('sieve_map', f'GETSCRIPT {a[0]!r} did not return the stored bytes: {r}',
                             'get_differs')
            elif ok:
                self.bad('sieve_map', f'GETSCRIPT of an unknown name answered OK: {r}', 'get_unknown')
        elif kind == 'LIST' and ev['ok_spelling']:
            names = [n for n, _ in r.items]
            marks = [n for n, x in r.items if x is True]
            if not ok or sorted(names) != sorted(m) or marks != ([act] if act is not None else []):
                self.bad('sieve_map', f'LISTSCRIPTS {r.items} but stored {sorted(m)} active {act!r}',
                         'list_differs')
        elif kind == 'SETACTIVE' and ok:
            if a[0] == b'':
                self.active[u] = None
            elif a[0] in m:
                self.active[u] = a[0]
            elif not self.single:       # (the one-script store accepts SETACTIVE "active" with no script: no effect)
                self.bad('sieve_map', f'SETACTIVE of an unknown name {a[0]!r} answered OK', 'active_unknown')
        elif kind == 'DELETE' and ok:
            if a[0] == act:
                self.bad('sieve_map', f'the active script {a[0]!r} was deleted', 'active_deleted')
                self.active[u] = None
            if a[0] not in m and not self.single:
                self.bad('sieve_map', f'DELETESCRIPT of an unknown name {a[0]!r} answered OK', 'delete_unknown')
            m.pop(a[0], None)
        elif kind == 'RENAME' and ok:
            if a[0] not in m or a[1] in m:
                self.bad('sieve_map', f'RENAMESCRIPT {a[0]!r} -> {a[1]!r} accepted although source '
                         f'missing or target present', 'rename_accepted')
            if a[0] in m:
                m[a[1]] = m.pop(a[0])
                if act == a[0]:
                    self.active[u] = a[1]

    def compare(self, u, names, scripts, active, actor_user, cond):
        m, act = self.maps[u], self.active[u]
        if len(names) != len(set(names)):
            self.bad('sieve_map', f'LISTSCRIPTS of {u} lists a name twice: {names}', 'dup_names')
        if len(active) > 1:
            self.bad('sieve_map', f'{u} has more than one active script: {active}', 'two_active')
        if scripts != m or (active[0] if active else None) != act:
            if actor_user is None:
                clause, kind = 'sieve_gate', 'unauth_effect'
            elif actor_user != u:
                clause, kind = 'sieve_isolation', 'other_user_effect'
            elif cond != 'OK':
                clause, kind = 'sieve_map', 'error_effect'
            else:
                clause, kind = 'sieve_map', 'map_differs'
            self.bad(clause, f'store of {u} is {scripts} active {active}, the statement gives '
                     f'{m} active {act!r}', kind)
            self.maps[u] = dict(scripts)          # resynchronise
            self.active[u] = active[0] if active else None


# --------------------------------------------------------------- generators
NAMES = [b'a', b'ab', b'b', b'c', 'é'.encode(), b'x"y', b'back\\slash', b'sp ace', b'A',
         'ü'.encode() * 35, b'n' * 70, '\U0001f600'.encode(), b'{3+}', b'a\x00b', 'ａ'.encode(),
         b'"', b'\\', b'a' * 3000]
BAD_NAMES = [b'', b'\xff', b'\xc3', b'\xed\xa0\x80', b'\xc0\xaf', b'\xf4\x90\x80\x80', b'a\nb',
             b'\xe2\x82']
S24 = b'#' + b'x' * 16 + b'\r\nkeep;'          # exactly 24 bytes: the limit of the 'small' configuration
S25 = b'#' + b'x' * 17 + b'\r\nkeep;'
GOOD_SCRIPTS = [S24, S25, b'keep;', b'discard;', b'require "fileinto"; fileinto "X";',
                b'if header :contains "subject" "x" { discard; }\r\n',
                b'# comment\r\nkeep;\r\n', b'require ["fileinto", "reject"];\r\nreject "no";']
BAD_SCRIPTS = [b'kee', b'', b'\xff\x00', b'if {', b'keep', b'x' * 30, b'keep;' * 900,
               b'"quoted"', b'{5+}\r\nkeep;', b'tail \\']


def spell(rng, b: bytes, how=None) -> tuple[bytes, bool]:
    """-> (wire form, True when it is a form the grammar accepts)."""
    how = how or rng.choice(['q', 'q', 'l', 'l', 'q', 'l', 'q', 'l', 'n', 'bq'])
    if how == 'q':
        return q(b), not (b'\r' in b or b'\n' in b)
    if how == 'l':
        return lit(b), len(b) <= 4096
    if how == 'n':              # synchronising literal: never accepted; only its header is sent
        return b'{%d}\r\n' % len(b), False
    return b'"' + b + b'"', not re.search(rb'[\r\n"\\]', b)      # unescaped


def gen_event(rng, nconns: int, names, datas, users=USERS) -> dict:
    """One abstract command, spelled."""
    k = rng.randrange(nconns)
    r = rng.random()
    name = lambda: rng.choice(names) if rng.random() < 0.9 else rng.choice(BAD_NAMES)
    sp = rng.choice([b' ', b' ', b' ', b'  '])
    eol = rng.choice([b'\r\n', b'\r\n', b'\r\n', b'\n', b' \r\n'])
    ok = True
    def S(b, how=None):
        nonlocal ok
        w, good = spell(rng, b, how)
        ok = ok and good
        return w
    def word(w):
        return w if rng.random() < 0.7 else (w.lower() if rng.random() < 0.5 else w.title())
    if r < 0.22:
        n, d = name(), rng.choice(datas)
        body = word(b'PUTSCRIPT') + sp + S(n) + sp + S(d)
        ev = dict(kind='PUT', args=(n, d))
    elif r < 0.34:
        n = name()
        body = word(b'GETSCRIPT') + sp + S(n)
        ev = dict(kind='GET', args=(n,))
    elif r < 0.44:
        body = word(b'LISTSCRIPTS')
        ev = dict(kind='LIST')
    elif r < 0.53:
        n = name() if rng.random() < 0.8 else b''
        body = word(b'SETACTIVE') + sp + S(n)
        ev = dict(kind='SETACTIVE', args=(n,))
    elif r < 0.61:
        n = name()
        body = word(b'DELETESCRIPT') + sp + S(n)
        ev = dict(kind='DELETE', args=(n,))
    elif r < 0.70:
        a, b = name(), name()
        body = word(b'RENAMESCRIPT') + sp + S(a) + sp + S(b)
        ev = dict(kind='RENAME', args=(a, b))
    elif r < 0.73:
        n = name()
        size = rng.choice([0, 1, 24, 25, 1000000000, 1000000001, 10 ** 30])
        body = word(b'HAVESPACE') + sp + S(n) + sp + b'%d' % size
        ev = dict(kind='HAVESPACE', args=(n, size))
    elif r < 0.77:
        d = rng.choice(datas)
        body = word(b'CHECKSCRIPT') + sp + S(d)
        ev = dict(kind='CHECK', args=(d,))
    elif r < 0.80:
        t = rng.choice([None, b't1', b'', b'x' * 70, b'q"\\', b'line\nbreak'])
        body = word(b'NOOP') + (b'' if t is None else sp + S(t, rng.choice(['q', 'l'])))
        ev = dict(kind='NOOP')
    elif r < 0.83:
        body = word(b'CAPABILITY')
        ev = dict(kind='CAPABILITY')
    elif r < 0.85:
        body = word(b'LOGOUT')
        ev = dict(kind='LOGOUT')
    elif r < 0.88:
        body = word(b'STARTTLS')
        ev = dict(kind='STARTTLS')
    elif r < 0.91:
        body = word(b'UNAUTHENTICATE')
        ev = dict(kind='UNAUTH')
    else:
        return gen_auth(rng, k, users=users)
    buf = body + eol
    if rng.random() < 0.04:      # damage: trailing garbage / missing argument
        buf = rng.choice([body + b' x' + eol, body.rsplit(b' ', 1)[0] + eol, body + b' ""' + eol])
        ok = False
    ev.update(conn=k, buf=buf, conts=[], ok_spelling=ok, word=first_word(buf))
    return ev


def gen_auth(rng, k: int, user=None, how=None, users=USERS) -> dict:
    how = how or rng.choice(['plain', 'plain', 'plain', 'plain-cont', 'login', 'badpw', 'nouser',
                             'badmech', 'cancel', 'authzid', 'junk-cont', 'lit'])
    user = user or rng.choice(['u1', 'u2'] + list(users))
    pw = users[user]
    cred = base64.b64encode(b'\0' + user.encode() + b'\0' + pw.encode())
    conts, target = [], user
    if how == 'plain':
        buf = b'AUTHENTICATE "PLAIN" ' + q(cred) + b'\r\n'
    elif how == 'lit':
        buf = b'Authenticate "plain" ' + lit(cred) + b'\r\n'
    elif how == 'plain-cont':
        buf = b'AUTHENTICATE "PLAIN"\r\n'
        conts = [q(cred) + b'\r\n']
    elif how == 'login':
        buf = b'AUTHENTICATE "LOGIN"\r\n'
        conts = [q(base64.b64encode(user.encode())) + b'\r\n', lit(base64.b64encode(pw.encode())) + b'\r\n']
    elif how == 'badpw':
        buf = b'AUTHENTICATE "PLAIN" ' + q(base64.b64encode(b'\0' + user.encode() + b'\0nope')) + b'\r\n'
        target = None
    elif how == 'nouser':
        buf = b'AUTHENTICATE "PLAIN" ' + q(base64.b64encode(b'\0nobody\0' + pw.encode())) + b'\r\n'
        target = None
    elif how == 'badmech':
        buf = b'AUTHENTICATE "CRAM-MD5" ' + q(cred) + b'\r\n'
        target = None
    elif how == 'cancel':
        buf = b'AUTHENTICATE "PLAIN"\r\n'
        conts = [b'"*"\r\n']
        target = None
    elif how == 'authzid':
        other = 'u2' if user != 'u2' else 'u1'
        buf = b'AUTHENTICATE "PLAIN" ' + q(base64.b64encode(
            other.encode() + b'\0' + user.encode() + b'\0' + pw.encode())) + b'\r\n'
    else:   # a script command sent where the SASL response is expected
        buf = b'AUTHENTICATE "PLAIN"\r\n'
        conts = [b'PUTSCRIPT "sneak" "keep;"\r\n']
        target = None
    return dict(kind='AUTH', conn=k, buf=buf, conts=conts, ok_spelling=True,
                word=b'AUTHENTICATE', user=target)


for _b in NAMES + BAD_NAMES + GOOD_SCRIPTS + BAD_SCRIPTS:
    for _f in (_b, q(_b), lit(_b)):
        pool_add(_f, force=len(_f) >= 5)
for _w in FIVE + SCRIPT_CMDS + (b'UNAUTHENTICATE',):
    for _f in (_w, _w.lower(), _w.title()):
        pool_add(_f, force=True)


def gen_program(rng, nconns: int, length: int, cfg_name: str = 'default', backend: str = 'dict'):
    users = WORLDS[backend].users
    names = rng.sample(NAMES, 4)
    if rng.random() < 0.5:
        names[:2] = [b'a', b'ab']           # one name a prefix of another
    datas = rng.sample(GOOD_SCRIPTS, 2) + rng.sample(BAD_SCRIPTS, 2)
    if cfg_name == 'small':
        datas[:2] = [S24, S25]              # at and just above max_filter_len
    if backend == 'maildir':                # the one name that can be stored, and boundary scripts
        names = [b'active', b'active', rng.choice([b'Active', b'foo', b'active ', b'a']),
                 rng.choice(NAMES)]
        datas = [rng.choice([b'', b'x', b'keep;']), b'', rng.choice(GOOD_SCRIPTS),
                 rng.choice(BAD_SCRIPTS)]
        rng.shuffle(datas)
    evs = []
    # most programs log somebody in early and store something, otherwise little happens
    logged = []
    for k in range(nconns):
        if rng.random() < 0.6:
            evs.append(gen_auth(rng, k, how=rng.choice(['plain', 'plain-cont', 'login']), users=users))
            logged.append(k)
    if logged and rng.random() < 0.7:
        k = rng.choice(logged)
        d = datas[0]
        evs.append(_fixed(k, 'PUT', (names[0], d), b'PUTSCRIPT ' + q(names[0]) + b' ' + lit(d) + b'\r\n'))
        evs.append(_fixed(k, 'PUT', (names[1], d), b'PUTSCRIPT ' + lit(names[1]) + b' ' + lit(d) + b'\r\n'))
        evs.append(_fixed(k, 'SETACTIVE', (names[0],), b'SETACTIVE ' + q(names[0]) + b'\r\n'))
    while len(evs) < length:
        evs.append(gen_event(rng, nconns, names, datas, users))
    if logged and rng.random() < 0.6:
        # a connection changes hands: UNAUTHENTICATE, then another user logs in on it
        k = rng.choice(logged)
        first = next(e for e in evs if e['kind'] == 'AUTH' and e['conn'] == k)
        other = rng.choice([u for u in users if u != first.get('user')])
        i = rng.randrange(len(logged) + 3 if len(evs) > len(logged) + 3 else 1, len(evs) + 1)
        evs[i:i] = [_fixed(k, 'UNAUTH', (), b'UNAUTHENTICATE\r\n'),
                    gen_auth(rng, k, user=other, how=rng.choice(['plain', 'plain-cont', 'login', 'lit']),
                             users=users)]
        if rng.random() < 0.5:
            evs.insert(i + 2, _fixed(k, 'CAPABILITY', (), b'CAPABILITY\r\n'))
    return evs


def _fixed(k, kind, args, buf):
    return dict(kind=kind, conn=k, args=args, buf=buf, conts=[], ok_spelling=True,
                word=first_word(buf))


# ------------------------------------------------------- running a program
async def run_program(cfg_name: str, nconns: int, evs, monitor: bool = True, warm=tuple(USERS),
                      backend: str = 'dict'):
    """-> dict(case term pieces, monitor failures, transcript)."""
    W = WORLDS[backend]
    w = await (W(cfg_name).start(nconns, warm=warm) if backend == 'dict' else W(cfg_name).start(nconns))
    try:
        mon = Monitor(list(w.observers), backend)
        for u in w.observers:
            mon.load(u, *await w.observe(u))
        before = last = w.snapshot()
        for snap in before.values():
            for v in W.snap_strings(snap):
                pool_add(v)
        greeting = parse_output(w.greeting)[0]
        sasl_tbl, comp_tbl, wire_evs, expect, transcript = [], {}, [], [], []
        for ev in evs:
            buf = ev['buf']
            if not framed(buf):
                continue
            actor = mon.auth.get(ev['conn'])
            rs, used = await w.send(ev['conn'], buf, ev['conts'])
            snap = w.snapshot()
            word = ev['word']
            if word == b'AUTHENTICATE':
                c = impl_parse(buf)
                if c is not None and type(c).__name__ == 'AuthenticateCommand':
                    who = expected_auth(c.mech_name, c.initial_data, used, W.users)
                    ev['user'] = who
                    out = 'AuthFail' if who is None else f'(AuthOk {enc_key(who)} None)'
                    ob = 'None' if c.initial_data is None else f'(Some {T.bytes_(c.initial_data)})'
                    sasl_tbl.append(T.pair(T.bytes_(c.mech_name), ob,
                                           T.lst(B(x) for x in used), out))
            if word == b'CHECKSCRIPT':
                c = impl_parse(buf)
                if c is not None and type(c).__name__ == 'CheckScriptCommand':
                    comp_tbl[c.script_data] = compiles(c.script_data)
            wire_evs.append(T.pair(T.nat(ev['conn']), B(buf), T.lst(B(x) for x in used)))
            obs = T.lst(T.pair(enc_key(u), W.enc_store(snap[u])) for u in W.users
                        if snap[u] != last[u])      # only the stores that changed
            last = snap
            expect.append(T.pair('None' if rs is None else f'(Some {enc_resp(word, rs)})', obs))
            transcript.append((ev['conn'], buf, used, rs))
            if monitor:
                mon.step(ev, rs)
                for u in w.observers:
                    names, scripts, active = await w.observe(u)
                    mon.compare(u, names, scripts, active, actor, rs[-1].cond if rs else None)
        (mx, tls) = CONFIGS[cfg_name][2]
        cfg = f'(mk_config {"None" if mx is None else "(Some " + T.N(mx) + ")"} {T.boolean(tls)})'
        term = (f'({W.case_ctor} ' + ' '.join([
            cfg,
            T.lst(T.pair(enc_key(u), W.enc_store(before[u])) for u in W.users),
            T.lst(sasl_tbl),
            T.lst(T.pair(B(d), T.boolean(b)) for d, b in comp_tbl.items()),
            T.nat(nconns),
            enc_resp(b'', greeting),
            T.lst(wire_evs),
            T.lst(expect)]) + ')')
        excs = [repr(c.exc) for c in w.all_conns if c.exc is not None]
        return dict(term=term, failures=mon.fail, transcript=transcript, excs=excs)
    finally:
        await w.close()


def describe(cfg_name, nconns, evs, backend: str = 'dict') -> dict:
    return {'config': cfg_name, 'nconns': nconns, 'backend': backend,
            'events': [{'conn': e['conn'], 'kind': e['kind'], 'buf': e['buf'].hex(),
                        'conts': [c.hex() for c in e['conts']],
                        'args': [a.hex() if isinstance(a, bytes) else a for a in e.get('args', ())],
                        'ok_spelling': e['ok_spelling'], 'user': e.get('user')}
                       for e in evs]}


def undescribe(obj):
    evs = []
    for e in obj['events']:
        buf = bytes.fromhex(e['buf'])
        evs.append(dict(conn=e['conn'], kind=e['kind'], buf=buf,
                        conts=[bytes.fromhex(c) for c in e['conts']],
                        args=tuple(bytes.fromhex(a) if isinstance(a, str) else a for a in e['args']),
                        ok_spelling=e['ok_spelling'], user=e.get('user'), word=first_word(buf)))
    return obj['config'], obj['nconns'], evs


# ---------------------------------------------------------------- sections
def _rng(ctx, name: str):
    """one generator per section (they run concurrently), all from the seed"""
    import random
    return random.Random(f'{ctx.prop}-{ctx.seed}-{name}')


def section_parse(ctx) -> None:
    rng = _rng(ctx, 'parse')
    bases = [b'PUTSCRIPT "a" "b"\r\n', b'NOOP "t"\r\n', b'SETACTIVE ""\r\n',
             b'HAVESPACE "a" 10\r\n', b'GETSCRIPT {1+}\r\na\r\n', b'RENAMESCRIPT "a" "b"\r\n',
             b'AUTHENTICATE "PLAIN" "eA=="\r\n', b'CHECKSCRIPT {5+}\r\nkeep;\r\n',
             b'DELETESCRIPT "\xc3\xa9"\r\n', b'LISTSCRIPTS\r\n', b'logout\r\n']
    stream = []          # (buffer, Gallina term for it or None)
    nb = ctx.scale(2, 6)
    for bi, base in enumerate(bases[:nb]):           # every byte value at every position
        pool_add(base, force=True)
        bn = POOL[base]
        for kpos in range(len(base)):
            for c in range(256):
                stream.append((base[:kpos] + bytes([c]) + base[kpos + 1:],
                               f'(rep {bn} {kpos} {c})'))
        for kpos in range(len(base) + 1):
            for c in (rng.sample(range(256), 24) if ctx.quick else range(256)):
                stream.append((base[:kpos] + bytes([c]) + base[kpos:], f'(ins {bn} {kpos} {c})'))
    # every UTF-8-ish 1..3 byte name over a boundary alphabet
    alpha = [0x61, 0x7f, 0x80, 0xbf, 0xc0, 0xc2, 0xdf, 0xe0, 0xa0, 0x9f, 0xed, 0xef, 0xf0, 0x90,
             0x8f, 0xf4, 0xf5, 0xff]
    utf = [t for n in (1, 2, 3) for t in itertools.product(alpha, repeat=n)]
    utf4 = list(itertools.product([0xf0, 0xf4, 0x90, 0x8f, 0x80, 0xbf, 0x61], repeat=4))
    if ctx.quick:       # all 1- and 2-byte names, a sample of the longer ones
        utf = utf[:18 + 324] + rng.sample(utf[18 + 324:], 1500)
        utf4 = rng.sample(utf4, 500)
    for t in utf + utf4:
        stream.append((b'GETSCRIPT ' + lit(bytes(t)) + b'\r\n',
                       f'(getscript_lit {T.bytes_(bytes(t))})'))
    for n in (1, 4299, 4300, 4301):
        # (the value stays small: a 4300-digit literal would take Coq minutes to read)
        stream.append((b'HAVESPACE "a" ' + b'0' * (n - 1) + b'7\r\n', None))
        stream.append((b'HAVESPACE "a" ' + b'0' * n + b'\r\n', None))
        stream.append((b'GETSCRIPT {' + b'0' * n + b'1+}\r\na\r\n', None))
    for n in (0, 1, 4095, 4096, 4097, 5000):
        pool_add(b'x' * n)
        stream.append((b'CHECKSCRIPT ' + lit(b'x' * n) + b'\r\n', None))
        stream.append((b'CHECKSCRIPT ' + q(b'x' * n) + b'\r\n', None))
        stream.append((b'CHECKSCRIPT {%d+}\r\n' % (n + 1) + b'x' * n + b'\r\n', None))
    names, datas = NAMES + BAD_NAMES, GOOD_SCRIPTS + BAD_SCRIPTS
    n_sweep = len(stream)
    for _ in range(ctx.scale(1000, 5000)):
        ev = gen_event(rng, 1, names, datas)
        buf = bytearray(ev['buf'])
        if rng.random() < 0.3:        # mutate
            for _ in range(rng.randint(1, 3)):
                kpos = rng.randrange(len(buf) + 1)
                c = rng.choice(b' "\\{}+~\r\n0159aZ') if rng.random() < 0.7 else rng.randrange(256)
                op = rng.random()
                if op < 0.4:
                    buf.insert(kpos, c)
                elif op < 0.7 and buf:
                    del buf[min(kpos, len(buf) - 1)]
                elif buf:
                    buf[min(kpos, len(buf) - 1)] = c
        stream.append((bytes(buf), None))
    seen, cases, inputs = set(), [], []
    hist = {}
    n_cheap = 0
    for si, (buf, term) in enumerate(stream):
        if buf in seen:
            continue
        seen.add(buf)
        try:
            c = impl_parse(buf)
        except Exception as exc:      # an exception other than NotParseable / ValueError escapes
            ctx.extra.setdefault('parser_exceptions', []).append(
                {'input': buf[:80].hex(), 'exc': repr(exc)[:120]})
            continue
        kind = 'ValueError' if c is ValueError else type(c).__name__
        hist[kind] = hist.get(kind, 0) + 1
        ctx.count(('parse', buf), nontrivial=c is not None)
        exp = 'NotParseable' if c is None else '(Exc 1%N)' if c is ValueError \
            else f'(Ok {enc_cmd(c)})'
        cases.append(T.pair(term or B(buf), exp))
        inputs.append(buf)
        if si < n_sweep:
            n_cheap = len(cases)
    ctx.extra['parse_histogram'] = hist
    ctx.sample({'parse_input': inputs[-1].decode('latin-1')})
    hdr = HEADER + pool_header()
    # the swept inputs are small terms (big shards); the generated ones are long byte lists
    bad = ctx.run_cases('sieve_parse_sweep', hdr, 'bytes * result cmd', cases[:n_cheap],
                        'chk_parse', shard=2500)
    bad += [n_cheap + i for i in ctx.run_cases('sieve_parse_generated', hdr, 'bytes * result cmd',
                                               cases[n_cheap:], 'chk_parse', shard=250)]
    for i in bad[:5]:
        ctx.disagreement('sieve_parse', {'input': inputs[i].hex(),
                                         'impl': repr(impl_parse(inputs[i]))})


def section_filterset(ctx) -> None:
    """Method-call sequences on the real FilterSet object vs. the hand model
    and the model generated from its source."""
    from pymap.backend.dict.filter import FilterSet
    rng = _rng(ctx, 'filterset')
    pool = ['a', 'b', 'c', '', 'é', 'A']
    vals = [b'', b'v1', b'v2', b'\x00\xff']

    def rnd_ops(n):
        ops = []
        for _ in range(n):
            k = rng.randrange(9)
            nm, nm2 = rng.choice(pool), rng.choice(pool)
            ops.append([('put', nm, rng.choice(vals)), ('put', nm, rng.choice(vals)),
                        ('delete', nm), ('rename', nm, nm2), ('clear_active',),
                        ('set_active', nm), ('get', nm), ('get_active',), ('get_all',)][k])
        return ops
    small = [('put', 'a', b'v1'), ('put', 'b', b'v2'), ('delete', 'a'), ('rename', 'a', 'b'),
             ('rename', 'a', 'c'), ('rename', 'a', 'a'), ('set_active', 'a'), ('clear_active',),
             ('get', 'a'), ('get_active',), ('get_all',), ('delete', 'b')]
    seqs = [list(t) for n in (1, 2, 3) for t in itertools.product(small, repeat=n)] \
        if not ctx.quick else [list(t) for n in (1, 2) for t in itertools.product(small, repeat=n)]
    seqs += [rnd_ops(rng.randint(3, 14)) for _ in range(ctx.scale(600, 3000))]

    async def run_all():
        cases = []
        for ops in seqs:
            fs = FilterSet()
            steps = []
            for op in ops:
                try:
                    v = await getattr(fs, op[0])(*op[1:])
                    if v is None:
                        pv = 'VNone'
                    elif isinstance(v, bytes):
                        pv = f'(VBytes {T.bytes_(v)})'
                    else:
                        pv = f'(VAll {enc_optkey(v[0])} {T.lst(enc_key(x) for x in v[1])})'
                    res = ('Ret', pv)
                except (KeyError, ValueError) as exc:
                    res = ('Raise', f'({type(exc).__name__} {enc_optkey(exc.args[0])})')
                st = enc_fstate(list(fs._filters.items()), fs._active)
                name = {'put': 'OpPut', 'delete': 'OpDelete', 'rename': 'OpRename',
                        'clear_active': 'OpClear', 'set_active': 'OpSetActive', 'get': 'OpGet',
                        'get_active': 'OpGetActive', 'get_all': 'OpGetAll'}[op[0]]
                args = ' '.join(enc_key(x) if isinstance(x, str) else T.bytes_(x) for x in op[1:])
                steps.append(T.pair(f'({name} {args})' if args else name, f'({res[0]} {st} {res[1]})'))
            ctx.count(('fsops', tuple(ops)))
            cases.append(T.lst(steps))
        return cases
    cases = asyncio.run(run_all())
    ctx.sample({'filterset_ops': repr(seqs[-1])})
    for i in ctx.run_cases('filterset_ops', HEADER, 'list (fsop * outcome)', cases, 'chk_ops',
                           shard=600)[:5]:
        ctx.disagreement('filterset_ops', {'ops': repr(seqs[i])})


ALPHABET = [
    ('AUTH', lambda k: gen_auth(None, k, 'u1', 'plain')),
    ('AUTH2', lambda k: gen_auth(None, k, 'u2', 'plain')),
    ('PUTa', lambda k: _fixed(k, 'PUT', (b'a', b'keep;'), b'PUTSCRIPT "a" "keep;"\r\n')),
    ('PUTab', lambda k: _fixed(k, 'PUT', (b'ab', b'discard;'), b'PUTSCRIPT "ab" {8+}\r\ndiscard;\r\n')),
    ('GETa', lambda k: _fixed(k, 'GET', (b'a',), b'GETSCRIPT "a"\r\n')),
    ('LIST', lambda k: _fixed(k, 'LIST', (), b'LISTSCRIPTS\r\n')),
    ('ACTa', lambda k: _fixed(k, 'SETACTIVE', (b'a',), b'SETACTIVE "a"\r\n')),
    ('ACT0', lambda k: _fixed(k, 'SETACTIVE', (b'',), b'SETACTIVE ""\r\n')),
    ('DELa', lambda k: _fixed(k, 'DELETE', (b'a',), b'DELETESCRIPT "a"\r\n')),
    ('RENa', lambda k: _fixed(k, 'RENAME', (b'a', b'ab'), b'RENAMESCRIPT "a" "ab"\r\n')),
    ('RENab', lambda k: _fixed(k, 'RENAME', (b'ab', b'a'), b'RENAMESCRIPT {2+}\r\nab "a"\r\n')),
    ('UNAUTH', lambda k: _fixed(k, 'UNAUTH', (), b'UNAUTHENTICATE\r\n')),
    ('CHECK', lambda k: _fixed(k, 'CHECK', (b'kee',), b'CHECKSCRIPT "kee"\r\n')),
    ('CHECKok', lambda k: _fixed(k, 'CHECK', (b'keep;',), b'CHECKSCRIPT {5+}\r\nkeep;\r\n')),
    ('HAVE', lambda k: _fixed(k, 'HAVESPACE', (b'a', 5), b'HAVESPACE "a" 5\r\n')),
    ('CAP', lambda k: _fixed(k, 'CAPABILITY', (), b'CAPABILITY\r\n')),
]


def section_programs(ctx):
    rng = _rng(ctx, 'programs')
    progs = []
    # (1) all sequences over the small alphabet on two connections: connection 0
    #     starts unauthenticated, connection 1 is first logged in as u1
    # connection 0 starts unauthenticated (the gate: a representative of every kind of script
    # command, and the ways in and out), connection 1 is logged in as u1 first (the map)
    on0 = ('AUTH', 'AUTH2', 'PUTa', 'GETa', 'LIST', 'ACTa', 'DELa', 'UNAUTH')
    on1 = ('PUTa', 'PUTab', 'GETa', 'LIST', 'ACTa', 'ACT0', 'DELa', 'RENa', 'RENab', 'UNAUTH',
           'AUTH2', 'CHECK')
    letters = [(k, nm, mk) for k, use in ((0, on0), (1, on1)) for nm, mk in ALPHABET if nm in use]
    amk = dict(ALPHABET)
    for _nm, mk in ALPHABET:
        pool_add(mk(0)['buf'], force=True)
    login = [gen_auth(None, 1, 'u1', 'plain')]
    # two starting points: u1's store empty / holding the active script "a"
    starts = [login, login + [amk['PUTa'](1), amk['ACTa'](1)]]
    # ... and connection 1 re-used by another user: u1 stores and activates "a", logs out of
    # the connection with UNAUTHENTICATE, u2 logs in on it (always to depth 2)
    relogged = starts[1] + [amk['UNAUTH'](1), gen_auth(None, 1, 'u2', 'plain')]
    maxlen = 3 if not ctx.quick else 2
    for pre in starts + [relogged]:
        for n in range(1, (maxlen if pre is not relogged else (1 if ctx.quick else 2)) + 1):
            for t in itertools.product(letters, repeat=n):
                progs.append(('default', 2, pre + [mk(k) for k, _nm, mk in t], ('u1', 'u2')))
    # the gate on its own: every command of the alphabet on the unauthenticated connection,
    # fresh, after a failed login, and after login + UNAUTHENTICATE
    for _nm, mk in ALPHABET:
        for pre0 in ([], [gen_auth(None, 0, 'u1', 'badpw')],
                     [gen_auth(None, 0, 'u1', 'plain'), amk['UNAUTH'](0)]):
            for pre in starts:
                progs.append(('default', 2, pre + pre0 + [mk(0), amk['LIST'](1)], ('u1', 'u2')))
    # one connection, several users in sequence: A logs in (and stores something), leaves with
    # UNAUTHENTICATE, B logs in on the same connection — or tries to while A is still
    # authenticated (refused) — then every command of the alphabet, then both users' views
    for ua, ub in (('u1', 'u2'), ('u2', 'u1'), ('u1', 'u1')):
        for stored in ((True,) if ctx.quick else (False, True)):
            for leave in (True, False):
                for how in (('login',) if ctx.quick else ('plain', 'login')):
                    for _nm, mk in ALPHABET:
                        evs = [gen_auth(None, 0, ua, 'plain')]
                        if stored:
                            evs += [amk['PUTa'](0), amk['ACTa'](0)]
                        if leave:
                            evs.append(amk['UNAUTH'](0))
                        evs += [gen_auth(None, 0, ub, how), amk['CAP'](0), mk(0), amk['LIST'](0),
                                amk['GETa'](0)]
                        progs.append(('default', 2, evs, ('u1', 'u2')))
    n_exh = len(progs)
    if ctx.quick:      # a sample of the length-3 sequences
        for _ in range(300):
            t = [rng.choice(letters) for _ in range(3)]
            progs.append(('default', 2, rng.choice(starts + [relogged]) + [mk(k) for k, _nm, mk in t],
                          ('u1', 'u2')))
    ctx.extra['exhaustive_sequences'] = {'alphabet': len(letters), 'max_len': maxlen,
                                         'starting_stores': 2, 'count': n_exh}
    # (2) random programs
    for _ in range(ctx.scale(300, 3000)):
        cfg_name = rng.choice(['default', 'default', 'small', 'nolimit', 'tls'])
        nconns = rng.choice([2, 3, 3, 4])
        progs.append((cfg_name, nconns, gen_program(rng, nconns, rng.randint(6, 22), cfg_name),
                      tuple(USERS)))

    async def run_all():
        out = []
        for cfg_name, nconns, evs, warm in progs:
            try:
                out.append(await run_program(cfg_name, nconns, evs, warm=warm))
            except Exception as exc:
                out.append(dict(error=repr(exc)))
        return out
    results = asyncio.run(run_all())
    cases, idx = [], []
    kinds = {}
    for i, ((cfg_name, nconns, evs, _warm), res) in enumerate(zip(progs, results)):
        if 'error' in res:
            ctx.failure('harness', f'program could not be run: {res["error"]}',
                        describe(cfg_name, nconns, evs), {'kind': 'harness_error'})
            continue
        for clause, what, obs in res['failures'][:3]:
            ctx.failure(clause, what, describe(cfg_name, nconns, evs), obs)
        for e in res['excs'][:1]:     # C06's subject; here it only shows up as a missing answer
            ctx.extra.setdefault('escaped_exceptions', []).append(e[:200])
        for ev in evs:
            kinds[ev['kind']] = kinds.get(ev['kind'], 0) + 1
        ctx.count(('prog', cfg_name, nconns, tuple(e['buf'] for e in evs)))
        cases.append(res['term'])
        idx.append(i)
    ctx.extra['program_command_histogram'] = kinds
    ctx.sample({'program': [(c, b.decode('latin-1'), repr(r)) for c, b, _u, r in
                            results[-1].get('transcript', [])[:8]]})
    def finish():      # the Coq part, run while the next batch of programs executes
        bad = ctx.run_cases('sieve_prog', HEADER + pool_header(), 'prog_case', cases, 'chk_prog',
                            shard=400 if ctx.quick else 250)
        for j in bad[:5]:
            cfg_name, nconns, evs, _warm = progs[idx[j]]
            d = describe(cfg_name, nconns, evs)
            d['transcript'] = [(c, b.decode('latin-1'), repr(r))
                               for c, b, _u, r in results[idx[j]]['transcript']]
            from .. import coqrun
            d['model_at_first_difference'] = coqrun.eval_term(
                ctx.prop, f'diag_{j}', HEADER + pool_header(), f'diag_prog {cases[j]}')[-1500:]
            ctx.disagreement('sieve_prog', d)
    return finish


M_ALPHABET = [
    ('AUTH', lambda k: gen_auth(None, k, 'u1', 'plain', M_USERS)),
    ('AUTH2', lambda k: gen_auth(None, k, 'u2', 'plain', M_USERS)),
    ('PUT0q', lambda k: _fixed(k, 'PUT', (b'active', b''), b'PUTSCRIPT "active" ""\r\n')),
    ('PUT0l', lambda k: _fixed(k, 'PUT', (b'active', b''), b'PUTSCRIPT "active" {0+}\r\n\r\n')),
    ('PUT1', lambda k: _fixed(k, 'PUT', (b'active', b'x'), b'PUTSCRIPT "active" "x"\r\n')),
    ('PUTk', lambda k: _fixed(k, 'PUT', (b'active', b'keep;'), b'PUTSCRIPT {6+}\r\nactive {5+}\r\nkeep;\r\n')),
    ('PUTfoo', lambda k: _fixed(k, 'PUT', (b'foo', b'keep;'), b'PUTSCRIPT "foo" "keep;"\r\n')),
    ('GET', lambda k: _fixed(k, 'GET', (b'active',), b'GETSCRIPT "active"\r\n')),
    ('GETfoo', lambda k: _fixed(k, 'GET', (b'foo',), b'GETSCRIPT "foo"\r\n')),
    ('LIST', lambda k: _fixed(k, 'LIST', (), b'LISTSCRIPTS\r\n')),
    ('ACT', lambda k: _fixed(k, 'SETACTIVE', (b'active',), b'SETACTIVE "active"\r\n')),
    ('ACT0', lambda k: _fixed(k, 'SETACTIVE', (b'',), b'SETACTIVE ""\r\n')),
    ('DEL', lambda k: _fixed(k, 'DELETE', (b'active',), b'DELETESCRIPT "active"\r\n')),
    ('DELfoo', lambda k: _fixed(k, 'DELETE', (b'foo',), b'DELETESCRIPT "foo"\r\n')),
    ('REN', lambda k: _fixed(k, 'RENAME', (b'active', b'foo'), b'RENAMESCRIPT "active" "foo"\r\n')),
    ('UNAUTH', lambda k: _fixed(k, 'UNAUTH', (), b'UNAUTHENTICATE\r\n')),
    ('HAVE', lambda k: _fixed(k, 'HAVESPACE', (b'active', 0), b'HAVESPACE "active" 0\r\n')),
    ('CHECK0', lambda k: _fixed(k, 'CHECK', (b'',), b'CHECKSCRIPT ""\r\n')),
]


def section_maildir(ctx):
    """The maildir backend's one-script store behind the same listener:
    programs (exhaustive short + random, boundary scripts: empty, 1 byte) against
    the model [mstate_run], and the monitor in its one-script mode."""
    rng = _rng(ctx, 'maildir')
    amk = dict(M_ALPHABET)
    for _nm, mk in M_ALPHABET:
        pool_add(mk(0)['buf'], force=True)
    if ctx.quick:
        on0 = ('AUTH', 'PUT1', 'GET', 'LIST')
        on1 = ('PUT0q', 'PUT0l', 'PUT1', 'PUTk', 'PUTfoo', 'GET', 'LIST', 'ACT0', 'DEL', 'REN',
               'UNAUTH', 'AUTH2')
    else:
        on0 = ('AUTH', 'AUTH2', 'PUT1', 'GET', 'LIST', 'DEL')
        on1 = tuple(nm for nm, _ in M_ALPHABET if nm != 'AUTH')
    letters = [(k, nm, mk) for k, use in ((0, on0), (1, on1)) for nm, mk in M_ALPHABET if nm in use]
    login = [gen_auth(None, 1, 'u1', 'plain', M_USERS)]
    starts = [login, login + [amk['PUTk'](1)]]      # no script / a script stored
    progs = []
    for si, pre in enumerate(starts):
        for n in ((1, 2) if si == 0 or not ctx.quick else (1,)):
            for t in itertools.product(letters, repeat=n):
                progs.append((2, pre + [mk(k) for k, _nm, mk in t]))
    n_exh = len(progs)
    for _ in range(ctx.scale(100, 2500)):       # length 3
        t = [rng.choice(letters) for _ in range(3)]
        progs.append((2, rng.choice(starts) + [mk(k) for k, _nm, mk in t]))
    # a connection changes hands
    for ua, ub in (('u1', 'u2'), ('u2', 'u1')):
        for _nm, mk in M_ALPHABET:
            progs.append((2, [gen_auth(None, 0, ua, 'plain', M_USERS), amk['PUT1'](0), amk['UNAUTH'](0),
                              gen_auth(None, 0, ub, 'login', M_USERS), mk(0), amk['LIST'](0),
                              amk['GET'](0)]))
    for _ in range(ctx.scale(80, 1000)):
        nconns = rng.choice([2, 3])
        progs.append((nconns, gen_program(rng, nconns, rng.randint(6, 18), 'default', 'maildir')))
    ctx.extra['maildir_sequences'] = {'alphabet': len(letters), 'max_len': 2, 'exhaustive': n_exh,
                                      'programs': len(progs)}

    async def run_all():
        out = []
        for nconns, evs in progs:
            try:
                out.append(await run_program('default', nconns, evs, backend='maildir'))
            except Exception as exc:
                out.append(dict(error=repr(exc)))
        return out
    results = asyncio.run(run_all())
    cases, idx = [], []
    for i, ((nconns, evs), res) in enumerate(zip(progs, results)):
        if 'error' in res:
            ctx.failure('harness', f'maildir program could not be run: {res["error"]}',
                        describe('default', nconns, evs, 'maildir'), {'kind': 'harness_error'})
            continue
        for clause, what, obs in res['failures'][:3]:
            ctx.failure(clause, what, describe('default', nconns, evs, 'maildir'), obs)
        ctx.count(('mprog', nconns, tuple(e['buf'] for e in evs)))
        cases.append(res['term'])
        idx.append(i)
    ctx.sample({'maildir_program': [(c, b.decode('latin-1'), repr(r)) for c, b, _u, r in
                                    results[0].get('transcript', [])[:8]]})
    def finish():      # the Coq part, run while the next batch of programs executes
        hdr = HEADER + pool_header()
        bad = ctx.run_cases('sieve_prog_maildir', hdr, 'mprog_case', cases, 'chk_mprog', shard=400)
        for j in bad[:5]:
            nconns, evs = progs[idx[j]]
            d = describe('default', nconns, evs, 'maildir')
            d['transcript'] = [(c, b.decode('latin-1'), repr(r))
                               for c, b, _u, r in results[idx[j]]['transcript']]
            from .. import coqrun
            d['model_at_first_difference'] = coqrun.eval_term(
                ctx.prop, f'mdiag_{j}', hdr, f'diag_mprog {cases[j]}')[-1500:]
            ctx.disagreement('sieve_prog_maildir', d)
    return finish


def section_worlds(ctx) -> None:
    """Both backends' programs.  The servers of the two backends are never run
    from different threads at the same time (doing so crashed CPython 3.12.1 with
    a segmentation fault inside IMAPConfig construction); only the Coq evaluation
    of one batch overlaps the execution of the next."""
    from concurrent.futures import ThreadPoolExecutor
    only = [x for x in os.environ.get('VERIF_C19_SECTIONS', '').split(',') if x]
    with ThreadPoolExecutor(max_workers=1) as ex:
        fut = None
        if not only or 'programs' in only:
            fut = ex.submit(section_programs(ctx))
        fin = section_maildir(ctx) if not only or 'maildir' in only else None
        if fut is not None:
            fut.result()
        if fin is not None:
            fin()


def run(ctx) -> None:
    from .. import coqrun
    from ..translate_filterset import regenerate
    logging.disable(logging.CRITICAL)       # the server logs the exceptions it turns into "Server error."
    ctx.rule = ('command buffers: every byte value at every position of base commands, all short '
                'UTF-8-boundary names, size boundaries, generated commands (30% mutated); '
                'FilterSet: all call sequences up to a small length over 12 calls + random; '
                'programs: all sequences up to a small length over a 13-command alphabet on two '
                'connections + random programs (2-4 connections, 3 users, 4 configurations, names '
                'and scripts spelled quoted / {n+} literal / malformed); non-trivial = parsed, resp. '
                'every case; distinct = by input')
    ctx.assumptions += [
        'the SASL exchange (pysasl PLAIN/LOGIN, password hashing) is an oracle: the model is told '
        'which user an AUTHENTICATE exchange yields (the harness computes it from its user table)',
        'the Sieve compiler (sievelib) is an oracle for CHECKSCRIPT, measured on pymap.sieve.SieveCompiler',
        'one send = one command buffer (framing by _read_data is mirrored by harness.framed, not modelled)',
        'script names are modelled by their UTF-8 bytes (valid UTF-8 only passes the parser)',
        'CPython dict/str/bytes semantics for the implementation side',
    ]
    ok, msg = regenerate(REPO, coqrun.COQ)
    ctx.extra['translator'] = msg
    if not ok:
        ctx.broken.append(msg)
    ctx.check_proofs(['Sieve/SieveCheck', 'Sieve/FilterSetAgree', 'Sieve/SieveExamples'])
    # the three correspondences are independent; most of their time is spent in coqc
    # subprocesses, so they run side by side
    import traceback
    from concurrent.futures import ThreadPoolExecutor
    import os
    # import everything the sections use before the threads start (concurrent first
    # imports of pymap / pysasl modules race)
    async def _warm():
        w = await World('default').start(1)
        await w.close()
        w = await MWorld('default').start(1)
        await w.close()
    asyncio.run(_warm())
    impl_parse(b'NOOP\r\n')
    compiles(b'keep;')
    from pymap.backend.dict.filter import FilterSet  # noqa: F401
    only = [x for x in os.environ.get('VERIF_C19_SECTIONS', '').split(',') if x]   # debugging aid
    sections = [f for f in (section_worlds, section_parse, section_filterset)
                if not only or f.__name__[len('section_'):] in only
                or (f is section_worlds and ('programs' in only or 'maildir' in only))]
    with ThreadPoolExecutor(max_workers=4) as ex:
        futs = [(f.__name__, ex.submit(f, ctx)) for f in sections]
        for name, fut in futs:
            try:
                fut.result()
            except BaseException:
                ctx.broken.append(f'{name} crashed: ' + traceback.format_exc()[-1500:])
    ctx.exhaustive = False


def replay(ctx, obj) -> int:
    logging.disable(logging.CRITICAL)
    if 'events' not in obj:
        print('nothing to replay in', obj.get('no_longer_checks'))
        return 0
    cfg_name, nconns, evs = undescribe(obj)
    res = asyncio.run(run_program(cfg_name, nconns, evs, backend=obj.get('backend', 'dict')))
    for c, buf, used, rs in res['transcript']:
        print(f'conn {c}: {buf!r} {used or ""} -> {rs}')
    for f in res['failures']:
        print('MONITOR:', f)
    return 1 if res['failures'] else 0
