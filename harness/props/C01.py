"""C01 — sequence numbers: the client view never diverges from the server.

Proofs: coq/theories/Props/C01.v (pure core compare_sync + system invariant
over all multi-session traces of the Store model).
Correspondence: seeded multi-session traces on the real dict backend and on the
real maildir backend, every step compared with Store/System.step inside Coq
(responses + glass-box views, mailboxes, modification log / maildir files, the
shadow clients' flags); all schedules of 2 sessions x 3 commands (dict).
Monitors: shadow IMAP client per connection (harness/store_monitor.py).
"""
from __future__ import annotations

import random

from .. import store_check as SC
from .. import store_env as SE

# regression witnesses (label lists) of defects found by this check; they are
# replayed on every run with the monitors attached
WITNESSES = {
    # C01-F1: FETCH update for UID 103 merged into the UID FETCH result for
    # sequence number 2 (UID 102) that precedes `* 1 EXPUNGE`
    'merge_across_expunge': (2, [
        ('cmd', 1, ('select', 1, False)),
        ('cmd', 1, ('fetch', [(1, '*')], False, True, False)),
        ('cmd', 2, ('select', 1, False)),
        ('cmd', 2, ('store', [1], False, 'add', [2], False)),
        ('cmd', 2, ('expunge', None)),
        ('cmd', 2, ('store', [2], False, 'add', [3], False)),
        ('cmd', 1, ('fetch', [(1, '*')], True, False, False)),
    ]),
    # seeded/C01-4 (no defect on the current tree): after a hidden expunge (session 1 learns
    # during a non-UID FETCH that session 2 expunged its first message) COPY/MOVE by sequence
    # number must act on the messages the client holds under those numbers
    'copy_after_hidden_expunge': (2, [
        ('cmd', 1, ('select', 1, False)),
        ('cmd', 1, ('fetch', [(1, '*')], False, True, False)),
        ('cmd', 2, ('select', 1, False)),
        ('cmd', 2, ('store', [1], False, 'add', [2], True)),
        ('cmd', 2, ('expunge', None)),
        ('cmd', 1, ('fetch', [(1, '*')], False, False, False)),
        ('cmd', 1, ('copy', [2], False, 2, None)),
        ('cmd', 1, ('noop',)),
    ]),
    'move_after_hidden_expunge': (2, [
        ('cmd', 1, ('select', 1, False)),
        ('cmd', 1, ('fetch', [(1, '*')], False, True, False)),
        ('cmd', 2, ('select', 1, False)),
        ('cmd', 2, ('store', [2], False, 'add', [2], True)),
        ('cmd', 2, ('expunge', None)),
        ('cmd', 1, ('search', False, None, [])),
        ('cmd', 1, ('move', [(3, '*')], False, 2, None)),
        ('cmd', 1, ('noop',)),
    ]),
}


# replayed on the maildir backend only
MAILDIR_WITNESSES = {
    # seeded/C02-3 (no defect on the current tree): a file delivered by an MDA (no info part in
    # its name, never flagged) must survive the housekeeping of CHECK with its UID
    'external_delivery_then_check': (2, [
        ('cmd', 1, ('select', 1, False)),
        ('cmd', 1, ('fetch', [(1, '*')], False, True, False)),
        ('cmd', 2, ('select', 1, False)),
        ('cmd', 2, ('fetch', [(1, '*')], False, True, False)),
        ('deliver', 1, [], True, 900),
        ('cmd', 1, ('noop',)),
        ('deliver', 1, [], False, 901),
        ('cmd', 2, ('check',)),
        ('cmd', 1, ('check',)),
        ('cmd', 2, ('fetch', [(1, '*')], False, True, False)),
    ]),
    # seeded/C02-7 (no defect on the current tree): the selected folder becomes completely
    # empty (every message expunged or moved away by the other connection); the rescan of
    # update_selected must report the last removals too
    'folder_becomes_empty': (2, [
        ('cmd', 1, ('select', 1, False)),
        ('cmd', 1, ('fetch', [(1, '*')], False, True, False)),
        ('cmd', 2, ('select', 1, False)),
        ('cmd', 2, ('fetch', [(1, '*')], False, True, False)),
        ('cmd', 2, ('move', [1], False, 2, None)),
        ('cmd', 1, ('noop',)),
        ('cmd', 2, ('store', [(1, '*')], False, 'add', [2], True)),
        ('cmd', 2, ('expunge', None)),
        ('cmd', 1, ('noop',)),
        ('cmd', 1, ('check',)),
        ('cmd', 2, ('noop',)),
        ('cmd', 1, ('fetch', [(1, '*')], False, True, False)),
    ]),
    # seeded/C01-6 (no defect on the current tree): a message that is not the last one is
    # moved to another folder and later moved back, with no housekeeping of the first folder
    # in between: it must come back under a new UID at the end, the expunged UID stays dead
    'moved_away_and_back': (2, [
        ('cmd', 1, ('select', 1, False)),
        ('cmd', 1, ('fetch', [(1, '*')], False, True, False)),
        ('cmd', 2, ('select', 1, False)),
        ('cmd', 2, ('move', [1], False, 2, None)),
        ('cmd', 1, ('noop',)),
        ('cmd', 2, ('select', 2, False)),
        ('cmd', 2, ('fetch', [(1, '*')], False, True, False)),
        ('cmd', 2, ('move', ['*'], False, 1, None)),
        ('cmd', 1, ('noop',)),
        ('cmd', 1, ('fetch', [(1, '*')], False, True, False)),
        ('cmd', 2, ('select', 1, False)),
        ('cmd', 2, ('fetch', [(1, '*')], False, True, False)),
        ('cmd', 2, ('move', [2], False, 2, None)),
        ('cmd', 2, ('select', 2, False)),
        ('cmd', 2, ('move', [(1, '*')], False, 1, None)),
        ('cmd', 1, ('noop',)),
        ('cmd', 1, ('fetch', [(1, '*')], False, True, False)),
    ]),
}


def _profile(rng):
    nsess = rng.randint(2, 4)
    r = rng.random()
    boxes = (1,) if r < 0.7 else (1, 2)
    ro = (3,) if rng.random() < 0.25 else ()
    return dict(nsess=nsess, nsteps=rng.randint(8, 25), boxes=boxes, readonly_sessions=ro,
                checkpoint_every=rng.choice([0, 5, 8]), group=rng.choice([0.0, 0.1, 0.15]))


def section_random(ctx, clauses) -> None:
    n = ctx.scale(120, 600)
    traces = []
    hist: dict = {}
    for i in range(n):
        rng = random.Random(f'{ctx.prop}-{ctx.seed}-rand-{i}')
        prof = _profile(rng)
        trace, mon = SC.run_sync(SC.monitored_random_trace(rng, **prof))
        SC.report_trace(ctx, 'random', trace, mon, clauses,
                        {'nsess': prof['nsess'], 'trace': i})
        traces.append(trace)
        for lab, resp, _ in trace.steps:
            kind = lab[2][0] if lab[0] == 'cmd' else lab[0]
            hist[kind] = hist.get(kind, 0) + 1
            ctx.count((kind, repr(lab), repr(resp)),
                      nontrivial=any(r[0] in ('expunge', 'exists', 'fetch') for r in resp))
        if i < 2:
            ctx.sample({'labels': SC.labels_repr(trace.labels())[:1500]})
    ctx.extra.setdefault('label_histogram', {}).update({'random': hist})
    return SC.CaseEval(ctx, 'store_random_traces', traces)


def section_exhaustive(ctx, clauses):
    """All interleavings (20) of two sessions with three commands each; in the
    thorough tier over ALL program pairs of the 3-command alphabet `core3`."""
    traces = []
    evals = []
    total = 0
    info = {}
    for name, alphabet in SC.ALPHABETS.items():
        progs = list(SC.exhaustive_programs(alphabet, 3))
        rng = random.Random(f'{ctx.prop}-{ctx.seed}-exh-{name}')
        if ctx.quick:
            progs = rng.sample(progs, 4)
        elif name not in SC.EXHAUSTIVE_ALPHABETS:
            progs = rng.sample(progs, 60)
        info[name] = {'program_pairs': len(progs), 'all_pairs': not ctx.quick and
                      name in SC.EXHAUSTIVE_ALPHABETS, 'schedules_each': 20,
                      'commands': [repr(c) for c in alphabet]}
        for p1, p2 in progs:
            for sched in SC.schedules(3, 3):
                labels = [('cmd', 1, ('select', 1, False)),
                          ('cmd', 1, ('fetch', [(1, '*')], False, True, False)),
                          ('cmd', 2, ('select', 1, False)),
                          ('cmd', 2, ('fetch', [(1, '*')], False, True, False))] \
                    + SC.interleave(p1, p2, sched)
                trace, mon = SC.run_sync(SC.monitored_fixed_trace(labels, nsess=2))
                SC.report_trace(ctx, 'exhaustive:' + name, trace, mon, clauses, {'nsess': 2})
                traces.append(SC.Packed(trace, light=True))
                total += 1
                ctx.count(('sched', name, repr(labels)))
                if len(traces) >= 2400:
                    # evaluate this batch inside Coq while the next one runs on the server
                    evals.append(SC.CaseEval(ctx, f'store_all_schedules_{len(evals)}', traces,
                                             shard=60, jobs=7, light=True))
                    traces = []
    ctx.extra['exhaustive_schedules'] = {'traces': total, 'alphabets': info}
    ctx.exhaustive = False
    evals.append(SC.CaseEval(ctx, f'store_all_schedules_{len(evals)}', traces, shard=60, jobs=7,
                             light=True))
    return evals


def section_maildir(ctx, clauses, witnesses=None):
    """The maildir backend (mailboxes with mb_md = true in the model): seeded
    multi-session traces under the same monitors (shadow clients, probe) and the
    same per-step comparison with System.step inside Coq (responses, every
    connection's SynchronizedMessages, the mailbox as the files say); the
    regression witnesses are replayed on it as well.  IDLE is left out: the
    maildir backend polls once a second."""
    from .. import store_maildir as SM
    n = ctx.scale(16, 250)
    steps = compared = 0
    traces = []

    def book(trace, mon, nsess, tag):
        nonlocal steps, compared
        steps += len(trace.steps)
        compared += mon.n_compared
        labels = trace.labels()
        for f in mon.failures:
            if f['clause'] in clauses:
                ctx.failure(f['clause'], '[maildir] ' + f['what'],
                            {'backend': 'maildir', 'labels': SC.labels_repr(labels[:f['step'] + 1]),
                             'nsess': nsess, 'session': f['session'], 'step': f['step'],
                             'generator': tag},
                            {**f['obs'], 'backend': 'maildir'})
        for p in trace.problems:
            ctx.disagreement('maildir:' + p['kind'], {**p, 'labels': SC.labels_repr(labels)[:1500]})
        for lab, resp, _ in trace.steps:
            ctx.count(('maildir', repr(lab), repr(resp)),
                      nontrivial=any(r[0] in ('expunge', 'exists', 'fetch') for r in resp))
        traces.append(trace)

    for i in range(n):
        rng = random.Random(f'{ctx.prop}-{ctx.seed}-maildir-{i}')
        nsess = rng.randint(2, 3)
        trace, mon, run = SC.run_sync(SM.monitored_maildir_trace(
            rng, nsess=nsess, nsteps=rng.randint(8, 20), layout=rng.choice(['++', 'fs']),
            group=rng.choice([0.0, 0.15]), flipflop=rng.choice([0.0, 0.4])))
        book(trace, mon, nsess, 'maildir-random')
    nwit = 0
    for name, (nsess, labels) in {**(witnesses or {}), **MAILDIR_WITNESSES}.items():
        if any(l[0] not in ('cmd', 'deliver') or (l[0] == 'cmd' and l[2][0] == 'idle')
               or (l[0] == 'deliver' and l[2]) for l in labels):
            continue
        trace, mon = SC.run_sync(SM.monitored_maildir_fixed(labels, nsess=nsess))
        book(trace, mon, nsess, 'maildir-witness:' + name)
        nwit += 1
    evals = [SC.CaseEval(ctx, 'store_maildir_traces', traces)]
    # every interleaving (20 schedules) of 2 sessions x 3 commands of the uid-free alphabet
    # `core3` on maildir, for sampled program pairs
    traces = []
    progs = list(SC.exhaustive_programs(SC.ALPHABETS['core3'], 3))
    rng = random.Random(f'{ctx.prop}-{ctx.seed}-maildir-exh')
    progs = rng.sample(progs, ctx.scale(2, 60))
    for p1, p2 in progs:
        for sched in SC.schedules(3, 3):
            labels = [('cmd', 1, ('select', 1, False)),
                      ('cmd', 1, ('fetch', [(1, '*')], False, True, False)),
                      ('cmd', 2, ('select', 1, False)),
                      ('cmd', 2, ('fetch', [(1, '*')], False, True, False))] \
                + SC.interleave(p1, p2, sched)
            trace, mon = SC.run_sync(SM.monitored_maildir_fixed(labels, nsess=2))
            book(trace, mon, 2, 'maildir-exhaustive:core3')
            traces[-1] = SC.Packed(trace, light=True)
    ctx.extra['maildir'] = {'traces': n, 'witnesses_replayed': nwit,
                            'schedule_traces': len(traces), 'program_pairs': len(progs),
                            'steps': steps, 'views_compared_with_probe': compared}
    evals.append(SC.CaseEval(ctx, 'store_maildir_schedules', traces, shard=60, jobs=7, light=True))
    return evals


def section_windows(ctx, clauses) -> None:
    """Instrumented await points (harness/store_windows.py): session 1's SELECT, EXAMINE,
    NOOP, CHECK, FETCH or STORE is held right after `get_mailbox`, after `snapshot`, before
    or after `update_selected` while session 2 appends / expunges / flags / moves; monitors
    only (these interleavings are outside the atomic-step model: the asyncio dict backend
    never suspends there, the maildir thread pool and redis do)."""
    from .. import store_windows as W
    n = reached = 0
    W.install()
    try:
        for a in W.A_COMMANDS:
            for point in W.POINTS:
                if point[0] == 'snapshot' and a not in ('select', 'examine'):
                    continue
                for b in W.B_COMMANDS:
                    for pre in ((True, False) if a in ('select', 'examine') else (True,)):
                        trace, mon, hit = SC.run_sync(W.select_window_trace(a, point, b, preselected=pre))
                        n += 1
                        reached += bool(hit)
                        labels = trace.labels()
                        for f in mon.failures:
                            if f['clause'] in clauses:
                                ctx.failure(f['clause'], '[window] ' + f['what'],
                                            {'window': [a, list(point), b, pre],
                                             'labels': SC.labels_repr(labels[:f['step'] + 1]),
                                             'session': f['session'], 'step': f['step'],
                                             'generator': 'await-window'},
                                            {**f['obs'], 'window': f'{a} held {point[1]} {point[0]}, '
                                                                   f'other session: {b}'})
                        for p in trace.problems:
                            if p['kind'] != 'atomicity':
                                ctx.disagreement('window:' + p['kind'],
                                                 {**p, 'window': [a, list(point), b, pre]})
                        for lab, resp, _ in trace.steps:
                            ctx.count(('window', a, point, b, pre, repr(lab), repr(resp)),
                                      nontrivial=any(r[0] in ('expunge', 'exists', 'fetch') for r in resp))
    finally:
        W.uninstall()
    ctx.extra['await_windows'] = {'traces': n, 'window_reached': reached,
                                  'commands': sorted(W.A_COMMANDS), 'points': [list(p) for p in W.POINTS],
                                  'other_session': sorted(W.B_COMMANDS)}
    if reached < n:
        ctx.broken.append(f'await windows: {n - reached} of {n} windows were not reached')


def section_witnesses(ctx, clauses, witnesses) -> None:
    traces = []
    for name, (nsess, labels) in witnesses.items():
        trace, mon = SC.run_sync(SC.monitored_fixed_trace(labels, nsess=nsess))
        SC.report_trace(ctx, 'witness:' + name, trace, mon, clauses, {'nsess': nsess})
        traces.append(trace)
        ctx.count(('witness', name))
    return SC.CaseEval(ctx, 'store_witnesses', traces)


LEARN = ('fetch', [(1, '*')], False, True, False)

# namespace witnesses (harness/store_ns.py; names: 1 INBOX, 2 Sent, 3 Trash (read-only), 4 Box4,
# 5 Box5): label lists replayed on every run with the namespace monitors and compared with
# Store/SystemNs.nstep step by step
NS_WITNESSES = {
    # fixed by 5efe902: STORE .SILENT refused with NO [NONEXISTENT] (mailbox renamed away) left
    # its silenced flags on the selection; after the mailbox was renamed back the next NOOP
    # swallowed session 2's \\Flagged (found by the converge_flags monitor of this family)
    'silenced_flags_survive_refused_store': (2, [
        ('cmd', 1, ('select', 2, False)), ('cmd', 1, LEARN),
        ('rename', 2, 2, 4),
        ('cmd', 1, ('store', [1], False, 'add', [4], True)),
        ('rename', 2, 4, 2),
        ('cmd', 2, ('select', 2, False)),
        ('cmd', 2, ('store', [1], False, 'add', [4], False)),
    ]),
    # DELETE + CREATE of the same name: the selection must not be attached to the new mailbox
    'recreated_mailbox_is_not_the_selected_one': (2, [
        ('cmd', 1, ('select', 2, False)), ('cmd', 1, LEARN),
        ('delete', 2, 2), ('create', 2, 2),
        ('cmd', 2, ('append', 2, [([5], 50)], None)),
        ('cmd', 1, ('noop',)), ('cmd', 1, ('fetch', [(1, '*')], False, False, False)),
        ('cmd', 1, ('store', [1], False, 'add', [2], False)),
        ('cmd', 1, ('expunge', None)), ('cmd', 1, ('copy', [1], False, 1, None)),
        ('cmd', 1, ('check',)), ('cmd', 1, ('touch',)),
    ]),
    # RENAME INBOX moves the messages and leaves a fresh INBOX: three selections of INBOX
    'rename_inbox_under_selections': (3, [
        ('cmd', 1, ('select', 1, False)), ('cmd', 1, LEARN),
        ('cmd', 2, ('select', 1, True)), ('cmd', 2, LEARN),
        ('cmd', 3, ('select', 1, False)),
        ('rename', 3, 1, 4),
        ('cmd', 3, ('noop',)),
        ('cmd', 1, ('append', 1, [([], 51)], None)),
        ('cmd', 2, ('idle',)), ('done', 2),
        ('cmd', 2, ('search', False, None, [])),
        ('cmd', 2, ('close',)),
        ('cmd', 2, ('select', 1, False)), ('cmd', 2, LEARN),
        ('cmd', 3, ('close',)), ('cmd', 3, ('select', 4, False)), ('cmd', 3, LEARN),
    ]),
    # renamed away and back: NO in between, then the selection is live again
    'rename_back_resumes': (2, [
        ('cmd', 1, ('select', 2, False)), ('cmd', 1, LEARN),
        ('rename', 2, 2, 5),
        ('cmd', 1, ('noop',)),
        ('cmd', 2, ('append', 5, [([4], 52)], None)),
        ('rename', 2, 5, 2),
        ('cmd', 1, ('noop',)),
    ]),
    'delete_by_the_selecting_connection': (2, [
        ('cmd', 1, ('select', 2, False)), ('cmd', 2, ('select', 2, True)),
        ('delete', 1, 2),
        ('cmd', 2, ('touch',)),
    ]),
    # the path of the open finding C10-F4, as the code has it (and the model): APPEND into the
    # renamed object still synchronises the stale selection through the mailbox id
    'append_through_renamed_object': (2, [
        ('cmd', 1, ('select', 1, True)), ('cmd', 1, LEARN),
        ('cmd', 2, ('select', 1, False)),
        ('rename', 1, 1, 5),
        ('cmd', 1, ('append', 5, [([5], 53)], None)),
        ('cmd', 2, ('append', 5, [([], 54)], None)),
        ('cmd', 1, ('noop',)),
        ('create', 2, 4), ('rename', 1, 4, 1), ('delete', 1, 1), ('create', 1, 5),
    ]),
}

NS_WEIGHTS = {'append': 9, 'store': 12, 'expunge': 8, 'uidexpunge': 3, 'copy': 5, 'move': 6,
              'fetch': 10, 'search': 5, 'noop': 8, 'check': 3, 'touch': 4, 'close': 2,
              'idle': 3, 'select': 7, 'deliver': 2}


def section_namespace(ctx, clauses):
    """CREATE / DELETE / RENAME by any connection on any mailbox mixed into the multi-session
    traces (dict backend): namespace monitors + per-step comparison with Store/SystemNs.nstep."""
    from .. import store_ns as NS
    traces = []
    hist: dict = {}
    stats = {'bye': 0, 'commands_on_stale_selection': 0, 'checkpoints': 0, 'views_compared_with_probe': 0}

    def book(name, trace, mon, meta):
        NS.report(ctx, name, trace, mon, clauses, meta)
        traces.append(trace)
        stats['bye'] += mon.n_bye
        stats['commands_on_stale_selection'] += mon.n_stale_cmds
        stats['checkpoints'] += mon.n_checkpoints
        stats['views_compared_with_probe'] += mon.n_compared
        for lab, resp, _ in trace.steps:
            kind = lab[2][0] if lab[0] == 'cmd' else lab[0]
            hist[kind] = hist.get(kind, 0) + 1
            ctx.count(('ns', kind, repr(lab), repr(resp)),
                      nontrivial=any(r[0] in ('expunge', 'exists', 'fetch', 'bye') for r in resp)
                      or lab[0] in NS.NS_KINDS)
    for name, (nsess, labels) in NS_WITNESSES.items():
        trace, mon = SC.run_sync(NS.ns_fixed_trace(labels, nsess=nsess))
        book('ns-witness:' + name, trace, mon, {'nsess': nsess})
    for i in range(ctx.scale(40, 320)):
        rng = random.Random(f'{ctx.prop}-{ctx.seed}-ns-{i}')
        nsess = rng.randint(2, 4)
        trace, mon = SC.run_sync(NS.ns_random_trace(
            rng, nsess=nsess, nsteps=rng.randint(10, 28), idle=rng.random() < 0.5,
            weights=NS_WEIGHTS, checkpoint_every=rng.choice([3, 4, 6]),
            p_ns=rng.choice([0.15, 0.25, 0.35]),
            readonly_sessions=(2,) if rng.random() < 0.3 else ()))
        book('ns-random', trace, mon, {'nsess': nsess, 'trace': i})
        if i < 1:
            ctx.sample({'ns_labels': repr(trace.labels())[:1500]})
    ctx.extra['namespace'] = {'label_histogram': hist, **stats}
    return NS.NsEval(ctx, 'store_namespace_traces', traces)


RULE = ('a case is one multi-session trace: 2-4 connections on the dict backend, 8-25 commands drawn '
        'state-aware from APPEND/STORE(+,-,replace,.SILENT)/EXPUNGE/UID EXPUNGE/COPY/MOVE/FETCH/SEARCH/'
        'NOOP/CHECK/IDLE..DONE/SELECT/EXAMINE with sequence sets biased to `*`, the last message, one '
        'past the end and messages another connection has expunged; plus every interleaving of 2 '
        'connections x 3 commands over two 4-command alphabets; plus the same kind of traces on the '
        'maildir backend (2-3 connections, 8-20 commands, no IDLE; all schedules of sampled program '
        'pairs of the 3-command alphabet); evaluations count steps, non-trivial = '
        'the step produced EXPUNGE/EXISTS/FETCH data, distinct by (label, responses)')
ASSUMPTIONS = [
    'dict backend under asyncio: a command body runs without suspending (measured on every command '
    'of every trace; CHECK suspends once, before it reads or writes anything)',
    'the model and the theorems cover the dict backend and the maildir backend (full rescan on '
    'every update_selected; in-process, asyncio subsystem, IDLE and its 1 s poll left out, '
    'reduced volume); redis not at all',
    'session flags other than \\Recent are not defined by the dict backend (measured: '
    'SessionFlags._flags stays empty)',
    'await points inside a command (get_mailbox, snapshot, update_selected, append) that the asyncio '
    'dict backend never suspends at are explored by an instrumented family (one held command, another '
    'session running whole commands inside the window) under the monitors only; the theorems assume '
    'atomic commands',
]


def run(ctx) -> None:
    ctx.rule = RULE
    ctx.assumptions += ASSUMPTIONS
    ctx.check_proofs(['Store/StoreCheck', 'Store/NsCheck'])
    clauses = SC.C01_CLAUSES
    from .. import store_ns as NS
    evals = [section_namespace(ctx, NS.C01_NS_CLAUSES)]
    evals += [section_witnesses(ctx, clauses, WITNESSES), section_random(ctx, clauses)]
    evals += section_exhaustive(ctx, clauses)
    evals += section_maildir(ctx, clauses, WITNESSES)
    section_windows(ctx, clauses)
    for ev in evals:
        ev.finish()


def replay(ctx, obj) -> int:
    if obj.get('ns_labels'):
        from .. import store_ns as NS
        labels = SC.labels_parse(obj['ns_labels'])
        nsess = obj.get('nsess') or max([l[1] for l in labels if l[0] != 'deliver'] + [1])
        trace, mon = SC.run_sync(NS.ns_fixed_trace(labels, nsess=nsess))
        for j, (lab, resp, _o) in enumerate(trace.steps):
            print(j, lab, '\n     ', resp)
        bad = [f for f in mon.failures if f['clause'] == obj.get('clause', f['clause'])]
        for f in mon.failures:
            print('FAILURE', f['clause'], f['what'])
        return 1 if bad else 0
    labels = SC.labels_parse(obj['labels'])
    nsess = obj.get('nsess') or max([l[1] for l in labels if l[0] in ('cmd', 'wake', 'done')] + [1])
    if obj.get('window'):
        from .. import store_windows as W
        a, point, b, pre = obj['window']
        W.install()
        try:
            trace, mon, _hit = SC.run_sync(W.select_window_trace(a, tuple(point), b, preselected=pre))
        finally:
            W.uninstall()
    elif obj.get('failed_append'):
        from .. import store_windows as W
        n, k, cmds, asel = obj['failed_append']
        W.install()
        try:
            trace, mon, _hit = SC.run_sync(W.failed_append_trace(
                n, k, SC.labels_parse(cmds), appender_selected=asel))
        finally:
            W.uninstall()
    elif obj.get('backend') == 'maildir':
        from .. import store_maildir as SM
        trace, mon = SC.run_sync(SM.monitored_maildir_fixed(labels, nsess=nsess))
    else:
        trace, mon = SC.run_sync(SC.monitored_fixed_trace(labels, nsess=nsess))
    for j, (lab, resp, _o) in enumerate(trace.steps):
        print(j, lab, '\n     ', resp)
    for f in mon.failures:
        print('FAILURE', f['clause'], '-', f['what'])
    return 1 if mon.failures else 0
