"""C17 — \\Recent is announced to exactly one session and never stored.

Model coq/theories/UidRecent/Model.v, theorems coq/theories/Props/C17.v;
correspondence and monitors in harness/uidrecent.py (shared with C04): every
answer of every history is compared, including RECENT counts and the
\\Recent column of every dump; the nondeterministic any_selected choice is
resolved by search (the observations must be explained by some choice the
model allows).
Monitors: recent_twice, recent_readonly, recent_count, first_select,
store_recent.
"""
from .. import uidrecent


def run(ctx) -> None:
    uidrecent.run_check(ctx, 'C17')


def replay(ctx, obj) -> int:
    return uidrecent.replay_history(ctx, obj)
