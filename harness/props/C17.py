"""C17 — \\Recent is announced to exactly one session and never stored.

Model coq/theories/UidRecent/Model.v, theorems coq/theories/Props/C17.v;
correspondence and monitors in harness/uidrecent.py (shared with C04): every
answer of every history is compared, including RECENT counts and the
\\Recent column of every dump; the nondeterministic any_selected choice is
resolved by search (the observations must be explained by some choice the
model allows).
Monitors: recent_twice, recent_readonly, recent_count, first_select,
store_recent.
Round 5: histories in which connections end in every way (harness/c17_ends.py,
coq/theories/UidRecent/Drop*.v): LOGOUT, EOF, reset, over-long line, read
error, cancellation, EOF inside a literal, BAD limit, exception in a command
body, failing write - with and without a selection, deliveries before/after.
"""
from .. import c17_ends, uidrecent


def run(ctx) -> None:
    uidrecent.run_check(ctx, 'C17')
    c17_ends.run_ends(ctx)


def replay(ctx, obj) -> int:
    if obj.get('ends'):
        return c17_ends.replay_history(ctx, obj)
    return uidrecent.replay_history(ctx, obj)
