"""C02 — cross-session convergence: no lost, phantom or stuck updates.

Proofs: coq/theories/Props/C02.v (modification-log completeness, expunge
records sticky, convergence after NOOP at quiescence over all traces of the
Store model).
Correspondence: the same kind of multi-session traces as C01 (dict and maildir
backends) with histories biased towards touching messages another session has
expunged and .SILENT stores; every step compared with the model inside Coq
(including the modification log of every mailbox, the maildir files, and the
flags each shadow client holds against the model's client).
Monitor: at quiescent points every connection issues NOOP and its shadow
client (message list, flags it was told) is compared with what a fresh probe
session reports (harness/store_monitor.py).
"""
from __future__ import annotations

import random

from .. import store_check as SC
from . import C01 as base

LEARN = ('fetch', [(1, '*')], False, True, False)

WITNESSES = {
    # C02-F1 (DESIGN §6 row 1): STORE on a message another session expunged used to
    # move its uid from _expunges to _updates: sessions 2 and 3 kept UID 101 for ever
    'store_after_expunge': (3, [
        ('cmd', 1, ('select', 1, False)), ('cmd', 1, LEARN),
        ('cmd', 2, ('select', 1, False)), ('cmd', 2, LEARN),
        ('cmd', 3, ('select', 1, False)), ('cmd', 3, LEARN),
        ('cmd', 1, ('store', [1], False, 'add', [2], False)),
        ('cmd', 1, ('expunge', None)),
        ('cmd', 2, ('store', [1], False, 'add', [5], False)),
    ]),
    # C02-F2 (row 2): STORE.SILENT computed the silenced flags from the live message
    # that already showed session 2's \Flagged: session 1 was never told about it
    'silent_store_hides_other_update': (2, [
        ('cmd', 1, ('select', 1, False)), ('cmd', 1, LEARN),
        ('cmd', 2, ('select', 1, False)), ('cmd', 2, LEARN),
        ('cmd', 2, ('store', [2], False, 'add', [4], False)),
        ('cmd', 1, ('store', [2], False, 'add', [2], True)),
    ]),
    # C02-F3: a STORE refused in a read-only selection left hide_expunged set: the
    # next NOOP did not report the expunge
    'refused_store_hides_expunge': (2, [
        ('cmd', 1, ('select', 1, True)), ('cmd', 1, LEARN),
        ('cmd', 2, ('select', 1, False)), ('cmd', 2, LEARN),
        ('cmd', 1, ('store', [1], False, 'add', [5], False)),
        ('cmd', 2, ('store', [1], False, 'add', [2], False)),
        ('cmd', 2, ('expunge', None)),
    ]),
}

WITNESSES['silenced_flags_do_not_outlive_the_command'] = (2, [
    # regression scenario (no defect on the current tree): a silenced (uid, flags) pair must be
    # forgotten after the fork, or the same value set later by another session is swallowed
    ('cmd', 1, ('select', 1, False)), ('cmd', 1, LEARN),
    ('cmd', 2, ('select', 1, False)), ('cmd', 2, LEARN),
    ('cmd', 1, ('store', [3], False, 'add', [5], True)),
    ('cmd', 2, ('store', [3], False, 'delete', [5], False)),
    ('cmd', 1, ('noop',)),
    ('cmd', 2, ('store', [3], False, 'add', [5], False)),
])

WITNESSES['partial_reexpunge_of_a_group'] = (3, [
    # regression scenario (no defect on the current tree): one EXPUNGE writes one log record
    # for UIDs 101 and 102; session 2, not yet synchronized, expunges 101 again; 102 must still
    # be reported to sessions 2 and 3
    ('cmd', 1, ('select', 1, False)), ('cmd', 1, LEARN),
    ('cmd', 2, ('select', 1, False)), ('cmd', 2, LEARN),
    ('cmd', 3, ('select', 1, False)), ('cmd', 3, LEARN),
    ('cmd', 1, ('store', [(1, 2)], False, 'add', [2], False)),
    ('cmd', 1, ('expunge', None)),
    ('cmd', 2, ('expunge', [101])),
])

WEIGHTS = {'store': 24, 'expunge': 14, 'uidexpunge': 6, 'move': 10, 'copy': 4, 'append': 8,
           'fetch': 8, 'search': 3, 'noop': 6, 'check': 2, 'touch': 1, 'close': 1, 'idle': 2,
           'select': 2, 'deliver': 2}


def section_random(ctx, clauses) -> None:
    n = ctx.scale(120, 450)
    traces = []
    hist: dict = {}
    checkpoints = compared = 0
    for i in range(n):
        rng = random.Random(f'{ctx.prop}-{ctx.seed}-rand-{i}')
        nsess = rng.randint(2, 4)
        prof = dict(nsess=nsess, nsteps=rng.randint(8, 25),
                    boxes=(1,) if rng.random() < 0.75 else (1, 2),
                    readonly_sessions=(3,) if rng.random() < 0.3 else (),
                    checkpoint_every=rng.choice([2, 3, 5]), weights=WEIGHTS,
                    flipflop=rng.choice([0.0, 0.4, 0.7]), group=rng.choice([0.0, 0.1, 0.2]))
        trace, mon = SC.run_sync(SC.monitored_random_trace(rng, **prof))
        checkpoints += mon.n_checkpoints
        compared += mon.n_compared
        SC.report_trace(ctx, 'random', trace, mon, clauses, {'nsess': nsess, 'trace': i})
        traces.append(trace)
        for lab, resp, _ in trace.steps:
            kind = lab[2][0] if lab[0] == 'cmd' else lab[0]
            hist[kind] = hist.get(kind, 0) + 1
            ctx.count((kind, repr(lab), repr(resp)),
                      nontrivial=any(r[0] in ('expunge', 'exists', 'fetch') for r in resp))
        if i < 2:
            ctx.sample({'labels': SC.labels_repr(trace.labels())[:1500]})
    ctx.extra['label_histogram'] = {'random': hist}
    ctx.extra['quiescent_points'] = {'checkpoints': checkpoints, 'views_compared_with_probe': compared}
    return SC.CaseEval(ctx, 'store_random_traces', traces)


OBSERVERS = [
    [('noop',)],
    [('fetch', [(1, '*')], False, True, False)],
    [('noop',), ('store', ['*'], False, 'add', [4], False)],
    [('check',), ('fetch', ['*'], True, True, True)],
]


def section_failed_append(ctx, clauses) -> None:
    """A multi-message APPEND whose 2nd or 3rd message fails (injected OSError from
    MailboxData.append) is taken back; an observer session looks (NOOP / FETCH / STORE on
    the new message) after the first message was stored and before the failure — an
    instrumented await window (harness/store_windows.py); afterwards everybody polls and is
    compared with the probe.  Monitors only."""
    from .. import store_windows as W
    n = reached = 0
    W.install()
    try:
        for nmsgs, fail_at in ((2, 2), (3, 2), (3, 3)):
            for cmds in OBSERVERS:
                for asel in (True, False):
                    trace, mon, hit = SC.run_sync(W.failed_append_trace(
                        nmsgs, fail_at, cmds, appender_selected=asel))
                    n += 1
                    reached += bool(hit)
                    labels = trace.labels()
                    for f in mon.failures:
                        if f['clause'] in clauses:
                            ctx.failure(f['clause'], '[failed APPEND] ' + f['what'],
                                        {'failed_append': [nmsgs, fail_at, repr(cmds), asel],
                                         'labels': SC.labels_repr(labels[:f['step'] + 1]),
                                         'session': f['session'], 'step': f['step'],
                                         'generator': 'failed-multiappend-with-observer'},
                                        {**f['obs'], 'window': f'APPEND of {nmsgs} fails at message '
                                                               f'{fail_at}, observer: {cmds}'})
                    for p in trace.problems:
                        if p['kind'] != 'atomicity':
                            ctx.disagreement('failed_append:' + p['kind'], p)
                    for lab, resp, _ in trace.steps:
                        ctx.count(('failed_append', nmsgs, fail_at, repr(cmds), asel, repr(lab), repr(resp)),
                                  nontrivial=any(r[0] in ('expunge', 'exists', 'fetch') for r in resp))
    finally:
        W.uninstall()
    ctx.extra['failed_multiappend'] = {'traces': n, 'window_reached': reached}
    if reached < n:
        ctx.broken.append(f'failed APPEND: {n - reached} of {n} windows were not reached')


RULE = ('a case is one multi-session history: 2-4 connections on the dict backend, 8-25 commands '
        'weighted towards STORE (35% .SILENT), EXPUNGE, MOVE on sequence sets biased to messages '
        'another connection has expunged; every 2-5 steps and at the end every connection issues NOOP '
        'and its shadow client is compared with a fresh probe session; plus all interleavings of 2 '
        'connections x 3 commands (quick: a sample of program pairs); plus histories and schedules '
        'on the maildir backend with the same comparison and monitors; non-trivial = the step produced '
        'EXPUNGE/EXISTS/FETCH data')


def run(ctx) -> None:
    ctx.rule = RULE
    ctx.assumptions += base.ASSUMPTIONS
    ctx.check_proofs(['Store/StoreCheck', 'Store/NsCheck'])
    clauses = SC.C02_CLAUSES
    from .. import store_ns as NS
    evals = [base.section_namespace(ctx, NS.C02_NS_CLAUSES)]
    evals += [base.section_witnesses(ctx, clauses, WITNESSES), section_random(ctx, clauses)]
    evals += base.section_exhaustive(ctx, clauses)
    evals += base.section_maildir(ctx, clauses, WITNESSES)
    base.section_windows(ctx, clauses)
    section_failed_append(ctx, clauses)
    for ev in evals:
        ev.finish()


replay = base.replay
