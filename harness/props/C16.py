"""C16 -- IDLE delivers every change without further stimulus.

Model Sync/Idle.v (idler program counter machine + writers), theorems
C16_progress / C16_never_stuck / idle_done_ok / idle_other_bad
(+ C16_refuted_lost_wakeup for the update loop before the fix).

Correspondence: the real server (dict backend) with one or two idling
sessions -- gated ones are paused by the harness inside every
`writer.drain()` -- and one or two writer sessions.  Every placement of the
writer's bursts relative to the idlers' drain points is executed; after every
action the server runs until nothing is runnable and the idlers' positions and
shadow-client views are compared with the model's.

Monitors (on the implementation only): an idler that is parked in its wait
must have been told everything (shadow view = mailbox as read by a probe
session); pushed EXPUNGE/FETCH numbers in range, EXISTS never shrinks;
DONE -> tagged OK, any other line -> tagged BAD.
"""
from __future__ import annotations

import asyncio
import os

from .. import coqterm as T
from ..pymap_env import DictEnv, MaildirEnv, run as arun
from ..syncdrv import IdleRun, MSG, batch_recorder, settle

HEADER = 'From PV Require Import Base.Prelude Sync.RWLock Sync.Idle Sync.IdleCheck.\n'

# ------------------------------------------------------------------ scripts
# writer command scripts (dict demo INBOX: UIDs 101..104); every prefix of a
# script changes what a client must be told
APPEND_F = b'APPEND INBOX (\\Flagged) {%d+}\r\n' % len(MSG) + MSG
APPEND_0 = b'APPEND INBOX {%d+}\r\n' % len(MSG) + MSG
SCRIPTS = {
    'store-store': [b'UID STORE 101 +FLAGS (\\Flagged)', b'UID STORE 102 +FLAGS (\\Draft)',
                    b'UID STORE 103 +FLAGS (\\Flagged)', b'UID STORE 101 +FLAGS (\\Draft)'],
    'append-store': [APPEND_F, b'UID STORE 105 +FLAGS (\\Answered)', APPEND_0,
                     b'UID STORE 102 +FLAGS (\\Flagged)'],
    'delete-expunge': [b'UID STORE 102 +FLAGS (\\Deleted)', b'EXPUNGE',
                       b'UID STORE 104 +FLAGS (\\Deleted)', b'EXPUNGE'],
    'expunge-append': [b'UID STORE 101 +FLAGS (\\Deleted)', b'EXPUNGE', APPEND_F,
                       b'UID STORE 103 +FLAGS (\\Draft)'],
    # replace-with-empty, .SILENT, a -FLAGS that empties the set, stores that change nothing
    'replace-empty': [b'UID STORE 101 FLAGS ()', b'UID STORE 102 FLAGS.SILENT ()',
                      b'UID STORE 103 +FLAGS.SILENT (\\Flagged)', b'UID STORE 103 -FLAGS (\\Flagged \\Seen)'],
    'noop-stores': [b'UID STORE 101 +FLAGS (\\Seen)', b'UID STORE 104 FLAGS ()',
                    b'UID STORE 104 -FLAGS (\\Draft)', b'UID STORE 102 FLAGS ($Forwarded custom)'],
    # COPY / MOVE into the idled mailbox, UID EXPUNGE, APPEND with and without flags
    'copy-move': [b'COPY 1 INBOX', b'UID MOVE 102 INBOX', b'UID STORE 103 +FLAGS (\\Deleted)',
                  b'UID EXPUNGE 103'],
    'append-plain': [APPEND_0, b'UID STORE 105 FLAGS ()', APPEND_F, b'EXPUNGE'],
    # X -> Y -> X: a flag combination the idler itself stored (silently) before IDLE is
    # changed away and then restored by another session
    'restore': [b'UID STORE 101 -FLAGS (\\Flagged)', b'UID STORE 101 +FLAGS (\\Flagged)',
                b'UID STORE 102 FLAGS (\\Seen)', b'UID STORE 102 FLAGS (\\Draft)'],
    # a session with a stale view addresses a message that was expunged meanwhile
    'stale-store': [b'UID STORE 102 +FLAGS (\\Deleted)', b'EXPUNGE',
                    b'UID STORE 102 +FLAGS (\\Flagged)', b'UID FETCH 102 (BODY[])'],
    'stale-store2': [b'UID STORE 103 +FLAGS (\\Deleted)', b'EXPUNGE',
                     b'STORE 3 -FLAGS (\\Flagged)', b'UID STORE 103 FLAGS ()'],
    'toggle': [b'UID STORE 103 +FLAGS (\\Flagged)', b'UID STORE 103 -FLAGS (\\Flagged)',
               b'UID STORE 104 +FLAGS (\\Answered)', APPEND_0],
}

# what an idler did itself before IDLE
PRE = {
    None: [],
    'silent': [b'UID STORE 101 +FLAGS.SILENT (\\Flagged)', b'UID STORE 102 FLAGS.SILENT (\\Draft)'],
    'mixed': [b'UID STORE 103 -FLAGS (\\Flagged)', b'UID FETCH 104 (FLAGS)',
              b'UID STORE 104 +FLAGS.SILENT (\\Deleted)', b'EXPUNGE',
              b'STORE 1 +FLAGS.SILENT (\\Answered)'],
}


def cfg_parts(cfg):
    """(gated, writers, script, commands[, idler history[, writer of each command]])"""
    gated, n_writers, script_name, total = cfg[:4]
    pre = cfg[4] if len(cfg) > 4 else None
    assign = cfg[5] if len(cfg) > 5 else None
    return gated, n_writers, script_name, total, pre, assign


LINES = [(b'DONE\r\n', True), (b'done\r\n', True), (b'DONE\n', True), (b'WHAT\r\n', False),
         (b'\r\n', False), (b'DONE \r\n', False), (b' DONE\r\n', False), (b'DONE x\r\n', False),
         (b'a1 NOOP\r\n', False), (b'DoNe\r\n', True)]


def enc_obs(o) -> str:
    deliv = T.lst(('(@nil nat)' if not ks else T.lst(T.nat(k) for k in ks)) for ks in o['deliv'])
    return f'(mkIObs {T.lst(T.nat(p) for p in o["phase"])} {deliv})'


def enc_action(a) -> str:
    if a[0] == 'n':
        return f'(HN {T.lst(T.nat(x) for x in a[1]) if a[1] else "(@nil nat)"})'
    if a[0] == 'w':
        return f'(HW {T.nat(a[2])})'
    if a[0] == 'rel':
        return f'(HRel {T.nat(a[1])} {T.boolean(a[2])})'
    return f'(HDone {T.nat(a[1])} {T.boolean(a[2])})'


# -------------------------------------------------------------- one scenario
async def play(ctx, cfg, schedule, line_idx: int):
    """run one schedule; returns (record, options_at_end) -- options = the
    actions that could come next (for the exploration)"""
    gated, n_writers, script_name, total, pre, assign = cfg_parts(cfg)
    script = SCRIPTS[script_name][:total]
    env = await DictEnv().start()
    r = IdleRun(env, gated, n_writers, PRE[pre])
    o0 = await r.start()
    used = 0
    steps = []
    done_sent: set[int] = set()
    for a in schedule:
        if a[0] == 'w':
            _, w, b = a
            o, woken = await r.write(w, script[used:used + b])
            used += b
            steps.append((('w', w, b) if woken is None else ('n', woken), o))
        elif a[0] == 'race':
            _, w, b, s, k, offset = a
            line, ok = LINES[k]
            o, woken = await r.race(w, script[used:used + b], s, line, offset)
            used += b
            steps.append((('race', s, ok, line, woken), o))
        elif a[0] == 'rel':
            o, last = await r.release(a[1])
            steps.append((('rel', a[1], last), o))
        elif a[0] == 'line':
            _, s, k = a
            line, ok = LINES[k]
            o = await r.client_line(s, line)
            done_sent.add(s)
            steps.append((('done', s, ok, line), o))
    last_obs = steps[-1][1] if steps else o0
    options = []
    if used < len(script):
        for b in range(1, len(script) - used + 1):
            if assign is None:
                for w in range(n_writers):
                    options.append(('w', w, b))
            elif len(set(assign[used:used + b])) == 1:
                # this command belongs to one particular session (e.g. the stale one)
                options.append(('w', assign[used], b))
    for s, ph in enumerate(last_obs['phase']):
        if ph == 1:
            options.append(('rel', s))
    rec = {'cfg': cfg, 'o0': o0, 'steps': steps,
           'batches': [list(c.verif_batches) for c in r.idlers],
           'shadow_errors': [list(sh.errors) for sh in r.shadows],
           'exc': [repr(c.exc) for c in r.idlers + r.writers if c.exc is not None],
           'hi': r.hi, 'after_noop': await r.noop_after_idle()}
    await r.close()
    return rec, options, r


def monitors(ctx, rec, schedule) -> bool:
    """property oracles on the implementation's observable behaviour"""
    cfg = rec['cfg']
    replay = {'section': 'dict', 'cfg': list(cfg), 'schedule': [list(a) for a in schedule]}
    failed = False
    for errs in rec['shadow_errors']:
        for e in errs:
            ctx.failure('idle_seq_rules', f'update pushed during IDLE breaks the sequence-number '
                        f'rules: {e} (cfg {cfg}, schedule {schedule})', replay, {'kind': 'seq_rule'})
            failed = True
    if rec['exc']:
        ctx.failure('idle_delivery', f'exception escaped a connection: {rec["exc"]}', replay,
                    {'kind': 'exception'})
        failed = True
    for k, (a, o) in enumerate([(None, rec['o0'])] + rec['steps']):
        hi = o['hi']
        for s, ph in enumerate(o['phase']):
            if ph == 0 and hi not in o['deliv'][s]:
                ctx.failure('idle_delivery',
                            f'idler {s} is parked in its wait, nothing is runnable, but its client '
                            f'has not been told about all {hi} changes (view matches history points '
                            f'{o["deliv"][s]}); cfg {cfg}, schedule {schedule[:k]}',
                            replay, {'kind': 'lost_wakeup'})
                failed = True
        if a is not None and a[0] in ('done', 'race'):
            _, s, ok, line = a[:4]
            ph = o['phase'][s]
            if (ok and ph != 2) or (not ok and ph != 3):
                ctx.failure('idle_done', f'client line {line!r} during IDLE: expected tagged '
                            f'{"OK" if ok else "BAD"}, server wrote {o["pushed"][s]!r}', replay,
                            {'kind': 'done_ok' if ok else 'other_bad'})
                failed = True
    # nothing may be lost across the end of IDLE: after one NOOP the client knows everything
    for s, complete, noop_out, view, truth in rec.get('after_noop', []):
        if not complete:
            ctx.failure('idle_delivery',
                        f'idler {s}: IDLE has ended and a NOOP was answered {noop_out!r}, but its '
                        f'client still does not know the mailbox: client view {view}, mailbox '
                        f'{truth}; cfg {cfg}, schedule {schedule}',
                        replay, {'kind': 'lost_across_done'})
            failed = True
    return failed


def explore(ctx, cfg, max_runs: int):
    """every placement: depth-first over the options after each prefix"""
    runs = []
    work = [()]
    n = 0
    while work and n < max_runs:
        schedule = work.pop()
        rec, options, _ = arun(play(ctx, cfg, schedule, 0), timeout=60)
        n += 1
        if options:
            for a in reversed(options):
                work.append(schedule + (a,))
        else:
            runs.append((schedule, rec))
    return runs, n, bool(work)


async def finish_with_line(ctx, cfg, schedule, k):
    rec, options, r = await play(ctx, cfg, tuple(schedule) + (('line', 0, k),), k)
    return rec


def configs(ctx):
    """(gated flags of the idlers, writers, script, number of commands)"""
    quick = [
        ((True,), 1, 'store-store', 2),
        ((True,), 1, 'append-store', 2),
        ((True,), 1, 'delete-expunge', 2),
        ((True,), 1, 'toggle', 2),
        ((False,), 1, 'append-store', 2),
        ((True, False), 1, 'store-store', 2),
        ((True,), 1, 'replace-empty', 2),
        ((True, False), 1, 'replace-empty', 3),
        ((False,), 1, 'noop-stores', 4),
        ((True,), 1, 'copy-move', 2),
        ((True,), 1, 'append-plain', 2),
        ((False,), 1, 'restore', 2, 'silent'),
        ((True,), 1, 'restore', 4, 'silent', (0, 0, 0, 0)),
        ((True,), 1, 'store-store', 2, 'mixed'),
        ((True,), 2, 'stale-store', 4, None, (0, 0, 1, 1)),
        ((True,), 2, 'stale-store2', 4, 'silent', (0, 0, 1, 1)),
    ]
    if ctx.quick:
        return quick
    return quick + [
        ((True,), 1, 'store-store', 4),
        ((True,), 1, 'append-store', 3),
        ((True,), 1, 'expunge-append', 4),
        ((True,), 2, 'delete-expunge', 3),
        ((True, True), 1, 'append-store', 2),
        ((True, True), 2, 'expunge-append', 3),
        ((True, False), 2, 'toggle', 3),
        ((True,), 1, 'replace-empty', 4),
        ((True,), 1, 'noop-stores', 4),
        ((True,), 1, 'copy-move', 4),
        ((True, False), 1, 'append-plain', 4),
        ((True, False), 1, 'restore', 4, 'silent'),
        ((True,), 2, 'restore', 4, 'mixed'),
        ((True, True), 2, 'stale-store', 3, None, (0, 0, 1)),
        ((True,), 2, 'stale-store', 4),
        ((True,), 2, 'delete-expunge', 4, 'mixed'),
    ]


def case_term(recheck: bool, rec) -> str:
    gated = rec['cfg'][0]
    orc = T.lst(('(@nil nat)' if not b else T.lst(T.nat(x) for x in b)) for b in rec['batches'])
    steps = []
    for a, o in rec['steps']:
        if a[0] == 'done':
            a = ('done', a[1], a[2])
        steps.append(f'({enc_action(a)}, {enc_obs(o)})')
    run_t = T.lst(steps) if steps else '(@nil (haction * iobs))'
    return (f'({T.boolean(recheck)}, {T.lst(T.boolean(g) for g in gated)}, {orc}, '
            f'{enc_obs(rec["o0"])}, {run_t})')


def section_dict(ctx, recheck: bool) -> None:
    cases, descr, stats = [], [], []
    with batch_recorder():
        for cfg in configs(ctx):
            runs, n_exec, truncated = explore(ctx, cfg, ctx.scale(400, 2000))
            stats.append({'cfg': repr(cfg), 'schedules': len(runs), 'executions': n_exec,
                          'all_placements': not truncated})
            for j, (schedule, rec) in enumerate(runs):
                # end every complete schedule with a client line (cycled through LINES)
                k = (j + len(cases)) % len(LINES)
                rec2 = arun(finish_with_line(ctx, cfg, schedule, k), timeout=60)
                full = tuple(schedule) + (('line', 0, k),)
                ctx.count(('idle', repr(cfg), full), nontrivial=True)
                failed = monitors(ctx, rec2, full)
                cases.append(case_term(recheck, rec2))
                descr.append((cfg, full, failed))
            # a client line arriving at other moments: every prefix of the first schedules
            for schedule, rec in runs[:ctx.scale(3, 12)]:
                for cut in range(len(schedule)):
                    k = (cut + len(cases)) % len(LINES)
                    pre = tuple(schedule[:cut])
                    rec2 = arun(finish_with_line(ctx, cfg, pre, k), timeout=60)
                    full = pre + (('line', 0, k),)
                    ctx.count(('idle', repr(cfg), full), nontrivial=True)
                    failed = monitors(ctx, rec2, full)
                    cases.append(case_term(recheck, rec2))
                    descr.append((cfg, full, failed))
    ctx.extra['idle_exploration'] = stats
    if descr:
        ctx.sample({'idle_cfg': repr(descr[-1][0]), 'schedule': repr(descr[-1][1])})
    bad = ctx.run_cases('idle', HEADER,
                        'bool * list bool * list (list nat) * iobs * list (haction * iobs)',
                        cases, 'chk_idle')
    reported = 0
    for i in bad:
        cfg, schedule, failed = descr[i]
        if failed or reported >= 5:
            continue
        reported += 1
        ctx.disagreement('idle', {'cfg': repr(cfg), 'schedule': repr(list(schedule))})
    if bad and not reported:
        ctx.broken.append(f'correspondence idle: {len(bad)} runs of the real server are not '
                          f'behaviours of the model (each also fails a monitor)')


def race_configs(ctx):
    base = [((False,), 1, 'store-store', 2), ((True,), 1, 'append-store', 2),
            ((False,), 1, 'replace-empty', 2), ((False,), 1, 'delete-expunge', 2)]
    if not ctx.quick:
        base += [((True,), 1, 'copy-move', 2), ((False, True), 1, 'append-plain', 2),
                 ((True,), 1, 'delete-expunge', 2)]
    return base


def section_races(ctx) -> None:
    """writer commands in the scheduler turns right around the client's line
    (not at quiescence, so outside the model's action alphabet: monitors only)"""
    n = 0
    offsets = range(-4, 9) if ctx.quick else range(-8, 17)
    with batch_recorder():
        for cfg in race_configs(ctx):
            gated = cfg[0]
            prefixes = [(), (('w', 0, 1),)]
            if gated[0]:
                prefixes = [(('rel', 0),), (), (('rel', 0), ('w', 0, 1))]
            for pre in prefixes:
                for off in offsets:
                    for k in ((0, 3) if ctx.quick or off % 2 else (0, 3, 1, 5)):
                        schedule = tuple(pre) + (('race', 0, 1, 0, k, off),)
                        try:
                            rec, _, _ = arun(play(ctx, cfg, schedule, k), timeout=60)
                        except AssertionError:
                            continue
                        n += 1
                        ctx.count(('race', repr(cfg), schedule), nontrivial=True)
                        monitors(ctx, rec, schedule)
    ctx.extra['idle_races'] = n


# ---------------------------------------------------------------- maildir
async def maildir_scenario(ctx, during_drain: bool):
    """maildir polls once a second: a change must be pushed within one poll
    period (real time; low volume)"""
    env = await MaildirEnv('++').start()
    try:
        sel = b's SELECT INBOX\r\n'
        w = await env.login()
        await w.send(b'a0 ' + APPEND_0 + b'\r\n')
        await w.send(sel)
        c = await env.login()
        await c.send(sel)
        if during_drain:
            c.drain_gate = asyncio.Event()
        c.take()
        c.feed_nowait(b'i1 IDLE\r\n')
        await asyncio.sleep(0.05)
        if during_drain:
            # the continuation is being written: the change lands now
            await w.send(b'a1 ' + APPEND_F + b'\r\n')
            c.drain_gate.set()
        else:
            await w.send(b'a1 ' + APPEND_F + b'\r\n')
        got = b''
        for _ in range(30):
            await asyncio.sleep(0.1)
            got += c.take()
            if b'EXISTS' in got:
                break
        out = await c.send(b'DONE\r\n')
        return got, out
    finally:
        env.close()


def section_maildir(ctx) -> None:
    for during in (False, True):
        got, out = arun(maildir_scenario(ctx, during), timeout=60)
        ctx.count(('maildir', during))
        if b'* 2 EXISTS' not in got:
            ctx.failure('idle_delivery',
                        f'maildir: APPEND by another session '
                        f'{"while the idler was in drain" if during else "while the idler was parked"} '
                        f'not pushed within 3 s: {got!r}',
                        {'section': 'maildir', 'during_drain': during}, {'kind': 'maildir_poll'})
        if b'i1 OK' not in out:
            ctx.failure('idle_done', f'maildir: DONE answered {out!r}',
                        {'section': 'maildir', 'during_drain': during}, {'kind': 'done_ok'})


def run(ctx) -> None:
    ctx.rule = ('every placement of the writers\' bursts relative to the idlers\' drain points '
                '(idlers paused inside writer.drain()), each ended by a client line; after every '
                'action the server runs to quiescence and positions + shadow-client views are '
                'compared with the model; parked-but-undelivered / sequence-rule / DONE monitors')
    ctx.assumptions += [
        'a dict-backend command body runs without suspending (bursts sent in one write are atomic)',
        'asyncio event loop fairness: a task with a ready handle is eventually run',
        'maildir: delivery relies on the 1 s poll (monitored with real time, not modelled)',
    ]
    ctx.check_proofs(['Sync/IdleCheck'])
    recheck = os.environ.get('VERIF_C16_RECHECK', 'true') == 'true'
    section_dict(ctx, recheck)
    section_races(ctx)
    section_maildir(ctx)
    ctx.exhaustive = all(x['all_placements'] for x in ctx.extra.get('idle_exploration', []))


def replay(ctx, data) -> int:
    if data.get('section') == 'dict':
        cfg = data['cfg']
        cfg = (tuple(cfg[0]), cfg[1], cfg[2], cfg[3]) + tuple(
            tuple(x) if isinstance(x, list) else x for x in cfg[4:])
        schedule = tuple(tuple(a) for a in data['schedule'])
        with batch_recorder():
            rec, _, _ = arun(play(ctx, cfg, schedule, 0), timeout=60)
        print('initial:', rec['o0'])
        for a, o in rec['steps']:
            print(a, '->', o)
        return 0
    if data.get('section') == 'maildir':
        got, out = arun(maildir_scenario(ctx, data['during_drain']), timeout=60)
        print('pushed during IDLE:', got)
        print('answer to DONE:', out)
        return 0
    print('nothing to replay for', data.get('section'))
    return 0
