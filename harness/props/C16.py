"""C16 -- IDLE delivers every change without further stimulus.

Model Sync/Idle.v (idler program counter machine + writers), theorems
C16_progress / C16_never_stuck / idle_done_ok / idle_other_bad
(+ C16_refuted_lost_wakeup for the update loop before the fix).

Correspondence: the real server (dict backend) with one or two idling
sessions -- gated ones are paused by the harness inside every
`writer.drain()` -- and one or two writer sessions.  Every placement of the
writer's bursts relative to the idlers' drain points is executed; after every
action the server runs until nothing is runnable and the idlers' positions and
shadow-client views are compared with the model's.

Monitors (on the implementation only): an idler that is parked in its wait
must have been told everything (shadow view = mailbox as read by a probe
session); pushed EXPUNGE/FETCH numbers in range, EXISTS never shrinks;
DONE -> tagged OK, any other line -> tagged BAD.
"""
from __future__ import annotations

import asyncio
import os

from .. import coqterm as T
from ..pymap_env import DictEnv, MaildirEnv, run as arun
from ..syncdrv import IdleRun, MSG, batch_recorder, settle

HEADER = 'From PV Require Import Base.Prelude Sync.RWLock Sync.Idle Sync.IdleCheck.\n'

# ------------------------------------------------------------------ scripts
# writer command scripts (dict demo INBOX: UIDs 101..104); every prefix of a
# script changes what a client must be told
APPEND_F = b'APPEND INBOX (\\Flagged) {%d+}\r\n' % len(MSG) + MSG
APPEND_0 = b'APPEND INBOX {%d+}\r\n' % len(MSG) + MSG
SCRIPTS = {
    'store-store': [b'UID STORE 101 +FLAGS (\\Flagged)', b'UID STORE 102 +FLAGS (\\Draft)',
                    b'UID STORE 103 +FLAGS (\\Flagged)', b'UID STORE 101 +FLAGS (\\Draft)'],
    'append-store': [APPEND_F, b'UID STORE 105 +FLAGS (\\Answered)', APPEND_0,
                     b'UID STORE 102 +FLAGS (\\Flagged)'],
    'delete-expunge': [b'UID STORE 102 +FLAGS (\\Deleted)', b'EXPUNGE',
                       b'UID STORE 104 +FLAGS (\\Deleted)', b'EXPUNGE'],
    'expunge-append': [b'UID STORE 101 +FLAGS (\\Deleted)', b'EXPUNGE', APPEND_F,
                       b'UID STORE 103 +FLAGS (\\Draft)'],
    # replace-with-empty, .SILENT, a -FLAGS that empties the set, stores that change nothing
    'replace-empty': [b'UID STORE 101 FLAGS ()', b'UID STORE 102 FLAGS.SILENT ()',
                      b'UID STORE 103 +FLAGS.SILENT (\\Flagged)', b'UID STORE 103 -FLAGS (\\Flagged \\Seen)'],
    'noop-stores': [b'UID STORE 101 +FLAGS (\\Seen)', b'UID STORE 104 FLAGS ()',
                    b'UID STORE 104 -FLAGS (\\Draft)', b'UID STORE 102 FLAGS ($Forwarded custom)'],
    # COPY / MOVE into the idled mailbox, UID EXPUNGE, APPEND with and without flags
    'copy-move': [b'COPY 1 INBOX', b'UID MOVE 102 INBOX', b'UID STORE 103 +FLAGS (\\Deleted)',
                  b'UID EXPUNGE 103'],
    'append-plain': [APPEND_0, b'UID STORE 105 FLAGS ()', APPEND_F, b'EXPUNGE'],
    # X -> Y -> X: a flag combination the idler itself stored (silently) before IDLE is
    # changed away and then restored by another session
    'restore': [b'UID STORE 101 -FLAGS (\\Flagged)', b'UID STORE 101 +FLAGS (\\Flagged)',
                b'UID STORE 102 FLAGS (\\Seen)', b'UID STORE 102 FLAGS (\\Draft)'],
    # a session with a stale view addresses a message that was expunged meanwhile
    'stale-store': [b'UID STORE 102 +FLAGS (\\Deleted)', b'EXPUNGE',
                    b'UID STORE 102 +FLAGS (\\Flagged)', b'UID FETCH 102 (BODY[])'],
    'stale-store2': [b'UID STORE 103 +FLAGS (\\Deleted)', b'EXPUNGE',
                     b'STORE 3 -FLAGS (\\Flagged)', b'UID STORE 103 FLAGS ()'],
    'toggle': [b'UID STORE 103 +FLAGS (\\Flagged)', b'UID STORE 103 -FLAGS (\\Flagged)',
               b'UID STORE 104 +FLAGS (\\Answered)', APPEND_0],
}

# what an idler did itself before IDLE
PRE = {
    None: [],
    'silent': [b'UID STORE 101 +FLAGS.SILENT (\\Flagged)', b'UID STORE 102 FLAGS.SILENT (\\Draft)'],
    'mixed': [b'UID STORE 103 -FLAGS (\\Flagged)', b'UID FETCH 104 (FLAGS)',
              b'UID STORE 104 +FLAGS.SILENT (\\Deleted)', b'EXPUNGE',
              b'STORE 1 +FLAGS.SILENT (\\Answered)'],
}


def cfg_parts(cfg):
    """(gated, writers, script, commands[, idler history[, writer of each command]])"""
    gated, n_writers, script_name, total = cfg[:4]
    pre = cfg[4] if len(cfg) > 4 else None
    assign = cfg[5] if len(cfg) > 5 else None
    return gated, n_writers, script_name, total, pre, assign


LINES = [(b'DONE\r\n', True), (b'done\r\n', True), (b'DONE\n', True), (b'WHAT\r\n', False),
         (b'\r\n', False), (b'DONE \r\n', False), (b' DONE\r\n', False), (b'DONE x\r\n', False),
         (b'a1 NOOP\r\n', False), (b'DoNe\r\n', True)]


def enc_obs(o) -> str:
    deliv = T.lst(('(@nil nat)' if not ks else T.lst(T.nat(k) for k in ks)) for ks in o['deliv'])
    return f'(mkIObs {T.lst(T.nat(p) for p in o["phase"])} {deliv})'


def enc_action(a) -> str:
    if a[0] == 'n':
        return f'(HN {T.lst(T.nat(x) for x in a[1]) if a[1] else "(@nil nat)"})'
    if a[0] == 'w':
        return f'(HW {T.nat(a[2])})'
    if a[0] == 'rel':
        return f'(HRel {T.nat(a[1])} {T.boolean(a[2])})'
    return f'(HDone {T.nat(a[1])} {T.boolean(a[2])})'


# -------------------------------------------------------------- one scenario
async def play(ctx, cfg, schedule, line_idx: int):
    """run one schedule; returns (record, options_at_end) -- options = the
    actions that could come next (for the exploration)"""
    gated, n_writers, script_name, total, pre, assign = cfg_parts(cfg)
    script = SCRIPTS[script_name][:total]
    env = await DictEnv().start()
    r = IdleRun(env, gated, n_writers, PRE[pre])
    o0 = await r.start()
    used = 0
    steps = []
    done_sent: set[int] = set()
    for a in schedule:
        if a[0] == 'w':
            _, w, b = a
            o, woken = await r.write(w, script[used:used + b])
            used += b
            steps.append((('w', w, b) if woken is None else ('n', woken), o))
        elif a[0] == 'race':
            _, w, b, s, k, offset = a
            line, ok = LINES[k]
            o, woken = await r.race(w, script[used:used + b], s, line, offset)
            used += b
            steps.append((('race', s, ok, line, woken), o))
        elif a[0] == 'rel':
            o, last = await r.release(a[1])
            steps.append((('rel', a[1], last), o))
        elif a[0] == 'line':
            _, s, k = a
            line, ok = LINES[k]
            o = await r.client_line(s, line)
            done_sent.add(s)
            steps.append((('done', s, ok, line), o))
    last_obs = steps[-1][1] if steps else o0
    options = []
    if used < len(script):
        for b in range(1, len(script) - used + 1):
            if assign is None:
                for w in range(n_writers):
                    options.append(('w', w, b))
            elif len(set(assign[used:used + b])) == 1:
                # this command belongs to one particular session (e.g. the stale one)
                options.append(('w', assign[used], b))
    for s, ph in enumerate(last_obs['phase']):
        if ph == 1:
            options.append(('rel', s))
    rec = {'cfg': cfg, 'o0': o0, 'steps': steps,
           'batches': [list(c.verif_batches) for c in r.idlers],
           'shadow_errors': [list(sh.errors) for sh in r.shadows],
           'exc': [repr(c.exc) for c in r.idlers + r.writers if c.exc is not None],
           'hi': r.hi, 'after_noop': await r.noop_after_idle()}
    await r.close()
    return rec, options, r


def monitors(ctx, rec, schedule) -> bool:
    """property oracles on the implementation's observable behaviour"""
    cfg = rec['cfg']
    replay = {'section': 'dict', 'cfg': list(cfg), 'schedule': [list(a) for a in schedule]}
    failed = False
    for errs in rec['shadow_errors']:
        for e in errs:
            ctx.failure('idle_seq_rules', f'update pushed during IDLE breaks the sequence-number '
                        f'rules: {e} (cfg {cfg}, schedule {schedule})', replay, {'kind': 'seq_rule'})
            failed = True
    if rec['exc']:
        ctx.failure('idle_delivery', f'exception escaped a connection: {rec["exc"]}', replay,
                    {'kind': 'exception'})
        failed = True
    for k, (a, o) in enumerate([(None, rec['o0'])] + rec['steps']):
        hi = o['hi']
        for s, ph in enumerate(o['phase']):
            if ph == 0 and hi not in o['deliv'][s]:
                ctx.failure('idle_delivery',
                            f'idler {s} is parked in its wait, nothing is runnable, but its client '
                            f'has not been told about all {hi} changes (view matches history points '
                            f'{o["deliv"][s]}); cfg {cfg}, schedule {schedule[:k]}',
                            replay, {'kind': 'lost_wakeup'})
                failed = True
        if a is not None and a[0] in ('done', 'race'):
            _, s, ok, line = a[:4]
            ph = o['phase'][s]
            if (ok and ph != 2) or (not ok and ph != 3):
                ctx.failure('idle_done', f'client line {line!r} during IDLE: expected tagged '
                            f'{"OK" if ok else "BAD"}, server wrote {o["pushed"][s]!r}', replay,
                            {'kind': 'done_ok' if ok else 'other_bad'})
                failed = True
    # nothing may be lost across the end of IDLE: after one NOOP the client knows everything
    for s, complete, noop_out, view, truth in rec.get('after_noop', []):
        if not complete:
            ctx.failure('idle_delivery',
                        f'idler {s}: IDLE has ended and a NOOP was answered {noop_out!r}, but its '
                        f'client still does not know the mailbox: client view {view}, mailbox '
                        f'{truth}; cfg {cfg}, schedule {schedule}',
                        replay, {'kind': 'lost_across_done'})
            failed = True
    return failed


def explore(ctx, cfg, max_runs: int):
    """every placement: depth-first over the options after each prefix"""
    runs = []
    work = [()]
    n = 0
    while work and n < max_runs:
        schedule = work.pop()
        rec, options, _ = arun(play(ctx, cfg, schedule, 0), timeout=60)
        n += 1
        if options:
            for a in reversed(options):
                work.append(schedule + (a,))
        else:
            runs.append((schedule, rec))
    return runs, n, bool(work)


async def finish_with_line(ctx, cfg, schedule, k):
    rec, options, r = await play(ctx, cfg, tuple(schedule) + (('line', 0, k),), k)
    return rec


def configs(ctx):
    """(gated flags of the idlers, writers, script, number of commands)"""
    quick = [
        ((True,), 1, 'store-store', 2),
        ((True,), 1, 'append-store', 2),
        ((True,), 1, 'delete-expunge', 2),
        ((True,), 1, 'toggle', 2),
        ((False,), 1, 'append-store', 2),
        ((True, False), 1, 'store-store', 2),
        ((True,), 1, 'replace-empty', 2),
        ((True, False), 1, 'replace-empty', 3),
        ((False,), 1, 'noop-stores', 4),
        ((True,), 1, 'copy-move', 2),
        ((True,), 1, 'append-plain', 2),
        ((False,), 1, 'restore', 2, 'silent'),
        ((True,), 1, 'restore', 4, 'silent', (0, 0, 0, 0)),
        ((True,), 1, 'store-store', 2, 'mixed'),
        ((True,), 2, 'stale-store', 4, None, (0, 0, 1, 1)),
        ((True,), 2, 'stale-store2', 4, 'silent', (0, 0, 1, 1)),
    ]
    if ctx.quick:
        return quick
    return quick + [
        ((True,), 1, 'store-store', 4),
        ((True,), 1, 'append-store', 3),
        ((True,), 1, 'expunge-append', 4),
        ((True,), 2, 'delete-expunge', 3),
        ((True, True), 1, 'append-store', 2),
        ((True, True), 2, 'expunge-append', 3),
        ((True, False), 2, 'toggle', 3),
        ((True,), 1, 'replace-empty', 4),
        ((True,), 1, 'noop-stores', 4),
        ((True,), 1, 'copy-move', 4),
        ((True, False), 1, 'append-plain', 4),
        ((True, False), 1, 'restore', 4, 'silent'),
        ((True,), 2, 'restore', 4, 'mixed'),
        ((True, True), 2, 'stale-store', 3, None, (0, 0, 1)),
        ((True,), 2, 'stale-store', 4),
        ((True,), 2, 'delete-expunge', 4, 'mixed'),
    ]


def case_term(recheck: bool, rec) -> str:
    gated = rec['cfg'][0]
    orc = T.lst(('(@nil nat)' if not b else T.lst(T.nat(x) for x in b)) for b in rec['batches'])
    steps = []
    for a, o in rec['steps']:
        if a[0] == 'done':
            a = ('done', a[1], a[2])
        steps.append(f'({enc_action(a)}, {enc_obs(o)})')
    run_t = T.lst(steps) if steps else '(@nil (haction * iobs))'
    return (f'({T.boolean(recheck)}, {T.lst(T.boolean(g) for g in gated)}, {orc}, '
            f'{enc_obs(rec["o0"])}, {run_t})')


def section_dict(ctx, recheck: bool) -> None:
    cases, descr, stats = [], [], []
    with batch_recorder():
        for cfg in configs(ctx):
            runs, n_exec, truncated = explore(ctx, cfg, ctx.scale(400, 2000))
            stats.append({'cfg': repr(cfg), 'schedules': len(runs), 'executions': n_exec,
                          'all_placements': not truncated})
            for j, (schedule, rec) in enumerate(runs):
                # end every complete schedule with a client line (cycled through LINES)
                k = (j + len(cases)) % len(LINES)
                rec2 = arun(finish_with_line(ctx, cfg, schedule, k), timeout=60)
                full = tuple(schedule) + (('line', 0, k),)
                ctx.count(('idle', repr(cfg), full), nontrivial=True)
                failed = monitors(ctx, rec2, full)
                cases.append(case_term(recheck, rec2))
                descr.append((cfg, full, failed))
            # a client line arriving at other moments: every prefix of the first schedules
            for schedule, rec in runs[:ctx.scale(3, 12)]:
                for cut in range(len(schedule)):
                    k = (cut + len(cases)) % len(LINES)
                    pre = tuple(schedule[:cut])
                    rec2 = arun(finish_with_line(ctx, cfg, pre, k), timeout=60)
                    full = pre + (('line', 0, k),)
                    ctx.count(('idle', repr(cfg), full), nontrivial=True)
                    failed = monitors(ctx, rec2, full)
                    cases.append(case_term(recheck, rec2))
                    descr.append((cfg, full, failed))
    ctx.extra['idle_exploration'] = stats
    if descr:
        ctx.sample({'idle_cfg': repr(descr[-1][0]), 'schedule': repr(descr[-1][1])})
    bad = ctx.run_cases('idle', HEADER,
                        'bool * list bool * list (list nat) * iobs * list (haction * iobs)',
                        cases, 'chk_idle')
    reported = 0
    for i in bad:
        cfg, schedule, failed = descr[i]
        if failed or reported >= 5:
            continue
        reported += 1
        ctx.disagreement('idle', {'cfg': repr(cfg), 'schedule': repr(list(schedule))})
    if bad and not reported:
        ctx.broken.append(f'correspondence idle: {len(bad)} runs of the real server are not '
                          f'behaviours of the model (each also fails a monitor)')


def race_configs(ctx):
    base = [((False,), 1, 'store-store', 2), ((True,), 1, 'append-store', 2),
            ((False,), 1, 'replace-empty', 2), ((False,), 1, 'delete-expunge', 2)]
    if not ctx.quick:
        base += [((True,), 1, 'copy-move', 2), ((False, True), 1, 'append-plain', 2),
                 ((True,), 1, 'delete-expunge', 2)]
    return base


def section_races(ctx) -> None:
    """writer commands in the scheduler turns right around the client's line
    (not at quiescence, so outside the model's action alphabet: monitors only)"""
    n = 0
    offsets = range(-4, 9) if ctx.quick else range(-8, 17)
    with batch_recorder():
        for cfg in race_configs(ctx):
            gated = cfg[0]
            prefixes = [(), (('w', 0, 1),)]
            if gated[0]:
                prefixes = [(('rel', 0),), (), (('rel', 0), ('w', 0, 1))]
            for pre in prefixes:
                for off in offsets:
                    for k in ((0, 3) if ctx.quick or off % 2 else (0, 3, 1, 5)):
                        schedule = tuple(pre) + (('race', 0, 1, 0, k, off),)
                        try:
                            rec, _, _ = arun(play(ctx, cfg, schedule, k), timeout=60)
                        except AssertionError:
                            continue
                        n += 1
                        ctx.count(('race', repr(cfg), schedule), nontrivial=True)
                        monitors(ctx, rec, schedule)
    ctx.extra['idle_races'] = n


# ---------------------------------------------------------------- maildir
async def maildir_scenario(ctx, during_drain: bool):
    """maildir polls once a second: a change must be pushed within one poll
    period (real time; low volume)"""
    env = await MaildirEnv('++').start()
    try:
        sel = b's SELECT INBOX\r\n'
        w = await env.login()
        await w.send(b'a0 ' + APPEND_0 + b'\r\n')
        await w.send(sel)
        c = await env.login()
        await c.send(sel)
        if during_drain:
            c.drain_gate = asyncio.Event()
        c.take()
        c.feed_nowait(b'i1 IDLE\r\n')
        await asyncio.sleep(0.05)
        if during_drain:
            # the continuation is being written: the change lands now
            await w.send(b'a1 ' + APPEND_F + b'\r\n')
            c.drain_gate.set()
        else:
            await w.send(b'a1 ' + APPEND_F + b'\r\n')
        got = b''
        for _ in range(30):
            await asyncio.sleep(0.1)
            got += c.take()
            if b'EXISTS' in got:
                break
        out = await c.send(b'DONE\r\n')
        return got, out
    finally:
        env.close()


def section_maildir(ctx) -> None:
    for during in (False, True):
        got, out = arun(maildir_scenario(ctx, during), timeout=60)
        ctx.count(('maildir', during))
        if b'* 2 EXISTS' not in got:
            ctx.failure('idle_delivery',
                        f'maildir: APPEND by another session '
                        f'{"while the idler was in drain" if during else "while the idler was parked"} '
                        f'not pushed within 3 s: {got!r}',
                        {'section': 'maildir', 'during_drain': during}, {'kind': 'maildir_poll'})
        if b'i1 OK' not in out:
            ctx.failure('idle_done', f'maildir: DONE answered {out!r}',
                        {'section': 'maildir', 'during_drain': during}, {'kind': 'done_ok'})



# ------------------------------------------------- maildir under a virtual clock
MD_HEADER = 'From PV Require Import Base.Prelude Sync.MaildirIdle Sync.MaildirIdleCheck.\n'
_DONE_LINES = [b'DONE\r\n', b'done\r\n', b'DONE\n', b'DONE x\r\n', b'NOOP\r\n']
_KINDS = ['append', 'store', 'seen', 'expunge']


def md_schedules(ctx):
    """(schedule, compared with the model?)"""
    scheds = []
    # sweep: two changes at every offset inside the poll interval
    k = 0
    for i in range(0, 5):
        for j in range(0, 5):
            if ctx.quick and (i + 2 * j) % 3:
                continue
            a, b = _KINDS[k % 4], _KINDS[(k // 4 + k + 1) % 4]
            k += 1
            acts = [('adv', i)] if i else []
            acts += [('change', a)]
            acts += [('adv', j)] if j else []
            acts += [('change', b), ('adv', 5), ('line', _DONE_LINES[k % len(_DONE_LINES)])]
            scheds.append((acts, True))
    # random schedules, DONE at any moment
    for _ in range(ctx.scale(8, 40)):
        acts = []
        for _ in range(ctx.rng.randint(3, 7)):
            if ctx.rng.random() < 0.5:
                acts.append(('change', ctx.rng.choice(_KINDS)))
            else:
                acts.append(('adv', ctx.rng.randint(1, 6)))
        acts.append(('line', ctx.rng.choice(_DONE_LINES)))
        scheds.append((acts, True))
    # other sessions' activity that changes nothing, inside the poll interval (monitors only)
    for neutral in ('select3', 'peek', 'examine3'):
        for kind in ('store', 'append', 'seen'):
            scheds.append(([('adv', 1), ('change', kind), ('adv', 1), ('neutral', neutral), ('adv', 2),
                            ('adv', 3), ('neutral', neutral), ('change', 'store'), ('adv', 5),
                            ('line', b'DONE\r\n')], False))
    # a change that is pending (made after the idler's last command) when IDLE starts
    for kind in ('append', 'store', 'expunge'):
        scheds.append(([('pre', kind), ('adv', 2), ('adv', 3), ('change', 'store'), ('adv', 5),
                        ('line', b'DONE\r\n')], False))
    return scheds


async def md_play(layout, acts):
    from ..mdidle import MdIdleRun, PERIOD_TICKS
    r = MdIdleRun(layout)
    problems = []
    try:
        o0 = await r.start([a[1] for a in acts if a[0] == 'pre'])
        recs = []
        since_change = 0
        ended = False
        for a in acts:
            if a[0] == 'pre':
                continue
            rec = await r.act(a)
            recs.append(rec)
            if a[0] == 'change':
                since_change = 0
            elif a[0] == 'adv':
                since_change += a[1]
            if rec['ended'] is not None:
                ended = True
            if rec['exc']:
                problems.append(('idle_delivery', 'exception', f'exception escaped the idler: {rec["exc"]}'))
            if r.shadow.errors:
                problems.append(('idle_seq_rules', 'seq', f'after {a}: {r.shadow.errors[:3]}'))
                r.shadow.errors.clear()
            if r.expunges_told > r.expunged_real:
                problems.append(('idle_seq_rules', 'phantom_expunge',
                                 f'after {a} the idler was told {r.expunges_told} EXPUNGE but only '
                                 f'{r.expunged_real} messages were expunged: {rec["out"]!r}'))
                r.expunged_real = r.expunges_told
            if not ended and a[0] == 'adv' and since_change >= PERIOD_TICKS:
                truth = await r.truth()
                if not r.shadow.matches(truth):
                    problems.append(('idle_delivery', 'maildir_poll',
                                     f'{since_change} ticks (period {PERIOD_TICKS}) after the last change '
                                     f'the idler knows {r.shadow.msgs} but the mailbox is {truth}'))
            if a[0] == 'line':
                want = a[1].strip().upper() == b'DONE'
                if rec['ended'] is not want:
                    problems.append(('idle_done', 'done_ok', f'line {a[1]!r} answered {rec["out"]!r}'))
        if ended:
            await r.after_done()
            truth = await r.truth()
            if not r.shadow.matches(truth):
                problems.append(('idle_delivery', 'lost_across_done',
                                 f'after IDLE ended + NOOP the idler knows {r.shadow.msgs} but the '
                                 f'mailbox is {truth}'))
            if r.shadow.errors:
                problems.append(('idle_seq_rules', 'seq', f'after NOOP: {r.shadow.errors[:3]}'))
        return o0, recs, problems
    finally:
        r.close()


def _enc_mobs(rec) -> str:
    e = rec['ended']
    return f'(mkMObs {T.boolean(rec["wrote"])} {"None" if e is None else "(Some " + T.boolean(e) + ")"})'


def _enc_mact(a) -> str:
    if a[0] == 'change':
        return 'AChange'
    if a[0] == 'adv':
        return f'(AAdvance {a[1]})'
    return f'(ADone {T.boolean(a[1].strip().upper() == b"DONE")})'


def section_mdidle(ctx) -> None:
    from ..mdidle import vrun, PERIOD_TICKS
    cases, descr = [], []
    for n, (acts, compared) in enumerate(md_schedules(ctx)):
        layout = '++' if n % 3 else 'fs'
        replay = {'section': 'mdidle', 'layout': layout,
                  'schedule': [[a[0], a[1].decode('latin-1') if isinstance(a[1], bytes) else a[1]]
                               for a in acts]}
        try:
            o0, recs, problems = vrun(md_play(layout, acts))
        except Exception as exc:   # noqa: BLE001
            ctx.failure('idle_delivery', f'maildir idle run failed: {exc!r} (schedule {acts})', replay,
                        {'kind': 'run_failed'})
            continue
        ctx.count(('mdidle', layout, repr(acts)), nontrivial=True)
        for clause, kind, text in problems[:2]:
            ctx.failure(clause, f'maildir IDLE ({layout}): {text} (schedule {acts})', replay,
                        {'kind': kind})
        if compared:
            obs = '[' + '; '.join(f'({_enc_mact(a)}, {_enc_mobs(r)})' for a, r in zip(acts, recs)) + ']'
            cases.append(f'({PERIOD_TICKS}, {_enc_mobs(o0)}, {obs})')
            descr.append((replay, bool(problems)))
    ctx.sample({'mdidle_schedule': repr(md_schedules(ctx)[0][0])})
    bad = ctx.run_cases('maildir_idle', MD_HEADER, 'nat * mobs * list (maction * mobs)', cases,
                        'chk_mdidle')
    for i in bad:
        replay, failed = descr[i]
        if not failed:
            ctx.disagreement('maildir_idle', replay)
    if bad and all(descr[i][1] for i in bad):
        ctx.broken.append(f'correspondence maildir_idle: {len(bad)} runs of the real maildir idler are '
                          f'not behaviours of the poll-loop model (each also fails a monitor)')


def section_events(ctx) -> None:
    """random operation sequences on real _AsyncioEvent objects vs Sync/MaildirIdle.v ev_*"""
    from ..mdidle import events_run
    cases, descr = [], []
    for _ in range(ctx.scale(150, 1500)):
        ops, n = [], 0
        for _ in range(ctx.rng.randint(2, 9)):
            c = ctx.rng.random()
            if n == 0 or c < 0.25:
                ops.append(('new',))
                n += 1
            elif c < 0.5:
                ops.append(('or', [ctx.rng.randrange(n) for _ in range(ctx.rng.randint(1, 3))]))
                n += 1
            elif c < 0.85:
                ops.append(('set', ctx.rng.randrange(n)))
            else:
                ops.append(('clear', ctx.rng.randrange(n)))
        flags = events_run(ops)
        ctx.count(('events', repr(ops)), nontrivial=any(o[0] == 'or' for o in ops))
        # monitor (docstring of Event.or_event): an or-event made of events that are set later is set
        made = {}
        k = 0
        for op, fl in zip(ops, flags):
            if op[0] in ('new', 'or'):
                if op[0] == 'or':
                    made[k] = set(op[1])
                k += 1
            if op[0] == 'set':
                for o, parts in made.items():
                    if op[1] in parts and not fl[o]:
                        ctx.failure('idle_delivery', f'or_event {o} of {sorted(parts)} not set by '
                                    f'set() of {op[1]} (ops {ops})',
                                    {'section': 'events', 'ops': [list(o) for o in ops]},
                                    {'kind': 'or_event'})

        def enc(op):
            if op[0] == 'new':
                return 'ENew'
            if op[0] == 'or':
                return f'(EOr [{"; ".join(str(i) for i in op[1])}])'
            return f'({"ESet" if op[0] == "set" else "EClear"} {op[1]})'
        cases.append('[' + '; '.join(f'({enc(op)}, [{"; ".join(T.boolean(b) for b in fl)}])'
                                     for op, fl in zip(ops, flags)) + ']')
        descr.append(ops)
    bad = ctx.run_cases('asyncio_event', MD_HEADER, 'list (evop * list bool)', cases, 'chk_events')
    for i in bad[:3]:
        ctx.disagreement('asyncio_event', {'ops': repr(descr[i])})


def run(ctx) -> None:
    ctx.rule = ('every placement of the writers\' bursts relative to the idlers\' drain points '
                '(idlers paused inside writer.drain()), each ended by a client line; after every '
                'action the server runs to quiescence and positions + shadow-client views are '
                'compared with the model; parked-but-undelivered / sequence-rule / DONE monitors')
    ctx.assumptions += [
        'a dict-backend command body runs without suspending (bursts sent in one write are atomic)',
        'asyncio event loop fairness: a task with a ready handle is eventually run',
        'maildir: the poll loop is modelled with a virtual clock in which time passes only while '
        'the idler has nothing to run; a rescan and a command of another session are atomic',
    ]
    ctx.check_proofs(['Sync/IdleCheck', 'Sync/MaildirIdleCheck'])
    recheck = os.environ.get('VERIF_C16_RECHECK', 'true') == 'true'
    only = [x for x in os.environ.get('VERIF_C16_SECTIONS', '').split(',') if x]   # development aid
    for name, fn in (('dict', lambda: section_dict(ctx, recheck)), ('races', lambda: section_races(ctx)),
                     ('maildir', lambda: section_maildir(ctx)), ('mdidle', lambda: section_mdidle(ctx)),
                     ('events', lambda: section_events(ctx))):
        if not only or name in only:
            fn()
    ctx.exhaustive = all(x['all_placements'] for x in ctx.extra.get('idle_exploration', []))


def replay(ctx, data) -> int:
    if data.get('section') == 'dict':
        cfg = data['cfg']
        cfg = (tuple(cfg[0]), cfg[1], cfg[2], cfg[3]) + tuple(
            tuple(x) if isinstance(x, list) else x for x in cfg[4:])
        schedule = tuple(tuple(a) for a in data['schedule'])
        with batch_recorder():
            rec, _, _ = arun(play(ctx, cfg, schedule, 0), timeout=60)
        print('initial:', rec['o0'])
        for a, o in rec['steps']:
            print(a, '->', o)
        return 0
    if data.get('section') == 'mdidle':
        from ..mdidle import vrun
        acts = [(a[0], a[1].encode('latin-1') if a[0] == 'line' else a[1]) for a in data['schedule']]
        o0, recs, problems = vrun(md_play(data['layout'], acts))
        print('after IDLE:', o0['out'])
        for rec in recs:
            print(rec['action'], rec.get('did', ''), '->', rec['out'], 'ended:', rec['ended'])
        for pr in problems:
            print('MONITOR', pr)
        return 0
    if data.get('section') == 'events':
        from ..mdidle import events_run
        ops = [tuple(o) for o in data['ops']]
        for op, fl in zip(ops, events_run(ops)):
            print(op, '->', fl)
        return 0
    if data.get('section') == 'maildir':
        got, out = arun(maildir_scenario(ctx, data['during_drain']), timeout=60)
        print('pushed during IDLE:', got)
        print('answer to DONE:', out)
        return 0
    print('nothing to replay for', data.get('section'))
    return 0
