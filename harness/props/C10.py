"""C10 — message commands behave as the IMAP reference model says.

Proofs: coq/theories/Props/C10.v (model RefModel/Model.v refines the plain spec
RefModel/Spec.v for every program).  Correspondence: random single-session
programs run on the real server (dict and maildir), every response and a full
probe dump of every mailbox after every step are recomputed by the Coq model
(and, in lock step, by the Coq spec) under vm_compute.  Monitor: the Python
reference implementation `harness.refmodel.PyRef`, diffed with the
implementation and (through its predictions) with the Coq spec.
"""
from __future__ import annotations

from .. import coqterm as T
from .. import refmodel as R
from ..pymap_env import run as run_async


def _flag_cases(ctx):
    """flags.py, maildir/flags.py and FetchAttribute.set_seen on their own"""
    from pymap.flags import FlagOp, PermanentFlags, SessionFlags
    from pymap.parsing.specials.flag import Flag
    rng = ctx.rng
    pool = R.SYS5 + [b'\\Recent', b'\\*'] + R.KEYWORDS[:4]

    def fs():
        return [rng.choice(pool) for _ in range(rng.choice([0, 1, 2, 3, 4]))]

    def impl(x):
        return frozenset(Flag(f) for f in x)

    def back(x):
        return [bytes(f) for f in x]
    ops = {'OpReplace': FlagOp.REPLACE, 'OpAdd': FlagOp.ADD, 'OpDelete': FlagOp.DELETE}
    ap, it, su = [], [], []
    # all small cases over a three-flag universe, then random ones
    small = [[], [b'\\Seen'], [b'$kw0'], [b'\\Seen', b'$kw0'], [b'\\Deleted'],
             [b'\\Seen', b'\\Deleted', b'$kw0']]
    pairs = [(a, b) for a in small for b in small] + [(fs(), fs()) for _ in range(ctx.scale(150, 600))]
    for a, b in pairs:
        for on, op in ops.items():
            r = op.apply(impl(a), impl(b))
            ap.append(T.pair(on, R.enc_fset(a), R.enc_fset(b), R.enc_fset(back(r))))
            ctx.count(('apply', on, tuple(a), tuple(b)))
    defs = [[b'\\Seen', b'\\Deleted'], [b'\\*'], [b'\\Seen', b'\\Recent'], [], R.SYS5,
            R.SYS5 + [b'$kw0'], [b'\\Recent']]
    for d in defs + [fs() for _ in range(ctx.scale(30, 80))]:
        for o in small + [fs() for _ in range(4)]:
            r = PermanentFlags(impl(d)).intersect(impl(o))
            it.append(T.pair(R.enc_fset(d), R.enc_fset(o), R.enc_fset(back(r))))
            ctx.count(('intersect', tuple(d), tuple(o)))
            for on, op in ops.items():
                old = fs()
                sf = SessionFlags(impl(d))
                sf._flags[7] = impl(old)
                r2 = sf.update(7, impl(o), op)
                su.append(T.pair(R.enc_fset(d), R.enc_fset(old), R.enc_fset(o), on,
                                 R.enc_fset(back(r2))))
    for nm, typ, cs, chk in (('flagop_apply', 'flagop * fset * fset * fset', ap, 'chk_apply'),
                             ('perm_intersect', 'fset * fset * fset', it, 'chk_intersect'),
                             ('sess_update', 'fset * fset * fset * flagop * fset', su,
                              'chk_sess_update')):
        for i in ctx.run_cases(nm, R.HEADER, typ, cs, chk)[:3]:
            ctx.disagreement(nm, {'case': cs[i]})
    # both backends give a selection no session flag but \Recent (modelling assumption)
    from pymap.backend.mailbox import MailboxDataInterface
    if bytes(b''.join(sorted(bytes(f) for f in MailboxDataInterface.session_flags.fget(None)))) \
            != b'\\Recent':
        ctx.disagreement('session_flags', {'what': 'mailbox session_flags is not {\\Recent}'})
    # maildir: flags -> file-name info -> flags
    import tempfile
    import shutil
    from pymap.backend.maildir.flags import MaildirFlags
    d = tempfile.mkdtemp(prefix='pymapverif-')
    try:
        md = []
        for kws in ([], [b'$kw0', b'kw1'], [b'$kw0', b'$Forwarded', b'NonJunk']):
            with open(f'{d}/dovecot-keywords', 'w') as f:
                for i, k in enumerate(kws):
                    f.write(f'{i} {k.decode()}\n')
            mf = MaildirFlags.file_read(d)
            perm = back(mf.permanent_flags)
            for o in small + [fs() for _ in range(ctx.scale(40, 400))]:
                r = mf.from_maildir(mf.to_maildir(impl(o)))
                md.append(T.pair(R.enc_fset(perm), R.enc_fset(o), R.enc_fset(back(r))))
                ctx.count(('maildir_flags', tuple(kws), tuple(o)))
        for i in ctx.run_cases('maildir_flags', R.HEADER, 'fset * fset * fset', md,
                               'chk_maildir_flags')[:3]:
            ctx.disagreement('maildir_flags', {'case': md[i]})
        # COPY/MOVE between folders: info letters written with one table, read with another
        tables = [[], [b'$kw0', b'kw1'], [b'$Forwarded', b'$kw0'], [b'kw1', b'$kw0', b'NonJunk'],
                  [b'NonJunk']]
        mfs = []
        for kws in tables:
            with open(f'{d}/dovecot-keywords', 'w') as f:
                for i, k in enumerate(kws):
                    f.write(f'{i} {k.decode()}\n')
            mfs.append(MaildirFlags.file_read(d))
        cc = []
        for a, src in enumerate(tables):
            for b, dst in enumerate(tables):
                for o in small + [fs() for _ in range(ctx.scale(12, 120))]:
                    r = mfs[b].from_maildir(mfs[a].to_maildir(impl(o)))
                    cc.append(T.pair(T.lst(R.enc_flag(k) for k in src), T.lst(R.enc_flag(k) for k in dst),
                                     R.enc_fset(o), R.enc_fset(back(r))))
                    ctx.count(('maildir_carry', a, b, tuple(o)))
        for i in ctx.run_cases('maildir_carry', R.HEADER, 'list flag * list flag * fset * fset', cc,
                               'chk_maildir_carry')[:3]:
            ctx.disagreement('maildir_carry', {'case': cc[i]})
    finally:
        shutil.rmtree(d, ignore_errors=True)
    # FetchAttribute.set_seen for every spelling of the menu (and the RFC table)
    from pymap.parsing import Params
    from pymap.parsing.command.select import FetchCommand
    sc = []
    names = {b'BODY': 'ABody', b'BODY.PEEK': 'ABodyPeek', b'BINARY': 'ABinary',
             b'BINARY.PEEK': 'ABinaryPeek', b'BINARY.SIZE': 'ABinarySize', b'RFC822': 'ARfc822',
             b'RFC822.HEADER': 'ARfc822Header', b'RFC822.TEXT': 'ARfc822Text',
             b'RFC822.SIZE': 'ARfc822Size', b'FLAGS': 'AFlags', b'UID': 'AUid',
             b'INTERNALDATE': 'AInternalDate', b'ENVELOPE': 'AEnvelope',
             b'BODYSTRUCTURE': 'ABodyStructure', b'EMAILID': 'AEmailId', b'THREADID': 'AThreadId'}
    for spelling, abstract in R.FETCH_MENU:
        cmd, _ = FetchCommand.parse(memoryview(b' 1 ' + spelling + b'\r\n'), Params(tag=b'a'))
        got = [(names[a.value], a.section is not None, bool(a.set_seen)) for a in cmd.attributes]
        want = [(n, s) for n, s, _c in abstract]
        if [(n, s) for n, s, _ in got] != want:
            ctx.disagreement('fetch_menu', {'spelling': spelling.decode(), 'parsed': repr(got)})
        for n, s, seen in got:
            sc.append(T.pair(f'(mkAttr {n} {T.boolean(s)} false)', T.boolean(seen)))
            ctx.count(('set_seen', n, s))
    for i in ctx.run_cases('set_seen', R.HEADER, 'fattr * bool', sc, 'chk_set_seen')[:3]:
        ctx.disagreement('set_seen', {'case': sc[i]})


STEP_TIMEOUT = 12.0      # seconds without a tagged response = the command is not answered


async def _guard(coro, secs: float = STEP_TIMEOUT):
    import asyncio
    return await asyncio.wait_for(coro, secs)


async def _writer_do(env, state, op) -> list[bytes]:
    """run the interfering writer's lines on its own connection; returns them"""
    if state.get('wconn') is None:
        state['wconn'] = await env.env.login(env.user, env.password)
    lines = []
    for body in R.render_wop(op, env.names):
        line = b'w%d ' % len(state['wlog']) + body + b'\r\n'
        state['wlog'].append(line)
        lines.append(line)
        r = await _guard(state['wconn'].cmd(line))
        tag = line.split(b' ', 1)[0]
        want = b' NO' if body == b'SELECT NoSuchBox' else b' OK'
        if tag + want not in r:
            raise RuntimeError(f'writer: {line!r} -> {r[-200:]!r}')
    return lines


async def _one_program(ctx, kind: str, seed: int, steps: int, weights: dict,
                       first: list | None = None, final=None, observer: bool = False,
                       interfere: float = 0.0, free: bool = False, colon: str | None = None,
                       layout: str = '++', tables=None, salt: str = ''):
    """Run one program; returns (env, init, steps, monitor findings).
    `free`: no discipline after interference (any command, sequence numbers and '*'
    included) and no comparison with the Python reference, which cannot follow what a
    session with an out-of-date view means; such programs are for the Coq model only.
    A step is a command of the session under test ({'cmd', 'out', 'dump', ...}) or a
    change made by ANOTHER connection between two commands ({'ext', 'dump', ...}: queue
    entries whose kind starts with 'w' and, with probability `interfere`, random ones);
    the latter go into the Python reference as plain state changes."""
    import asyncio
    import random
    rng = random.Random(f'{ctx.prop}-{ctx.seed}-{kind}-{seed}{salt}')
    # maildir: every folder has its own dovecot-keywords table; `tables` = None: a generated
    # shape (permuted / overlapping / disjoint / partial / the fixed default), else given
    if kind == 'maildir' and tables is None:
        from .. import c10_kwtables as K
        tables = K.gen_tables(rng)[1]
    elif tables == 'default':
        tables = None
    env = await R.Env(kind, colon, layout, tables).start(
        rng, prefill=rng.choice([0, 3, 6]) if kind == 'maildir' else 0)
    try:
        state = {'ref': None, 'cid': 0, 'problems': [], 'wconn': None, 'wlog': []}

        def nextcid():
            state['cid'] += 1
            while not env.contents.usable(state['cid']):
                state['cid'] += 1
            return state['cid']
        init = await env.dump(learn=True)
        ref = R.PyRef(kind, init)
        state['ref'] = ref
        queue = list(first or [])
        if steps <= 0:
            steps = sum(1 for c in queue if not c['k'].startswith('w'))
        stepsout = []
        obs = None
        # what the session under test has NOT been told yet about its selected mailbox
        dirty_flags = dirty_set = False
        known: list[int] = []           # UIDs it knows (as of its last synchronising command)
        # finding C10-F4: the session renamed its own selected INBOX; its selection is stale
        # by name, but APPEND to / STATUS of the new name still feeds it through the mailbox id
        stale_real = None

        def last_dump():
            return stepsout[-1]['dump'] if stepsout else init

        def ncmds():
            return sum(1 for x in stepsout if 'cmd' in x)
        for k in range(steps):
            if observer and k == 1 and ref.sel is not None:
                # another session that only watches the same mailbox
                obs = await env.env.login(env.user, env.password)
                await obs.send(b'o1 EXAMINE ' + ref.sel[0].encode() + b'\r\n')
            if obs is not None:
                await obs.send(b'o2 NOOP\r\n')
            # ---- interference by another connection, before this step
            wops = []
            while queue and queue[0]['k'].startswith('w'):
                wops.append(queue.pop(0))
            if not queue and interfere and k > 0 and rng.random() < interfere:
                wops += [dict(R.gen_wop(rng, env, ref, nextcid), generated=True)
                         for _ in range(rng.choice([1, 1, 2]))]
            for op in wops:
                if op.pop('generated', False) and not free and op['k'] == 'wstore' and dirty_set \
                        and ref.sel and env.names[op['box']] == ref.sel[0]:
                    # discipline: no \Deleted on a message the session has not been told about
                    # (whether its EXPUNGE / CLOSE removes such a message is not fixed by the RFC)
                    op['uids'] = [u for u in op['uids'] if u in known]
                    if not op['uids']:
                        continue
                if op['k'] == 'wappend' and 'cid' not in op:
                    op['cid'] = nextcid()
                if 'seqs' in op:      # scenario: addressed by position in the reference mailbox
                    have = ref._uids(env.names[op['box']])
                    op['uids'] = [have[q - 1] for q in op['seqs'] if q <= len(have)]
                wlines = await _writer_do(env, state, op)
                ref.interfere(op, env.names)
                if ref.sel and env.names[op['box']] == ref.sel[0]:
                    dirty_flags = True
                    dirty_set = dirty_set or op['k'] != 'wstore'
                wdump = await _guard(env.dump(), 3 * STEP_TIMEOUT)
                wst = {'ext': op, 'wire': b''.join(wlines), 'lines': wlines, 'dump': wdump,
                       'ref_dump': ref.snapshot()}
                stepsout.append(wst)
                if not free and R.canon_dump(wdump) != R.canon_dump(wst['ref_dump']):
                    # the reference's idea of what the OTHER connection did is off: harness problem
                    raise RuntimeError(f'writer effect differs from the reference: {op!r}')
            if queue:
                cmd = queue.pop(0)
            elif dirty_set and not free:
                cmd = R.gen_uid_cmd(rng, env, ref, nextcid, known)   # numbers/'*' would mean the stale view
            else:
                cmd = R.gen_cmd(rng, env, ref, weights, nextcid)
            if cmd['k'] == 'append':
                for m in cmd['msgs']:
                    if 'cid' not in m and not m.get('fail'):
                        m['cid'] = nextcid()
            line = env.tag() + b' ' + R.render(cmd, env.names) + b'\r\n'
            st = {'cmd': cmd, 'wire': line, 'raw': b'', 'out': None, 'dump': last_dump()}
            files_before = env.files()      # maildir: uidlist records and file names on disk
            # ---- watchdog: every command must get its tagged response
            try:
                raw = await _guard(env.conn.cmd(line))
            except asyncio.TimeoutError:
                st['raw'] = bytes(env.conn.out)
                st['out'] = {'cond': None, 'code': None, 'untagged': [], 'extra': []}
                st['ref_out'] = ref.step(cmd, env.names)
                st['ref_dump'] = ref.snapshot()
                stepsout.append(st)
                state['problems'].append(('answered', f'{cmd["k"]}_not_answered', ncmds() - 1, st))
                return env, init, stepsout, state['problems']
            out = R.read_response(raw, env.contents,
                                  'select' if cmd['k'] == 'select' else 'other', env.names)
            st['raw'], st['out'] = raw, out
            if files_before is not None:
                st['files'] = (files_before, env.files())     # before the probe looks
            try:
                dump = await _guard(env.dump(), 3 * STEP_TIMEOUT)
            except asyncio.TimeoutError:
                stepsout.append(st)
                st['ref_out'] = ref.step(cmd, env.names)
                st['ref_dump'] = ref.snapshot()
                state['problems'].append(('answered', f'probe_not_answered_after_{cmd["k"]}',
                                          ncmds() - 1, st))
                return env, init, stepsout, state['problems']
            st['dump'] = dump
            # a fresh UIDVALIDITY is drawn by the server: an oracle value of the command
            if out['cond'] == 'OK' and cmd['k'] in ('create', 'rename'):
                nm = env.names[cmd['box']] if cmd['k'] == 'create' else 'INBOX'
                cmd['uidv'] = next((b['uidv'] for b in dump if b['name'] == nm and not b.get('absent')), 0)
            # ---- monitors (against the property statement, via PyRef)
            was_ro = ref.sel is not None and ref.sel[1]
            stale_named = stale_real is not None and cmd['k'] in ('append', 'status') \
                and env.names[cmd['box']] == stale_real
            if cmd['k'] == 'rename' and out['cond'] == 'OK' and env.names[cmd['from']] == 'INBOX' \
                    and ref.sel is not None and ref.sel[0] == 'INBOX':
                stale_real = env.names[cmd['to']]
            elif cmd['k'] in ('select', 'close', 'create', 'delete', 'rename') and not stale_named:
                stale_real = None
            want = ref.step(cmd, env.names)
            if stale_named and (R.canon_out(out) != R.canon_out(want) or free):
                st['known_deviation'] = True
                st['ref_out'], st['ref_dump'] = want, ref.snapshot()
                stepsout.append(st)
                state['problems'].append(('response', 'stale_selection_fed_by_mailbox_id', ncmds() - 1, st))
                break
            st['ref_out'] = want
            st['ref_dump'] = ref.snapshot()
            kk = ncmds()
            if free:
                # keep the generator's picture of the mailboxes current; no comparison
                sel = ref.sel
                stepsout.append(st)
                ref = R.PyRef(kind, dump)
                ref.sel = sel if sel and sel[0] in ref.boxes and ('BYE',) not in out['untagged'] \
                    and out['cond'] != 'BYE' else None
                if out['cond'] == 'OK' and cmd['k'] == 'select':
                    ref.sel = (env.names[cmd['box']], out['code'] == ('READ-ONLY',))
                if cmd['k'] == 'close' and out['cond'] == 'OK':
                    ref.sel = None
                if cmd['k'] == 'select' and out['cond'] != 'OK':
                    ref.sel = None
                if env.conn.closed or out.get('bye') or out['cond'] == 'BYE' or ('BYE',) in out['untagged']:
                    break
                continue
            if cmd['k'] == 'close' and was_ro and out['cond'] == 'NO':
                # DESIGN §6 row 6 (owned by C05): CLOSE of a read-only selection refused.
                state['problems'].append(('ro_close_ok', 'close_refused_readonly', kk, st))
                break           # the session is still selected: stop comparing here
            stepsout.append(st)
            was_dirty, was_dirty_set = dirty_flags, dirty_set
            if out['cond'] == 'OK' or ref.sel is None:
                # a completed command has synchronised the session with its mailbox
                dirty_flags = dirty_set = False
                known = ref._uids(ref.sel[0]) if ref.sel else []
            if was_dirty:
                # the session had not yet been told about the other connection's change: it may be
                # sent extra untagged data now; what must hold is the tagged result, which messages
                # an EXPUNGE removes, and (below) the contents of every mailbox
                got_c = None if out.get('code') == ('EXPUNGEISSUED',) else out.get('code')
                bad = out['cond'] != want['cond'] or got_c != want.get('code')
                if not was_dirty_set and cmd['k'] == 'expunge':
                    bad = bad or [u for u in out['untagged'] if u[0] == 'EXPUNGE'] != \
                        [u for u in want['untagged'] if u[0] == 'EXPUNGE']
                if bad:
                    state['problems'].append(('response', _classify(cmd, out, want) + '_after_interference',
                                              kk, st))
                    break
            elif R.canon_out(out) != R.canon_out(want):
                state['problems'].append(('response', _classify(cmd, out, want), kk, st))
                break
            if R.canon_dump(dump) != R.canon_dump(st['ref_dump']):
                state['problems'].append(('contents', _classify_dump(cmd, dump, st['ref_dump'])
                                          + ('_after_interference' if was_dirty else ''), kk, st))
                break
            if not all(b['probe_consistent'] for b in dump):
                state['problems'].append(('probe', 'probe_inconsistent', kk, st))
                break
            expected_end = want['cond'] == 'BYE' or ('BYE',) in want['untagged']
            if env.conn.exc is not None and not expected_end:
                state['problems'].append(('response', 'connection_died', kk, st))
                break
            if expected_end:
                break           # the server has closed the connection, as it should
            if out.get('bye') or env.conn.closed:
                # five BAD commands in a row: the server says BYE and hangs up (C05/C06)
                # (the counter is reset by OK responses only: a NO raised as an error keeps it)
                nbad = 0
                for x in reversed([y for y in stepsout if 'cmd' in y]):
                    if x['out']['cond'] == 'OK':
                        break
                    nbad += x['out']['cond'] == 'BAD'
                if nbad < 5 or out['cond'] != 'BAD':
                    state['problems'].append(('response', 'unexpected_bye', kk, st))
                break
        if final is not None:
            state['problems'] += await final(env, init, stepsout)
        return env, init, stepsout, state['problems']
    finally:
        env.close()


def _classify(cmd, got, want) -> str:
    if got['cond'] != want['cond']:
        return f'{cmd["k"]}_condition'
    if got.get('code') != want.get('code'):
        return f'{cmd["k"]}_code'
    return f'{cmd["k"]}_untagged'


def _classify_dump(cmd, got, want) -> str:
    g = {b['name']: b for b in got}
    for w in want:
        b = g[w['name']]
        if bool(b.get('absent')) != bool(w.get('absent')):
            return f'{cmd["k"]}_mailbox_set'
        if w.get('absent'):
            continue
        gm = [(m['uid'], m['cid']) for m in b['msgs']]
        wm = [(m['uid'], m['cid']) for m in w['msgs']]
        if [u for u, _ in gm] != [u for u, _ in wm]:
            return f'{cmd["k"]}_message_set'
        if gm != wm:
            return f'{cmd["k"]}_content'
        if [m['flags'] for m in b['msgs']] != [m['flags'] for m in w['msgs']]:
            return f'{cmd["k"]}_flags'
        if [m['date'] for m in b['msgs']] != [m['date'] for m in w['msgs']]:
            return f'{cmd["k"]}_date'
        if [m['recent'] for m in b['msgs']] != [m['recent'] for m in w['msgs']]:
            return f'{cmd["k"]}_recent'
        if b['maxuid'] != w['maxuid']:
            return f'{cmd["k"]}_uidnext'
    return f'{cmd["k"]}_other'


def _replay_obj(kind, init, steps, k=None):
    def js(o):
        if isinstance(o, (bytes, bytearray)):
            return o.decode('latin-1')
        if isinstance(o, (set, frozenset)):
            return sorted(js(x) for x in o)
        if isinstance(o, dict):
            return {a: js(b) for a, b in o.items()}
        if isinstance(o, (list, tuple)):
            return [js(x) for x in o]
        return o
    return {'backend': kind, 'failing_step': k,
            'maildir_config': next((b['config'] for b in init if b.get('config')), None),
            'keyword_tables': {b['name']: b['kwfile'] for b in init if b.get('kwfile')} or None,
            'program': [js(s['wire']) for s in steps],
            'note': 'lines tagged wN are sent by a second connection between the commands',
            'commands': [js(s.get('cmd') or s.get('ext')) for s in steps],
            'last_response': js(steps[-1].get('raw')) if steps else None,
            'expected_by_reference': js(steps[-1].get('ref_out')) if steps else None,
            'observed': js(steps[-1].get('out')) if steps else None,
            'observed_dump': js(steps[-1]['dump']) if steps else None,
            'expected_dump': js(steps[-1].get('ref_dump')) if steps else None}


# programs are driven in forked worker processes (each with its own servers and event
# loops); everything that touches ctx happens in the parent, in program order
_TASK = {}


def _drive(j: int):
    """worker: run task j; returns picklable results only"""
    t = _TASK
    kind, i, steps = t['items'][j]
    f = t['first'](i) if callable(t['first']) else t['first']
    obs = t['observer'](i) if callable(t['observer']) else bool(t['observer'])
    try:
        env, init, sts, problems = run_async(_one_program(
            t['ctx'], kind, i, steps, t['weights'], f, t['final'], obs,
            t['interfere'], t['free'],
            t['colon'](i) if callable(t['colon']) else t['colon'],
            t['layout'](i) if callable(t['layout']) else t['layout'],
            t['tables'](i) if callable(t['tables']) else t['tables'], t['salt']), 600.0)
    except (TimeoutError, RuntimeError) as exc:
        return {'kind': kind, 'i': i, 'exc': repr(exc), 'stuck': isinstance(exc, TimeoutError),
                'first': repr(f)[:2000]}
    # a Coq case: commands and the other connection's changes (labels LCmd / LExt),
    # up to a command that was not answered
    pure = sts
    for n, x in enumerate(sts):
        if 'cmd' in x and (x['out']['cond'] is None or x.get('known_deviation')):
            pure = sts[:n]      # not answered / an open finding the model does not describe
            break
    return {'kind': kind, 'i': i, 'exc': None, 'init': init, 'sts': sts, 'problems': problems,
            'npure': len(pure), 'case': R.enc_case(env, init, pure) if pure else None}


def _results(n: int):
    import multiprocessing
    import os
    jobs = max(1, min(int(os.environ.get('PV_JOBS', '6')), n))
    if jobs == 1:
        for j in range(n):
            yield _drive(j)
        return
    with multiprocessing.get_context('fork').Pool(jobs) as pool:
        yield from pool.imap(_drive, range(n), chunksize=1)


def run_programs(ctx, label: str, plan: list, weights: dict, first=None, final=None,
                 observer=None, on_program=None, interfere: float = 0.0, free: bool = False,
                 colon: str | None = None, layout: str = '++', tables=None, salt: str = '') -> None:
    """plan: [(kind, n_programs, steps)]"""
    cases, keep = [], []
    hist: dict = {}
    stuck = 0
    _TASK.clear()
    _TASK.update(ctx=ctx, weights=weights, first=first, final=final, observer=observer,
                 interfere=interfere, free=free, colon=colon, layout=layout, tables=tables, salt=salt,
                 items=[(kind, i, steps) for kind, n, steps in plan for i in range(n)])
    for r in _results(len(_TASK['items'])):
        kind, i = r['kind'], r['i']
        if stuck >= 6:      # every further program would only wait for the watchdog again
            ctx.extra.setdefault('stopped_early', []).append(f'{label}/{kind} at program {i}')
            break
        if r['exc'] is not None:
            stuck += r['stuck']
            ctx.failure('answered' if r['stuck'] else 'response',
                        f'{kind}: program {label}/{i} did not finish: {r["exc"]}',
                        {'backend': kind, 'label': label, 'index': i, 'first': r['first']},
                        {'kind': 'program_stuck' if r['stuck'] else 'writer_refused',
                         'backend': kind})
            continue
        init, sts, problems = r['init'], r['sts'], r['problems']
        if kind == 'maildir':
            # input distribution: how the folders' keyword tables relate in this program
            tabs = [dict(b['kwfile']) for b in init if b.get('kwfile')]
            pairs = [(x, y) for n, x in enumerate(tabs) for y in tabs[n + 1:]]
            shape = ('same_set_other_numbers' if any(set(x.values()) == set(y.values()) and x != y
                                                     for x, y in pairs)
                     else 'overlapping_sets' if any(set(x.values()) & set(y.values()) and x != y
                                                    for x, y in pairs)
                     else 'identical_disjoint_or_single')
            sh = ctx.extra.setdefault('keyword_table_shapes', {}).setdefault(label, {})
            sh[shape] = sh.get(shape, 0) + 1
        if on_program is not None:
            on_program(kind, init, sts)
        for clause, cls, k, st in problems:
            stuck += clause == 'answered'
            obs = {'kind': cls, 'backend': kind}
            all_steps = sts if st in sts else sts + [st]
            ctx.failure(clause, f'{kind}: step {k} ({st["wire"][:60]!r}): {cls}',
                        _replay_obj(kind, init, all_steps, k), obs)
        for s in sts:
            if 'ext' in s:
                hist['(other connection) ' + s['ext']['k']] = \
                    hist.get('(other connection) ' + s['ext']['k'], 0) + 1
                continue
            key = s['cmd']['k'] + ('.uid' if s['cmd'].get('uid') else '')
            hist[key] = hist.get(key, 0) + 1
            ctx.count((kind, s['wire'], repr(R.canon_out(s['out']))),
                      nontrivial=s['out']['cond'] == 'OK')
        if r['case'] is not None:
            cases.append(r['case'])
            keep.append((kind, init, sts[:r['npure']]))
    _TASK.clear()

    ctx.extra.setdefault('command_histogram', {})[label] = hist
    if keep:
        ctx.sample({'program': [s['wire'].decode('latin-1')[:200] for s in keep[-1][2]][:8],
                    'backend': keep[-1][0]})
    bad = ctx.run_cases(label, R.HEADER, 'case', cases, 'chk_case',
                        shard=max(5, min(25, -(-len(cases) // 8))))
    for i in bad[:5]:
        kind, init, sts = keep[i]
        # which one differs?  if the case built from PyRef's predictions passes,
        # the implementation deviates from both references
        ctx.disagreement(label, {'backend': kind,
                                 'program': [s['wire'].decode('latin-1') for s in sts],
                                 'diag': _diag(ctx, cases[i])})


def _diag(ctx, case: str) -> str:
    from .. import coqrun
    out = coqrun.eval_term(ctx.prop, 'diag', R.HEADER,
                           f'map (fun x => (fst (fst (fst x)), snd (fst (fst x)), snd (fst x))) '
                           f'(diag_case {case})')
    return out[-600:]


# ------------------------------------------- maildir folders with different keyword tables
async def _keyword_tables(ctx) -> None:
    """COPY/MOVE between maildir folders whose dovecot-keywords files differ: a
    keyword the destination cannot store may be dropped, but no flag may turn
    into another one (monitor only; the model covers one shared table)."""
    import os
    from ..pymap_env import MaildirEnv
    env = await MaildirEnv().start()
    try:
        c = await env.login()
        await c.send(b'c CREATE Work\r\n')
        await c.send(b'c LOGOUT\r\n')
        base = os.path.join(env.base, 'u1')
        tables = {'INBOX': [b'$kw0', b'kw1'], 'Work': [b'$Forwarded', b'$kw0']}
        for name, kws in tables.items():
            path = base if name == 'INBOX' else os.path.join(base, '.' + name)
            with open(os.path.join(path, 'dovecot-keywords'), 'w') as f:
                for i, k in enumerate(kws):
                    f.write(f'{i} {k.decode()}\n')
        c = await env.login()
        lit = R.content(1)
        await c.cmd(b'a APPEND INBOX ($kw0 \\Seen) ' + R.render_date(10 ** 9) + b' {%d}\r\n' % len(lit)
                    + lit + b'\r\n')
        await c.cmd(b'a APPEND INBOX (kw1) ' + R.render_date(10 ** 9) + b' {%d}\r\n' % len(lit)
                    + lit + b'\r\n')
        await c.send(b'a SELECT INBOX\r\n')
        prog = [b'a COPY 1:2 Work\r\n', b'a MOVE 1:2 Work\r\n']
        for line in prog:
            await c.send(line)
        await c.send(b'a EXAMINE Work\r\n')
        r = await c.send(b'a FETCH 1:* FLAGS\r\n')
        out = R.read_response(r, R.Contents(), 'other')
        got = [sorted(u[3] - {b'\\Recent'}) for u in out['untagged'] if u[0] == 'FETCH']
        # kw1 has no letter in Work: dropped; everything else must arrive as it was
        src = [{b'$kw0', b'\\Seen'}, set()] * 2
        for k, fl in enumerate(got):
            ctx.count(('keyword_tables', k, tuple(fl)))
            if set(fl) != src[k % 4]:
                ctx.failure('contents',
                            f'maildir: flags {sorted(src[k % 4])} arrive in a folder with another '
                            f'keyword table as {fl}',
                            {'backend': 'maildir', 'keyword_tables': {a: [x.decode() for x in b]
                                                                     for a, b in tables.items()},
                             'program': ['APPEND INBOX ($kw0 \\Seen)', 'APPEND INBOX (kw1)', 'SELECT INBOX']
                             + [x.decode() for x in prog] + ['EXAMINE Work', 'FETCH 1:* FLAGS'],
                             'observed_flags_in_Work': [[x.decode() for x in f] for f in got]},
                            {'kind': 'maildir_keyword_letters', 'backend': 'maildir'})
                break
    finally:
        env.close()


# ------------------------------------------------------------------ scenarios
def _sel(box, ro=False):
    return {'k': 'select', 'box': box, 'ro': ro}


def _am(flags=(), date=1_000_000_000, fail=False):
    m = {'flags': [R.canon_flag(f) for f in flags], 'spelled': list(flags), 'date': date, 'zone': 0}
    if fail:
        m['fail'] = True
    return m


def _app(box, flags=(), date=1_000_000_000):
    return {'k': 'append', 'box': box, 'msgs': [_am(flags, date)]}


def _mapp(box, *msgs):
    return {'k': 'append', 'box': box, 'msgs': list(msgs)}


def _store(ss, op, flags, uid=False, silent=False):
    return {'k': 'store', 'uid': uid, 'ss': ss, 'op': op, 'silent': silent,
            'flags': [R.canon_flag(f) for f in flags], 'spelled': list(flags)}


def _fetch(ss, attrs, uid=False):
    return {'k': 'fetch', 'uid': uid, 'ss': ss, 'attrs': attrs}


def _cm(k, ss, dest, uid=False):
    return {'k': k, 'uid': uid, 'ss': ss, 'dest': dest}


ALL = [(1, '*')]
SETS = [[1], [4], [5], ['*'], [(1, '*')], [('*', 1)], [(3, 2)], [(2, 9)], [(9, 2)], [9],
        [('*', '*')], [1, 1], [(1, 2), (2, 3)], [4294967295], [(4294967295, '*')], [(2, '*'), 1],
        [(101, 103)], [(103, '*')], [('*', 102)], [104, 101], [(100, 101)], [(105, '*')], [2, 3, 4]]


def scenarios(kind: str) -> list:
    D, S, X = b'\\Deleted', b'\\Seen', [{'k': 'expunge', 'ss': None}]
    out = []
    # a message moved out of a mailbox and back (maildir: the file name comes back)
    out.append([_app(0), _sel(0), _cm('move', ['*'], 1), _sel(1), _cm('move', ['*'], 0), _sel(0),
                _fetch(ALL, 2), _cm('move', ALL, 1, True), _sel(1), _cm('copy', ALL, 0), _sel(0),
                _fetch(ALL, 2, True), {'k': 'close'}])
    # MOVE / COPY with the selected mailbox itself as destination
    out.append([_app(0, [S]), _app(0, [D]), _sel(0), _cm('move', [1], 0), _fetch(ALL, 1),
                _cm('copy', ALL, 0), _fetch(ALL, 2), _cm('move', ALL, 0, True), _fetch(ALL, 2),
                _store(ALL, 'add', [D]), {'k': 'close'}, _sel(0)])
    # \Recent: delivery into an examined / a selected / an unselected mailbox
    out.append([_sel(1, True), _app(1), _fetch(['*'], 0), {'k': 'close'}, _app(1), _sel(1),
                _fetch(ALL, 0), _app(1), _cm('copy', ['*'], 1), _fetch(ALL, 0), {'k': 'close'},
                _sel(1), _fetch(ALL, 0), _sel(1, True), _sel(0), _cm('copy', [1], 1), _sel(1),
                _fetch(ALL, 1)])
    # implicit \Seen for every attribute list of the menu
    prog = [_app(0), _sel(0)]
    for a in range(len(R.FETCH_MENU)):
        prog += [_store(['*'], 'delete', [S], silent=True), _fetch(['*'], a, uid=a % 2 == 1)]
    out.append(prog)
    prog = [_app(0), _sel(0, True)]
    for a in range(len(R.FETCH_MENU)):
        prog += [_fetch(['*'], a, uid=a % 2 == 0)]
    out.append(prog)
    # an emptied mailbox: '*' and 1:* on nothing
    out.append([_sel(1), _store(ALL, 'add', [D]), X[0], _fetch(['*'], 0), _fetch(ALL, 2, True),
                _store(['*'], 'add', [S]), _cm('copy', ['*'], 0), _cm('move', ALL, 0),
                {'k': 'expunge', 'ss': ALL}, _app(1), _fetch(['*'], 1), {'k': 'close'}])
    # STORE: three modes, .SILENT, keywords, \Recent, repeated flags
    kw = [b'$kw0', b'kw1', b'\\Recent', b'\\Custom']
    prog = [_sel(0)]
    for op in ('replace', 'add', 'delete'):
        for fl in ([S], [D, b'\\Flagged'], kw, [S, S], [], [b'\\SEEN', b'$KW0']):
            prog += [_store([1, '*'], op, fl, silent=op == 'add'), _store([(2, 3)], op, fl, uid=True)]
    prog += [_fetch(ALL, 1)]
    out.append(prog)
    # every shape of sequence set, as sequence numbers and as UIDs
    prog = [_sel(0)]
    for ss in SETS:
        prog += [_fetch(ss, 0), _fetch(ss, 0, True)]
    out.append(prog)
    prog = [_app(0), _app(0), _app(0), _app(0), _sel(0), _store(ALL, 'add', [D])]
    for ss in SETS[:12]:
        prog += [{'k': 'expunge', 'ss': ss}, _fetch(ALL, 1)]
    out.append(prog)
    for ss in SETS:
        out.append([_app(0), _app(0), _sel(0), _store(ss, 'add', [b'\\Flagged']),
                    _cm('copy', ss, 1), _cm('copy', ss, 1, True), _cm('move', ss, 1, ss == SETS[0]),
                    _fetch(ALL, 1)])
    # another connection changes flags / delivers / expunges between two commands: EXPUNGE,
    # UID EXPUNGE and CLOSE must act on the flags the messages have NOW
    def w(k, **kw):
        return dict({'k': k, 'box': 0, 'spelled': kw.get('flags', []), 'date': 10 ** 9}, **kw)
    three = [_app(0), _app(0, [S]), _app(0), _sel(0)]
    out.append(three + [w('wstore', seqs=[2], op='add', flags=[D]), X[0], _fetch(ALL, 1)])
    out.append(three + [_store([3], 'add', [D]), w('wstore', seqs=[3], op='delete', flags=[D]), X[0],
                        _fetch(ALL, 1)])
    out.append(three + [_store([3], 'add', [D]), w('wstore', seqs=[3], op='delete', flags=[D]),
                        {'k': 'close'}, _sel(0), _fetch(ALL, 1)])
    out.append(three + [w('wstore', seqs=[1, 3], op='add', flags=[D]), {'k': 'close'}, _sel(0),
                        _fetch(ALL, 1)])
    out.append(three + [_store(ALL, 'add', [D]), w('wstore', seqs=[1], op='replace', flags=[S]),
                        {'k': 'expunge', 'ss': ALL}, _fetch(ALL, 1)])
    out.append(three + [w('wstore', seqs=[1], op='add', flags=[b'\\Flagged']),
                        _store([1], 'add', [S]), w('wstore', seqs=[2], op='add', flags=[D]),
                        _fetch([2], 4), w('wstore', seqs=[2], op='delete', flags=[S]),
                        _store([2], 'delete', [D], silent=True), X[0], _fetch(ALL, 1)])
    out.append(three + [w('wstore', seqs=[1], op='add', flags=[D]), w('wexpunge'), X[0],
                        _fetch(ALL, 1), w('wappend', flags=[b'\\Flagged']), X[0], _fetch(ALL, 1),
                        w('wappend', flags=[S]), {'k': 'close'}, _sel(0), _fetch(ALL, 1)])
    # NOOP / CHECK / STATUS / SEARCH; MULTIAPPEND incl. a message the backend refuses
    st = lambda b: {'k': 'status', 'box': b}                                   # noqa: E731
    se = lambda uid, *keys: {'k': 'search', 'uid': uid, 'keys': list(keys)}    # noqa: E731
    fk = lambda f, e=True: ('flag', f, e)                                      # noqa: E731
    out.append([{'k': 'noop'}, {'k': 'check'}, st(0), st(1), st(3), _sel(0), st(0), st(1),
                {'k': 'noop'}, {'k': 'check'}, _app(0), st(0), _app(1), st(1), {'k': 'close'}, st(0)])
    prog = [_mapp(0, _am([S]), _am([D, b'$kw0']), _am([b'\\Flagged', b'\\Recent'])), _sel(0)]
    for uid in (False, True):
        prog += [se(uid, ('all',)), se(uid, fk(S)), se(uid, fk(S, False)), se(uid, fk(D), fk(b'$kw0')),
                 se(uid, fk(b'\\Recent')), se(uid, fk(b'\\Recent', False)), se(uid, ('new',)),
                 se(uid, ('not', fk(D))), se(uid, ('or', fk(S), fk(b'\\Flagged'))),
                 se(uid, ('set', False, [(2, '*')])), se(uid, ('set', True, [(1, '*')]), fk(S, False)),
                 se(uid, ('set', False, [9]), ('all',)), se(uid, ('set', True, [('*', 1)]), ('set', False, [1, 2])),
                 se(uid, fk(b'kw1', False), fk(b'\\Answered', False))]
    out.append(prog)
    out.append([_sel(0), _mapp(0, _am([S]), _am([D])), _fetch(ALL, 1), _mapp(1, _am(), _am([S]), _am([D])),
                _sel(1), _fetch(ALL, 2), _mapp(1, _am([S]), _am(fail=True), _am([D]))])
    out.append([_sel(1), _mapp(1, _am(fail=True))])
    out.append([_mapp(0, _am([S]), _am([D]), _am(fail=True)), _sel(0)])
    # CREATE / DELETE / RENAME inside a program; the selection keeps its name
    cr = lambda b: {'k': 'create', 'box': b}                                   # noqa: E731
    de = lambda b: {'k': 'delete', 'box': b}                                   # noqa: E731
    rn = lambda a, b: {'k': 'rename', 'from': a, 'to': b}                      # noqa: E731
    out.append([cr(0), cr(1), cr(4), cr(4), _app(4, [S]), _sel(4), _fetch(ALL, 2), rn(1, 5), st(5), st(1),
                _cm('copy', ALL, 5), de(3), de(0), de(5), st(5), rn(3, 1), rn(4, 0), rn(1, 4), cr(1),
                _app(1), rn(4, 3)])
    out.append([_sel(1), _store(ALL, 'add', [b'\\Flagged']), rn(1, 4), _fetch(ALL, 1)])
    out.append([_sel(1), de(1), _fetch(ALL, 1)])
    out.append([_sel(1, True), rn(0, 5), st(0), st(5), _sel(5), _fetch(ALL, 2), _app(0), _sel(0),
                _fetch(ALL, 2), rn(5, 3), _cm('move', ALL, 3), _sel(3), _fetch(ALL, 2)]
               if kind == 'dict' else
               [_sel(1, True), rn(0, 5), st(0), st(5), cr(5), _sel(5), _app(5), _fetch(ALL, 2), de(5),
                {'k': 'close'}, cr(5), _sel(5), _fetch(ALL, 2), st(5)])
    if kind == 'dict':      # the selected INBOX itself is renamed: the selection goes stale
        for ro in (False, True):
            out.append([_sel(0, ro), rn(0, 5), {'k': 'noop'}, _fetch(ALL, 1), _store([1], 'add', [S]),
                        se(False, ('all',)), X[0], _cm('copy', [1], 1), _cm('move', [1], 1), _app(1),
                        {'k': 'check'}, st(5), _sel(0)])
        out.append([_sel(0), rn(0, 5), {'k': 'close'}, _sel(5), _fetch(ALL, 2), _sel(0), _fetch(ALL, 2)])
        # open finding C10-F4: APPEND to / STATUS of the new name still feeds the stale selection
        out.append([_sel(0, True), rn(0, 5), _app(5, [S])])
        out.append([_sel(0), rn(0, 5), st(5)])
    # read-only: every command after EXAMINE and in the read-only mailbox
    for first in ([_sel(0, True)], [_sel(2)] if kind == 'dict' else [_sel(2, True)]):
        out.append(first + [_store(ALL, 'add', [D]), _store(ALL, 'add', [S], True, True), X[0],
                            {'k': 'expunge', 'ss': ALL}, _cm('move', ALL, 1), _cm('move', ALL, 1, True),
                            _cm('copy', ALL, 2), _cm('copy', ALL, 1), _fetch(ALL, 4), _fetch(ALL, 9),
                            _app(2), _app(3), {'k': 'close'}, _fetch(ALL, 0), {'k': 'close'}])
    return out


def run(ctx) -> None:
    ctx.rule = ('a case is one random single-session program (SELECT/EXAMINE, APPEND, STORE '
                '(3 modes, .SILENT), EXPUNGE, UID EXPUNGE, COPY, MOVE, FETCH (33 attribute lists), '
                'CLOSE and UID variants; sequence sets with ranges, reversed ranges, *, '
                'out-of-range, duplicates, huge numbers; flags incl. keywords, odd case, '
                '\\Recent) on a fresh dict or maildir server with every response and a full '
                'probe dump after every step; non-trivial = the command answered OK; '
                'distinct = by (backend, command bytes, canonical response)')
    ctx.assumptions += [
        'one session issues the commands, a second (probe) session only runs STATUS / EXAMINE / '
        'UID FETCH ... BODY.PEEK[] / CLOSE; concurrency is C01/C02',
        'the session view is modelled as a full resynchronisation after every command',
        'message bytes are abstracted to content ids (byte exactness is C03)',
    ]
    import os
    import sys
    import time as _time
    _t0 = [_time.time()]

    def _lap(what):
        if os.environ.get('PV_TIMING'):
            print(f'[timing] {what}: {_time.time() - _t0[0]:.1f}s', file=sys.stderr)
        _t0[0] = _time.time()
    ctx.check_proofs(['RefModel/Check', 'RefModel/KwTablesCheck'])
    _lap('check_proofs')
    _flag_cases(ctx)
    from .. import c10_kwtables as K
    K.dest_flags_cases(ctx)
    _lap('flag_cases')
    nd = ctx.scale(300, 1600)
    nm = ctx.scale(60, 300)
    run_async(_keyword_tables(ctx))
    for kind in ('dict', 'maildir'):
        sc = scenarios(kind)
        run_programs(ctx, f'scenarios_{kind}', [(kind, len(sc), 0)], R.C10_WEIGHTS,
                     first=lambda i, sc=sc: sc[i], tables='default')
        _lap(f'scenarios_{kind}')
    # maildir folders whose dovecot-keywords tables are permutations of one another / overlap
    # / are disjoint / differ in length: every COPY / MOVE form in both directions
    ksc = K.scenarios()
    run_programs(ctx, 'kwtable_scenarios', [('maildir', len(ksc), 0)], R.C10_WEIGHTS,
                 first=lambda i: ksc[i][2], tables=lambda i: ksc[i][1])
    run_programs(ctx, 'kwtable_programs', [('maildir', ctx.scale(20, 150), 16)], K.WEIGHTS, salt='-kw')
    _lap('kwtables')
    run_programs(ctx, 'programs', [('dict', nd, 20), ('maildir', nm, 20)], R.C10_WEIGHTS)
    _lap('programs')
    # the same with a second connection writing in between (monitor: Python reference)
    ni = ctx.scale(40, 250)
    run_programs(ctx, 'interference', [('dict', ni, 16), ('maildir', ni, 16)], R.C10_WEIGHTS,
                 interfere=0.35)
    _lap('interference')
    # ... and without any discipline after the interference (sequence numbers and '*' of a
    # session that has not been told yet): Coq model only
    run_programs(ctx, 'interference_free', [('dict', ni, 16), ('maildir', ni, 16)], R.C10_WEIGHTS,
                 interfere=0.35, free=True)
    _lap('interference_free')
    # maildir with a non-default info delimiter (--colon '!'): every folder must use it
    csc = [[_app(0, [b'\\Deleted']), _app(0, [b'\\Seen', b'\\Flagged']), _sel(0), _cm('move', [1], 1),
            _cm('copy', [1], 1), _sel(1, True), _fetch(ALL, 1), _sel(1), _store(ALL, 'add', [b'\\Answered']),
            _cm('move', ALL, 0), _sel(0, True), _fetch(ALL, 1), {'k': 'check'}, _fetch(ALL, 1)]]
    run_programs(ctx, 'colon_scenario', [('maildir', len(csc), 0)], R.C10_WEIGHTS,
                 first=lambda i: csc[i], colon='!')
    run_programs(ctx, 'colon_programs', [('maildir', ctx.scale(12, 80), 16)], R.C10_WEIGHTS, colon='!')
    _lap('colon')


def replay(ctx, obj) -> int:
    print('backend', obj.get('backend'), 'failing step', obj.get('failing_step'))
    for ln in obj.get('program', []):
        print('C:', ln.rstrip())
    print('observed', obj.get('observed'))
    print('expected', obj.get('expected_by_reference'))
    return 0
