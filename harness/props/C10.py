"""C10 — message commands behave as the IMAP reference model says.

Proofs: coq/theories/Props/C10.v (model RefModel/Model.v refines the plain spec
RefModel/Spec.v for every program).  Correspondence: random single-session
programs run on the real server (dict and maildir), every response and a full
probe dump of every mailbox after every step are recomputed by the Coq model
(and, in lock step, by the Coq spec) under vm_compute.  Monitor: the Python
reference implementation `harness.refmodel.PyRef`, diffed with the
implementation and (through its predictions) with the Coq spec.
"""
from __future__ import annotations

from .. import coqterm as T
from .. import refmodel as R
from ..pymap_env import run as run_async


def _flag_cases(ctx):
    """flags.py, maildir/flags.py and FetchAttribute.set_seen on their own"""
    from pymap.flags import FlagOp, PermanentFlags, SessionFlags
    from pymap.parsing.specials.flag import Flag
    rng = ctx.rng
    pool = R.SYS5 + [b'\\Recent', b'\\*'] + R.KEYWORDS[:4]

    def fs():
        return [rng.choice(pool) for _ in range(rng.choice([0, 1, 2, 3, 4]))]

    def impl(x):
        return frozenset(Flag(f) for f in x)

    def back(x):
        return [bytes(f) for f in x]
    ops = {'OpReplace': FlagOp.REPLACE, 'OpAdd': FlagOp.ADD, 'OpDelete': FlagOp.DELETE}
    ap, it, su = [], [], []
    # all small cases over a three-flag universe, then random ones
    small = [[], [b'\\Seen'], [b'$kw0'], [b'\\Seen', b'$kw0'], [b'\\Deleted'],
             [b'\\Seen', b'\\Deleted', b'$kw0']]
    pairs = [(a, b) for a in small for b in small] + [(fs(), fs()) for _ in range(ctx.scale(150, 3000))]
    for a, b in pairs:
        for on, op in ops.items():
            r = op.apply(impl(a), impl(b))
            ap.append(T.pair(on, R.enc_fset(a), R.enc_fset(b), R.enc_fset(back(r))))
            ctx.count(('apply', on, tuple(a), tuple(b)))
    defs = [[b'\\Seen', b'\\Deleted'], [b'\\*'], [b'\\Seen', b'\\Recent'], [], R.SYS5,
            R.SYS5 + [b'$kw0'], [b'\\Recent']]
    for d in defs + [fs() for _ in range(ctx.scale(30, 1000))]:
        for o in small + [fs() for _ in range(4)]:
            r = PermanentFlags(impl(d)).intersect(impl(o))
            it.append(T.pair(R.enc_fset(d), R.enc_fset(o), R.enc_fset(back(r))))
            ctx.count(('intersect', tuple(d), tuple(o)))
            for on, op in ops.items():
                old = fs()
                sf = SessionFlags(impl(d))
                sf._flags[7] = impl(old)
                r2 = sf.update(7, impl(o), op)
                su.append(T.pair(R.enc_fset(d), R.enc_fset(old), R.enc_fset(o), on,
                                 R.enc_fset(back(r2))))
    for nm, typ, cs, chk in (('flagop_apply', 'flagop * fset * fset * fset', ap, 'chk_apply'),
                             ('perm_intersect', 'fset * fset * fset', it, 'chk_intersect'),
                             ('sess_update', 'fset * fset * fset * flagop * fset', su,
                              'chk_sess_update')):
        for i in ctx.run_cases(nm, R.HEADER, typ, cs, chk)[:3]:
            ctx.disagreement(nm, {'case': cs[i]})
    # both backends give a selection no session flag but \Recent (modelling assumption)
    from pymap.backend.mailbox import MailboxDataInterface
    if bytes(b''.join(sorted(bytes(f) for f in MailboxDataInterface.session_flags.fget(None)))) \
            != b'\\Recent':
        ctx.disagreement('session_flags', {'what': 'mailbox session_flags is not {\\Recent}'})
    # maildir: flags -> file-name info -> flags
    import tempfile
    import shutil
    from pymap.backend.maildir.flags import MaildirFlags
    d = tempfile.mkdtemp(prefix='pymapverif-')
    try:
        md = []
        for kws in ([], [b'$kw0', b'kw1'], [b'$kw0', b'$Forwarded', b'NonJunk']):
            with open(f'{d}/dovecot-keywords', 'w') as f:
                for i, k in enumerate(kws):
                    f.write(f'{i} {k.decode()}\n')
            mf = MaildirFlags.file_read(d)
            perm = back(mf.permanent_flags)
            for o in small + [fs() for _ in range(ctx.scale(40, 400))]:
                r = mf.from_maildir(mf.to_maildir(impl(o)))
                md.append(T.pair(R.enc_fset(perm), R.enc_fset(o), R.enc_fset(back(r))))
                ctx.count(('maildir_flags', tuple(kws), tuple(o)))
        for i in ctx.run_cases('maildir_flags', R.HEADER, 'fset * fset * fset', md,
                               'chk_maildir_flags')[:3]:
            ctx.disagreement('maildir_flags', {'case': md[i]})
    finally:
        shutil.rmtree(d, ignore_errors=True)
    # FetchAttribute.set_seen for every spelling of the menu (and the RFC table)
    from pymap.parsing import Params
    from pymap.parsing.command.select import FetchCommand
    sc = []
    names = {b'BODY': 'ABody', b'BODY.PEEK': 'ABodyPeek', b'BINARY': 'ABinary',
             b'BINARY.PEEK': 'ABinaryPeek', b'BINARY.SIZE': 'ABinarySize', b'RFC822': 'ARfc822',
             b'RFC822.HEADER': 'ARfc822Header', b'RFC822.TEXT': 'ARfc822Text',
             b'RFC822.SIZE': 'ARfc822Size', b'FLAGS': 'AFlags', b'UID': 'AUid',
             b'INTERNALDATE': 'AInternalDate', b'ENVELOPE': 'AEnvelope',
             b'BODYSTRUCTURE': 'ABodyStructure', b'EMAILID': 'AEmailId', b'THREADID': 'AThreadId'}
    for spelling, abstract in R.FETCH_MENU:
        cmd, _ = FetchCommand.parse(memoryview(b' 1 ' + spelling + b'\r\n'), Params(tag=b'a'))
        got = [(names[a.value], a.section is not None, bool(a.set_seen)) for a in cmd.attributes]
        want = [(n, s) for n, s, _c in abstract]
        if [(n, s) for n, s, _ in got] != want:
            ctx.disagreement('fetch_menu', {'spelling': spelling.decode(), 'parsed': repr(got)})
        for n, s, seen in got:
            sc.append(T.pair(f'(mkAttr {n} {T.boolean(s)} false)', T.boolean(seen)))
            ctx.count(('set_seen', n, s))
    for i in ctx.run_cases('set_seen', R.HEADER, 'fattr * bool', sc, 'chk_set_seen')[:3]:
        ctx.disagreement('set_seen', {'case': sc[i]})


async def _one_program(ctx, kind: str, seed: int, steps: int, weights: dict,
                       first: list | None = None):
    """Run one random program; returns (env-kind, init, steps, monitor findings)."""
    import random
    rng = random.Random(f'{ctx.prop}-{ctx.seed}-{kind}-{seed}')
    env = await R.Env(kind).start(rng, prefill=rng.choice([0, 3, 6]) if kind == 'maildir' else 0)
    try:
        state = {'ref': None, 'cid': 0, 'problems': []}

        def nextcid():
            state['cid'] += 1
            while not env.contents.usable(state['cid']):
                state['cid'] += 1
            return state['cid']
        init = await env.dump(learn=True)
        ref = R.PyRef(kind, init)
        state['ref'] = ref
        queue = list(first or [])
        stepsout = []
        for k in range(steps):
            cmd = queue.pop(0) if queue else R.gen_cmd(rng, env, ref, weights, nextcid)
            if cmd['k'] == 'append' and 'cid' not in cmd:
                cmd['cid'] = nextcid()
            line = env.tag() + b' ' + R.render(cmd, env.names) + b'\r\n'
            raw = await env.conn.cmd(line)
            out = R.read_response(raw, env.contents,
                                  'select' if cmd['k'] == 'select' else 'other')
            dump = await env.dump()
            st = {'cmd': cmd, 'wire': line, 'raw': raw, 'out': out, 'dump': dump}
            # ---- monitors (against the property statement, via PyRef)
            was_ro = ref.sel is not None and ref.sel[1]
            want = ref.step(cmd, env.names)
            st['ref_out'] = want
            st['ref_dump'] = ref.snapshot()
            if cmd['k'] == 'close' and was_ro and out['cond'] == 'NO':
                # DESIGN §6 row 6 (owned by C05): CLOSE of a read-only selection refused.
                state['problems'].append(('ro_close_ok', 'close_refused_readonly', k, st))
                break           # the session is still selected: stop comparing here
            stepsout.append(st)
            if R.canon_out(out) != R.canon_out(want):
                state['problems'].append(('response', _classify(cmd, out, want), k, st))
                break
            if R.canon_dump(dump) != R.canon_dump(st['ref_dump']):
                state['problems'].append(('contents', _classify_dump(cmd, dump, st['ref_dump']),
                                          k, st))
                break
            if not all(b['probe_consistent'] for b in dump):
                state['problems'].append(('probe', 'probe_inconsistent', k, st))
                break
            if env.conn.exc is not None or (
                    env.conn.closed and not all(x['out']['cond'] == 'BAD' for x in stepsout[-5:])):
                state['problems'].append(('response', 'connection_died', k, st))
                break
            if env.conn.closed:      # five BAD commands in a row: the server hangs up (C05/C06)
                break
        return env, init, stepsout, state['problems']
    finally:
        env.close()


def _classify(cmd, got, want) -> str:
    if got['cond'] != want['cond']:
        return f'{cmd["k"]}_condition'
    if got.get('code') != want.get('code'):
        return f'{cmd["k"]}_code'
    return f'{cmd["k"]}_untagged'


def _classify_dump(cmd, got, want) -> str:
    g = {b['name']: b for b in got}
    for w in want:
        b = g[w['name']]
        gm = [(m['uid'], m['cid']) for m in b['msgs']]
        wm = [(m['uid'], m['cid']) for m in w['msgs']]
        if [u for u, _ in gm] != [u for u, _ in wm]:
            return f'{cmd["k"]}_message_set'
        if gm != wm:
            return f'{cmd["k"]}_content'
        if [m['flags'] for m in b['msgs']] != [m['flags'] for m in w['msgs']]:
            return f'{cmd["k"]}_flags'
        if [m['date'] for m in b['msgs']] != [m['date'] for m in w['msgs']]:
            return f'{cmd["k"]}_date'
        if [m['recent'] for m in b['msgs']] != [m['recent'] for m in w['msgs']]:
            return f'{cmd["k"]}_recent'
        if b['maxuid'] != w['maxuid']:
            return f'{cmd["k"]}_uidnext'
    return f'{cmd["k"]}_other'


def _replay_obj(kind, init, steps, k=None):
    def js(o):
        if isinstance(o, (bytes, bytearray)):
            return o.decode('latin-1')
        if isinstance(o, (set, frozenset)):
            return sorted(js(x) for x in o)
        if isinstance(o, dict):
            return {a: js(b) for a, b in o.items()}
        if isinstance(o, (list, tuple)):
            return [js(x) for x in o]
        return o
    return {'backend': kind, 'failing_step': k,
            'program': [js(s['wire']) for s in steps],
            'commands': [js(s['cmd']) for s in steps],
            'last_response': js(steps[-1]['raw']) if steps else None,
            'expected_by_reference': js(steps[-1].get('ref_out')) if steps else None,
            'observed': js(steps[-1]['out']) if steps else None,
            'observed_dump': js(steps[-1]['dump']) if steps else None,
            'expected_dump': js(steps[-1].get('ref_dump')) if steps else None}


def run_programs(ctx, label: str, plan: list, weights: dict, first=None) -> None:
    """plan: [(kind, n_programs, steps)]"""
    cases, keep, spec_cases = [], [], []
    hist: dict = {}
    for kind, n, steps in plan:
        for i in range(n):
            f = first(i) if callable(first) else first
            env, init, sts, problems = run_async(_one_program(ctx, kind, i, steps, weights, f))
            for clause, cls, k, st in problems:
                obs = {'kind': cls, 'backend': kind}
                all_steps = sts if st in sts else sts + [st]
                ctx.failure(clause, f'{kind}: step {k} ({st["wire"][:60]!r}): {cls}',
                            _replay_obj(kind, init, all_steps, k), obs)
            for s in sts:
                key = s['cmd']['k'] + ('.uid' if s['cmd'].get('uid') else '')
                hist[key] = hist.get(key, 0) + 1
                ctx.count((kind, s['wire'], repr(R.canon_out(s['out']))),
                          nontrivial=s['out']['cond'] == 'OK')
            if sts:
                cases.append(R.enc_case(env, init, sts))
                keep.append((kind, init, sts))
                # the Python reference's predictions, for the spec-vs-reference diff
                ref_steps = [{'cmd': s['cmd'], 'out': s['ref_out'],
                              'dump': [dict(b, name=b['name']) for b in s['ref_dump']]}
                             for s in sts]
                spec_cases.append(R.enc_case(env, init, ref_steps))
    ctx.extra.setdefault('command_histogram', {})[label] = hist
    if keep:
        ctx.sample({'program': [s['wire'].decode('latin-1') for s in keep[-1][2]][:8],
                    'backend': keep[-1][0]})
    bad = ctx.run_cases(label, R.HEADER, 'case', cases, 'chk_case', shard=25)
    for i in bad[:5]:
        kind, init, sts = keep[i]
        # which one differs?  if the case built from PyRef's predictions passes,
        # the implementation deviates from both references
        ctx.disagreement(label, {'backend': kind,
                                 'program': [s['wire'].decode('latin-1') for s in sts],
                                 'diag': _diag(ctx, cases[i])})
    bad2 = ctx.run_cases(label + '_pyref_vs_coq', R.HEADER, 'case', spec_cases, 'chk_case',
                         shard=25)
    for i in bad2[:5]:
        if i in bad:
            continue
        kind, init, sts = keep[i]
        ctx.disagreement(label + '_pyref_vs_coq',
                         {'backend': kind,
                          'program': [s['wire'].decode('latin-1') for s in sts],
                          'diag': _diag(ctx, spec_cases[i])})


def _diag(ctx, case: str) -> str:
    from .. import coqrun
    out = coqrun.eval_term(ctx.prop, 'diag', R.HEADER,
                           f'map (fun x => (fst (fst (fst x)), snd (fst (fst x)), snd (fst x))) '
                           f'(diag_case {case})')
    return out[-600:]


def run(ctx) -> None:
    ctx.rule = ('a case is one random single-session program (SELECT/EXAMINE, APPEND, STORE '
                '(3 modes, .SILENT), EXPUNGE, UID EXPUNGE, COPY, MOVE, FETCH (33 attribute lists), '
                'CLOSE and UID variants; sequence sets with ranges, reversed ranges, *, '
                'out-of-range, duplicates, huge numbers; flags incl. keywords, odd case, '
                '\\Recent) on a fresh dict or maildir server with every response and a full '
                'probe dump after every step; non-trivial = the command answered OK; '
                'distinct = by (backend, command bytes, canonical response)')
    ctx.assumptions += [
        'one session issues the commands, a second (probe) session only runs STATUS / EXAMINE / '
        'UID FETCH ... BODY.PEEK[] / CLOSE; concurrency is C01/C02',
        'the session view is modelled as a full resynchronisation after every command',
        'message bytes are abstracted to content ids (byte exactness is C03)',
    ]
    ctx.check_proofs(['RefModel/Check'])
    _flag_cases(ctx)
    nd = ctx.scale(420, 8500)
    nm = ctx.scale(80, 1500)
    run_programs(ctx, 'programs', [('dict', nd, 20), ('maildir', nm, 20)], R.C10_WEIGHTS)


def replay(ctx, obj) -> int:
    print('backend', obj.get('backend'), 'failing step', obj.get('failing_step'))
    for ln in obj.get('program', []):
        print('C:', ln.rstrip())
    print('observed', obj.get('observed'))
    print('expected', obj.get('expected_by_reference'))
    return 0
