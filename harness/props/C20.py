"""C20 -- lock primitives give the exclusion they document.

Sections
  rw  : pymap.concurrent._AsyncioReadWriteLock (over CPython's asyncio.Lock) --
        model Sync/RWLock.v, theorems C20_excl / C20_no_deadlock / C20_cancel_ok /
        C20_terminates (+ refutations for the pre-fix algorithm);
        correspondence: every step of every explored schedule of the real lock
        is replayed on the model (runnable set, enter/exit events, glass-box
        lock state); monitors: overlap, deadlock, leftovers.
  fl  : pymap.concurrent.FileLock on a temporary directory -- model
        Sync/FileLock.v, theorems filelock_excl / filelock_released.
  thr : the threading twin of the read-write lock, 3 real threads (monitor only).
"""
from __future__ import annotations

import os

from .. import coqterm as T
from ..syncdrv import RWRun, FLRun, overlap_monitor, writers_monitor

HEADER = 'From PV Require Import Base.Prelude Sync.RWLock Sync.RWLockCheck.\n'
FL_HEADER = 'From PV Require Import Base.Prelude Sync.RWLock Sync.FileLock Sync.FileLockCheck.\n'


# ------------------------------------------------------------------ encoders
def enc_acq(a) -> str:
    kind, yields, raises = a
    return f'(mkAcq {"KR" if kind == "R" else "KW"} {T.nat(yields)} {T.boolean(raises)})'


def enc_progs(progs) -> str:
    return T.lst(T.lst(enc_acq(a) for a in p) for p in progs)


def enc_label(lab) -> str:
    op, i = lab
    return f'({"Run" if op == "run" else "Cancel"} {T.nat(i)})'


def enc_event(ev) -> str:
    what, kind, i = ev
    return f'({"Enter" if what == "enter" else "Exit"} {"KR" if kind == "R" else "KW"} {T.nat(i)})'


_WST = {'P': 'Pending', 'W': 'Woken', 'C': 'Cancelled'}
_STATUS = {'live': 0, 'finished': 1, 'cancelled': 2}


def enc_waiters(ws) -> str:
    if not ws:
        return '(@nil (nat * wst))'
    return T.lst(f'({T.nat(max(o, 0) if o >= 0 else 4999)}, {_WST[s]})' for o, s in ws)


def enc_natlist(ns) -> str:
    ns = list(ns)
    if not ns:
        return '(@nil nat)'
    return T.lst(T.nat(n) for n in ns)


def enc_view(v) -> str:
    status = [_STATUS.get(s, 3) for s in v['status']]
    return (f'(mkView {T.nat(v["counter"])} {T.boolean(v["rl"][0])} {enc_waiters(v["rl"][1])} '
            f'{T.boolean(v["wl"][0])} {enc_waiters(v["wl"][1])} {enc_natlist(status)})')


def enc_obs(rec) -> str:
    evs = rec['events']
    ev_term = T.lst(enc_event(e) for e in evs) if evs else '(@nil event)'
    return (f'(mkObs {enc_label(rec["label"])} {enc_natlist(rec["enabled"])} '
            f'{ev_term} {enc_view(rec["view"])})')


def enc_case(algo: str, progs, steps) -> str:
    obs = T.lst(enc_obs(r) for r in steps) if steps else '(@nil obs)'
    return f'({algo}, {enc_progs(progs)}, {obs})'


# --------------------------------------------------------------- exploration
def explore(make_run, cancel_budget: int, extra_labels=None, max_leaves: int = 200000):
    """Stateless depth-first exploration of *all* schedules of a configuration,
    pruned at states already seen (the glass-box key holds everything the
    future depends on).  Every transition out of every reachable state is
    executed once.  Returns (leaves, tree, n_states, n_transitions): the
    maximal paths as lists of step records (for the monitors) and the same
    runs as a prefix tree {prefix: [(label, record, runnable_after)]}."""
    def run_prefix(prefix):
        r = make_run()
        for lab in prefix:
            r.step(lab)
        return r

    def used(prefix):
        return sum(1 for lab in prefix if lab[0] != 'run')

    r = run_prefix(())
    visited = {(r.key(), 0)}
    r.close()
    work = [()]
    leaves = []
    tree: dict[tuple, list] = {}
    n_trans = 0
    while work and len(leaves) < max_leaves:
        prefix = work.pop()
        r = run_prefix(prefix)
        labels = [('run', i) for i in r.enabled()]
        if used(prefix) < cancel_budget:
            live = [i for i, s in enumerate(r.view()['status']) if s == 'live']
            labels += [('cancel', i) for i in live]
            if extra_labels:
                labels += extra_labels(r)
        if not labels:
            leaves.append((prefix, r.steps, r.log[:], r.view(), True))
            r.close()
            continue
        r.close()
        kids = tree.setdefault(prefix, [])
        for lab in labels:
            r = run_prefix(prefix)
            rec = r.step(lab)
            n_trans += 1
            kids.append((lab, rec, r.enabled()))
            k = (r.key(), used(prefix + (lab,)))
            if k in visited:
                leaves.append((prefix + (lab,), r.steps, r.log[:], r.view(), False))
            else:
                visited.add(k)
                work.append(prefix + (lab,))
            r.close()
    return leaves, tree, len(visited), n_trans


def enc_tree(tree, enc_node, node_name: str, nil: str) -> str:
    """the prefix tree as a list of Gallina trees (iteratively, bottom-up)"""
    memo: dict[tuple, str] = {}
    for prefix in sorted(tree, key=len, reverse=True):
        items = []
        for lab, rec, after in tree[prefix]:
            kids = memo.pop(prefix + (lab,), nil)
            items.append(f'({node_name} {enc_node(rec)} {enc_natlist(after)} {kids})')
        memo[prefix] = T.lst(items)
    return memo.get((), nil)


# ---------------------------------------------------------------- rw section
def rw_configs(ctx):
    """(programs, cancel budget) -- 2..4 tasks, <= 3 acquisitions each"""
    R0, R1, R2 = ('R', 0, False), ('R', 1, False), ('R', 2, False)
    W0, W1, W2 = ('W', 0, False), ('W', 1, False), ('W', 2, False)
    Rx, Wx = ('R', 1, True), ('W', 1, True)
    quick = [
        ([[W1], [R1], [R1]], 1),
        ([[W1, W1], [R1], [R2]], 1),
        ([[R1, W1], [W1, R1]], 1),
        ([[W1], [W1], [R1]], 1),
        ([[R2], [R1], [W1]], 1),
        ([[Wx, R0], [Rx, W0]], 1),
        ([[W1, R1], [R1, W0], [R0, R1]], 0),
        ([[W1], [R1], [R1], [W1]], 0),
        ([[R1, R1, W1], [W1, R1, R0]], 0),
    ]
    if ctx.quick:
        return quick
    return quick + [
        ([[W2], [R1], [R1]], 1),
        ([[R1], [W1], [R1]], 1),
        ([[W1, R1], [R1, W0], [R0, R1]], 1),
        ([[W1], [R1], [R1], [W1]], 1),
        ([[R1, R1, W1], [W1, R1, R0]], 1),
        ([[W1, R1, W0], [R1, W1, R1]], 1),
        ([[W1], [R1], [R1]], 2),
        ([[W2, R1], [R2, W1], [R1, R1]], 0),
        ([[W1], [R1], [W1], [R1]], 1),
        ([[Rx, W1], [Wx, R1], [R1]], 1),
    ]


def rw_monitors(ctx, progs, prefix, log, view, terminal) -> bool:
    """property oracles on one run of the real lock; True if it failed"""
    replay = {'section': 'rw', 'programs': progs, 'schedule': [list(x) for x in prefix]}
    bad = overlap_monitor(log)
    if bad:
        cancelled = any(op == 'cancel' for op, _ in prefix)
        ctx.failure('rw_exclusion', bad + f' (programs {progs}, schedule {list(prefix)})',
                    replay, {'kind': 'after_cancel' if cancelled else 'second_reader'})
        return True
    if terminal:
        live = [i for i, s in enumerate(view['status']) if s == 'live']
        if live:
            ctx.failure('rw_no_deadlock',
                        f'no task is runnable but tasks {live} have not finished '
                        f'(programs {progs}, schedule {list(prefix)})', replay,
                        {'kind': 'deadlock'})
            return True
        odd = [s for s in view['status'] if s not in ('finished', 'cancelled')]
        left = (view['counter'], view['rl'], view['wl'])
        if odd or left != (0, (False, []), (False, [])):
            ctx.failure('rw_cancel_ok',
                        f'after every task ended the lock is not back to free: {left}, '
                        f'task results {view["status"]} (programs {progs}, schedule {list(prefix)})',
                        replay, {'kind': 'leftover'})
            return True
    return False


def section_rw(ctx, algo: str = 'Fixed') -> None:
    trees, per_cfg = [], []
    stats = []
    for progs, budget in rw_configs(ctx):
        leaves, tree, n_states, n_trans = explore(lambda: RWRun(progs), budget)
        stats.append({'programs': repr(progs), 'cancels': budget, 'states': n_states,
                      'transitions': n_trans, 'paths': len(leaves)})
        cases, descr = [], []
        for prefix, steps, log, view, terminal in leaves:
            ctx.count(('rw', repr(progs), prefix), nontrivial=len(prefix) > 2)
            failed = rw_monitors(ctx, progs, prefix, log, view, terminal)
            if any(s['foreign'] for s in steps):
                ctx.disagreement('rw_steps', {'what': 'a ready handle that belongs to no task: '
                                              'a step is no longer one task', 'programs': repr(progs)})
            cases.append((steps, prefix, failed))
        trees.append(f'({algo}, {enc_progs(progs)}, {enc_tree(tree, enc_obs, "ONode", "(@nil otree)")})')
        per_cfg.append((progs, cases))
    ctx.extra['rw_exploration'] = stats
    ctx.sample({'rw_programs': repr(per_cfg[-1][0]), 'schedule': repr(per_cfg[-1][1][-1][1])})
    bad = ctx.run_cases('rw_lock', HEADER, 'algo * list (list acq) * list otree', trees,
                        'chk_rw_tree', shard=1)
    ctx.corr[-1].update({'cases': sum(x['transitions'] for x in stats),
                         'configurations': len(trees), 'paths': sum(x['paths'] for x in stats)})
    ctx.traces_validated += sum(len(c) for i, (_, c) in enumerate(per_cfg) if i not in bad)
    # a configuration whose tree does not replay: find the paths that differ
    for i in bad[:3]:
        progs, cases = per_cfg[i]
        terms = [enc_case(algo, progs, steps) for steps, _, _ in cases]
        bad_paths = ctx.run_cases(f'rw_lock_paths_{i}', HEADER, 'algo * list (list acq) * list obs',
                                  terms, 'chk_rw')
        reported = 0
        for j in bad_paths:
            _, prefix, failed = cases[j]
            if failed or reported >= 3:
                continue
            reported += 1
            ctx.disagreement('rw_lock', {'programs': repr(progs), 'schedule': repr(list(prefix))})
        if not reported:
            ctx.broken.append(f'correspondence rw_lock: runs of the real lock with programs {progs} '
                              f'are not behaviours of the model ({len(bad_paths)} paths; each also '
                              f'fails a monitor)')


# ---------------------------------------------------------------- fl section
_FSTATE = {'absent': 'Absent', 'fresh': 'Fresh', 'expired': 'Expired'}


def enc_flabel(lab) -> str:
    op, i = lab
    if op == 'expire':
        return 'FExpire'
    return f'({"FRun" if op == "run" else "FCancel"} {T.nat(i)})'


def enc_fevent(ev) -> str:
    what, kind, i = ev
    name = {'enter': 'FEnter', 'exit': 'FExit', 'timeout': 'FTimeout'}[what]
    return f'({name} {"KR" if kind == "R" else "KW"} {T.nat(i)})'


def enc_fobs(rec) -> str:
    evs = rec['events']
    ev_term = T.lst(enc_fevent(e) for e in evs) if evs else '(@nil fevent)'
    status = [_STATUS.get(s, 3) for s in rec['view']['status']]
    return (f'(mkFObs {enc_flabel(rec["label"])} {enc_natlist(rec["enabled"])} {ev_term} '
            f'{_FSTATE[rec["view"]["file"]]} {enc_natlist(status)})')


def fl_configs(ctx):
    """(programs, retry delays, initial lock file, budget of cancel/expire labels)"""
    R1, W1, W0, W2 = ('R', 1, False), ('W', 1, False), ('W', 0, False), ('W', 2, False)
    Wx = ('W', 1, True)
    quick = [
        ([[W1], [W1]], 2, None, 1),
        ([[W1], [W1], [R1]], 1, None, 0),
        ([[W2], [W0, W1]], 2, None, 1),
        ([[Wx, W1], [W1]], 1, None, 1),
        ([[W1], [R1]], 1, 'fresh', 1),
        ([[W1], [W1]], 1, 'expired', 1),
        ([[W1], [W1], [W1]], 1, None, 0),
    ]
    if ctx.quick:
        return quick
    return quick + [
        ([[W1], [W1], [W1]], 2, None, 1),
        ([[W1], [W1], [R1]], 1, None, 1),
        ([[W1], [W1]], 2, None, 2),
        ([[W1, R1], [R1, W1]], 2, None, 1),
        ([[W1], [W1]], 2, 'fresh', 2),
        ([[Wx, W0], [W2], [R1]], 2, None, 1),
    ]


def fl_monitors(ctx, cfg, prefix, steps, log, view, terminal) -> bool:
    progs, ndelays, stale, _ = cfg
    replay = {'section': 'fl', 'programs': progs, 'ndelays': ndelays, 'stale': stale,
              'schedule': [list(x) for x in prefix]}
    # was the documented assumption respected?  (no expiry while a writer is inside)
    inside: set[int] = set()
    overstay = False
    for rec in steps:
        if rec['label'][0] == 'expire' and inside:
            overstay = True
        for what, kind, i in rec['events']:
            if kind == 'W' and what == 'enter':
                inside.add(i)
            elif kind == 'W' and what == 'exit':
                inside.discard(i)
    if overstay:
        return False
    bad = writers_monitor(log)
    if bad:
        ctx.failure('filelock_excl', bad + f' (programs {progs}, schedule {list(prefix)})',
                    replay, {'kind': 'two_writers'})
        return True
    inside = set()
    for k, rec in enumerate(steps):
        for what, kind, i in rec['events']:
            if kind == 'W' and what == 'enter':
                inside.add(i)
            elif kind == 'W' and what == 'exit':
                inside.discard(i)
        left = any(e[0] == 'exit' and e[1] == 'W' for e in rec['events'])
        if left and not inside and rec['view']['file'] != 'absent':
            ctx.failure('filelock_released',
                        f'writer left its critical section at step {k} but the lock file is '
                        f'still there (programs {progs}, schedule {list(prefix)})',
                        replay, {'kind': 'not_released'})
            return True
        if inside and rec['view']['file'] == 'absent':
            ctx.failure('filelock_excl',
                        f'a writer is inside but the lock file is gone at step {k} '
                        f'(programs {progs}, schedule {list(prefix)})', replay,
                        {'kind': 'file_removed_under_holder'})
            return True
    if terminal and stale is None and view['file'] != 'absent':
        ctx.failure('filelock_released', f'all tasks ended, lock file left behind '
                    f'(programs {progs}, schedule {list(prefix)})', replay, {'kind': 'not_released'})
        return True
    return False


def section_fl(ctx) -> None:
    trees, per_cfg, stats = [], [], []
    for cfg in fl_configs(ctx):
        progs, ndelays, stale, budget = cfg
        leaves, tree, n_states, n_trans = explore(
            lambda: FLRun(progs, ndelays=ndelays, stale=stale), budget,
            extra_labels=lambda r: [('expire', 0)])
        stats.append({'programs': repr(progs), 'delays': ndelays, 'stale': stale,
                      'cancel_or_expire': budget, 'states': n_states,
                      'transitions': n_trans, 'paths': len(leaves)})
        cases = []
        f0 = {None: 'Absent', 'fresh': 'Fresh', 'expired': 'Expired'}[stale]
        for prefix, steps, log, view, terminal in leaves:
            ctx.count(('fl', repr(cfg), prefix), nontrivial=len(prefix) > 2)
            failed = fl_monitors(ctx, cfg, prefix, steps, log, view, terminal)
            cases.append((steps, prefix, failed))
        trees.append(f'({T.nat(ndelays)}, {f0}, {enc_progs(progs)}, '
                     f'{enc_tree(tree, enc_fobs, "FONode", "(@nil fotree)")})')
        per_cfg.append((cfg, f0, cases))
    ctx.extra['fl_exploration'] = stats
    bad = ctx.run_cases('file_lock', FL_HEADER, 'nat * fstate * list (list acq) * list fotree',
                        trees, 'chk_fl_tree', shard=1)
    ctx.corr[-1].update({'cases': sum(x['transitions'] for x in stats),
                         'configurations': len(trees), 'paths': sum(x['paths'] for x in stats)})
    ctx.traces_validated += sum(len(c) for i, (_, _, c) in enumerate(per_cfg) if i not in bad)
    for i in bad[:3]:
        cfg, f0, cases = per_cfg[i]
        progs, ndelays, stale, _ = cfg
        terms = []
        for steps, _, _ in cases:
            obs = T.lst(enc_fobs(r) for r in steps) if steps else '(@nil fobs)'
            terms.append(f'({T.nat(ndelays)}, {f0}, {enc_progs(progs)}, {obs})')
        bad_paths = ctx.run_cases(f'file_lock_paths_{i}', FL_HEADER,
                                  'nat * fstate * list (list acq) * list fobs', terms, 'chk_fl')
        reported = 0
        for j in bad_paths:
            _, prefix, failed = cases[j]
            if failed or reported >= 3:
                continue
            reported += 1
            ctx.disagreement('file_lock', {'config': repr(cfg), 'schedule': repr(list(prefix))})
        if not reported:
            ctx.broken.append(f'correspondence file_lock: runs of the real FileLock with {cfg} are '
                              f'not behaviours of the model ({len(bad_paths)} paths; each also '
                              f'fails a monitor)')


# ------------------------------------------------------------- section ww
class _Fault(Exception):
    pass


async def ww_one(cls_name: str, existed: bool, body: str, fault: bool) -> dict:
    """one `async with Cls.with_write(path)` on a temporary directory.
    body: 'none' | 'touch' | 'empty' (Subscriptions: remove the last entry) |
          'raise' | 'touch-raise' | 'cancel';  fault: os.rename / os.remove raise
    while the with-statement is being left"""
    import asyncio
    import errno
    import os
    import shutil
    import tempfile
    from unittest import mock
    from pymap.backend.maildir.subscriptions import Subscriptions
    from pymap.backend.maildir.uidlist import UidList
    cls = {'Subscriptions': Subscriptions, 'UidList': UidList}[cls_name]
    d = tempfile.mkdtemp(prefix='pymapverif-ww-')
    try:
        if existed:
            async with cls.with_write(d) as obj:
                if cls is Subscriptions:
                    obj.add('f')
                else:
                    obj.touch()
            assert os.path.exists(cls.get_file(d))
        acts: list[str] = []
        info = {}
        real_rename, real_remove = os.rename, os.remove
        orig_write, orig_delete = cls.file_write, cls.file_delete

        def file_write(self):
            acts.append('write')
            return orig_write(self)

        def file_delete(self):
            acts.append('delete')
            return orig_delete(self)

        def rename(a, b, *args, **kw):
            if fault and str(b).startswith(d):
                raise OSError(errno.ENOSPC, 'No space left on device')
            return real_rename(a, b, *args, **kw)

        def remove(a, *args, **kw):
            if fault and str(a).startswith(d):
                raise FileNotFoundError(a)
            return real_remove(a, *args, **kw)

        raised = None
        with mock.patch.object(cls, 'file_write', file_write), \
                mock.patch.object(cls, 'file_delete', file_delete), \
                mock.patch.object(os, 'rename', rename), mock.patch.object(os, 'remove', remove):
            try:
                async with cls.with_write(d) as obj:
                    info['held'] = os.path.exists(cls.get_lock(d))
                    if body in ('touch', 'touch-raise'):
                        if cls is Subscriptions:
                            obj.add('g')
                        else:
                            obj.touch()
                    elif body == 'empty':
                        if cls is Subscriptions:
                            obj.remove('f')
                        else:
                            obj.touch()
                    info['touched'], info['empty'] = obj.touched, bool(obj.empty)
                    if body in ('raise', 'touch-raise'):
                        raise _Fault()
                    if body == 'cancel':
                        raise asyncio.CancelledError()
            except BaseException as exc:
                raised = type(exc).__name__
        released = not os.path.exists(cls.get_lock(d))
        second = None
        try:
            async def again():
                async with cls.with_write(d):
                    return True
            second = await asyncio.wait_for(again(), 0.5)
        except BaseException as exc:
            second = type(exc).__name__
        return {'cls': cls_name, 'existed': existed, 'body': body, 'fault': fault,
                'held': info.get('held'), 'touched': info.get('touched', False),
                'empty': info.get('empty', False), 'acts': acts, 'raised': raised,
                'released': released, 'second': second}
    finally:
        shutil.rmtree(d, ignore_errors=True)


def section_ww(ctx) -> None:
    """the layer that uses FileLock: maildir io.py `with_write` (UidList,
    Subscriptions) with faults in the body and in the exit flush"""
    from ..pymap_env import run as arun
    cases, descr = [], []
    for cls_name in ('Subscriptions', 'UidList'):
        for existed in (False, True):
            for body in ('none', 'touch', 'empty', 'raise', 'touch-raise', 'cancel'):
                for fault in (False, True):
                    o = arun(ww_one(cls_name, existed, body, fault), timeout=30)
                    ctx.count(('ww', cls_name, existed, body, fault), nontrivial=True)
                    replay = {'section': 'ww', 'cls': cls_name, 'existed': existed,
                              'body': body, 'fault': fault}
                    failed = False
                    if not o['held']:
                        ctx.failure('filelock_excl', f'with_write body ran without the lock file: {o}',
                                    replay, {'kind': 'withwrite_not_locked'})
                        failed = True
                    if not o['released'] or o['second'] is not True:
                        ctx.failure('filelock_released',
                                    f'{cls_name}.with_write (file existed: {existed}, body: {body}, '
                                    f'exit flush fails: {fault}) left the with-statement '
                                    f'{"raising " + o["raised"] if o["raised"] else "normally"} after '
                                    f'{o["acts"] or "no flush"}, but the lock file is '
                                    f'{"gone" if o["released"] else "still there"} and a second '
                                    f'with_write got {o["second"]!r}', replay,
                                    {'kind': 'withwrite_not_released'})
                        failed = True
                    body_fails = body in ('raise', 'touch-raise', 'cancel')
                    acts = [{'write': 'WFlushWrite', 'delete': 'WFlushDelete'}[a] for a in o['acts']]
                    if o['released']:
                        acts.append('WRelease')
                    term = (f'(mkWRun {T.boolean(body_fails)} {T.boolean(o["touched"])} '
                            f'{T.boolean(o["empty"])} {T.boolean(existed)} {T.boolean(fault)}, '
                            f'{T.lst(acts) if acts else "(@nil wact)"}, '
                            f'{T.boolean(o["raised"] is not None)}, '
                            f'{"Absent" if o["released"] else "Fresh"})')
                    cases.append(term)
                    descr.append((replay, failed))
    bad = ctx.run_cases('with_write', FL_HEADER, 'wrun * list wact * bool * fstate', cases, 'chk_ww')
    for i in bad:
        replay, failed = descr[i]
        if not failed:
            ctx.disagreement('with_write', replay)
    if bad and all(descr[i][1] for i in bad):
        ctx.broken.append(f'correspondence with_write: {len(bad)} runs of the real _FileWriteWith '
                          f'are not behaviours of the model (each also fails a monitor)')


# ------------------------------------------------------------------ section thr
def section_threading(ctx) -> None:
    """the threading twin: writer inside, reader 1 blocked, reader 2 must not get in"""
    import threading
    import asyncio
    from pymap.concurrent import ReadWriteLock
    lock = ReadWriteLock.for_threading()
    log = []
    w_in, w_go = threading.Event(), threading.Event()

    def run(coro):
        loop = asyncio.new_event_loop()
        try:
            loop.run_until_complete(coro)
        finally:
            loop.close()

    async def writer():
        async with lock.write_lock():
            log.append(('enter', 'W', 0))
            w_in.set()
            w_go.wait(5)
            log.append(('exit', 'W', 0))

    async def reader(i):
        async with lock.read_lock():
            log.append(('enter', 'R', i))
            log.append(('exit', 'R', i))

    ths = [threading.Thread(target=run, args=(writer(),), daemon=True)]
    ths[0].start()
    w_in.wait(5)
    for i in (1, 2):
        th = threading.Thread(target=run, args=(reader(i),), daemon=True)
        ths.append(th)
        th.start()
        th.join(0.15)
    w_go.set()
    for th in ths:
        th.join(5)
    ctx.count(('thr', 'w-r-r'))
    bad = overlap_monitor(log)
    if bad is None and (len(log) != 6 or any(th.is_alive() for th in ths)):
        bad = f'threads did not all finish: log {log}'
    if bad:
        ctx.failure('rw_exclusion', 'threading read-write lock: ' + bad,
                    {'section': 'thr', 'log': log}, {'kind': 'second_reader_threading'})



# ------------------------------------------------------------- section thrmodel
THR_HEADER = ('From PV Require Import Base.Prelude Sync.RWLock Sync.ThreadRWLock '
              'Sync.ThreadRWLockCheck.\n')


def enc_tprogs(progs) -> str:
    return T.lst(T.lst(f'(mkSect {"KR" if k == "R" else "KW"} {T.boolean(x)})' for k, x in p)
                 for p in progs)


def view_nums(view) -> list[int]:
    """the view of Sync/ThreadRWLockCheck.v view_of"""
    c = view['counter']
    c = c if isinstance(c, int) and 0 <= c < 1000 else 1000
    mask = 0
    for t in view['enabled']:
        mask |= 1 << t
    return [c, int(view['rl']) + 2 * int(view['wl']) + 4 * mask] + [min(x, 31) for x in view['codes']]


def _nl(ns) -> str:
    return '[' + ';'.join(str(x) for x in ns) + ']'


def enc_node(depth: int, t: int, view) -> str:
    return _nl([depth, t] + view_nums(view))


def enc_ttree(tree) -> str:
    """the exploration tree in preorder, one short list of small numbers per transition"""
    out = []
    # children are pushed in reverse so that the preorder follows the recorded order
    todo = [((), k) for k in reversed(range(len(tree.get((), []))))]
    while todo:
        prefix, k = todo.pop()
        t, view = tree[prefix][k]
        out.append(enc_node(len(prefix), t, view))
        child = prefix + (t,)
        kids = tree.get(child, [])
        for kk in reversed(range(len(kids))):
            todo.append((child, kk))
    return '([' + ';'.join(out) + ']%N)' if out else '(@nil (list N))'


def thr_configs(ctx):
    """thread programs: lists of (kind, body raises)"""
    R, W, Rx, Wx = ('R', False), ('W', False), ('R', True), ('W', True)
    one_two = [[R], [W], [R, R], [R, W], [W, R], [W, W]]
    cfgs = []
    # 2 threads: every pair of programs of <= 2 sections
    for i, a in enumerate(one_two):
        for b in one_two[i:]:
            cfgs.append([a, b])
    # ... with bodies that raise
    cfgs += [[[Rx, R], [W, R]], [[Wx], [R, W]], [[Rx, W], [Rx, R]], [[W, Rx], [Wx, R]],
             [[R, Rx], [R, Wx]]]
    # 3 threads, one section each, with and without raising bodies; 4 threads
    cfgs += [[[R], [R], [W]], [[R], [W], [W]], [[Rx], [R], [W]], [[Rx], [Rx], [Wx]],
             [[R], [W], [W], [W]]]
    if ctx.quick:
        return cfgs
    return cfgs + [
        [[R], [R], [R]], [[W], [W], [W]], [[R], [Wx], [W]], [[R], [R], [W], [W]],
        [[R, W], [W, R], [R]], [[R, R], [R, W], [W]], [[W, R], [W, W], [R]], [[Rx, W], [R, R], [W, Rx]],
        [[R], [R], [R], [W]], [[Rx], [R], [Wx], [W]], [[R, R], [W], [R], [W]],
    ]


def _tree_paths(tree, limit: int = 2000):
    """root-to-leaf paths of an exploration tree as lists of (t, view)"""
    out = []
    stack = [((), [])]
    while stack and len(out) < limit:
        prefix, acc = stack.pop()
        kids = tree.get(prefix)
        if not kids:
            if acc:
                out.append((prefix, acc))
            continue
        for t, view in kids:
            stack.append((prefix + (t,), acc + [(t, view)]))
    return out


def section_thrmodel(ctx) -> None:
    """the real _ThreadingReadWriteLock under the deterministic thread scheduler
    (harness/thrdrv.py): every schedule of every configuration, each executed
    transition compared with Sync/ThreadRWLock.v inside Coq; monitors on every
    reached state of the real object"""
    import multiprocessing
    from concurrent.futures import ProcessPoolExecutor
    from ..thrdrv import explore
    cfgs = thr_configs(ctx)
    mp = multiprocessing.get_context('spawn')
    with ProcessPoolExecutor(max_workers=min(8, len(cfgs)), mp_context=mp) as ex:
        results = list(ex.map(explore, cfgs))
    terms, stats = [], []
    failed_cfg = set()
    for ci, (progs, (root, tree, n_states, n_trans, failures)) in enumerate(zip(cfgs, results)):
        stats.append({'programs': repr(progs), 'states': n_states, 'transitions': n_trans})
        ctx.count(('thr', repr(progs)), nontrivial=True)
        ctx.evaluations += n_trans
        for prefix, view, (clause, kind, text) in failures[:3]:
            failed_cfg.add(ci)
            ctx.failure(clause, f'threading read-write lock: {text} (programs {progs}, schedule '
                        f'{list(prefix)})',
                        {'section': 'thrmodel', 'programs': progs, 'schedule': list(prefix)},
                        {'kind': kind})
        terms.append(f'({enc_tprogs(progs)}, {_nl(view_nums(root))}%N, {enc_ttree(tree)})')
    ctx.extra['thr_exploration'] = stats
    ctx.sample({'thr_programs': repr(cfgs[-1]), 'states': stats[-1]['states'],
                'transitions': stats[-1]['transitions']})
    bad = ctx.run_cases('thr_rwlock', THR_HEADER,
                        'list (list sect) * list N * list (list N)', terms, 'chk_thr_tree', shard=1)
    ctx.corr[-1].update({'cases': sum(x['transitions'] for x in stats),
                         'configurations': len(terms)})
    for ci in bad[:3]:
        progs = cfgs[ci]
        tree = results[ci][1]
        paths = _tree_paths(tree)
        pterms = []
        for prefix, acc in paths:
            nodes = ';'.join(enc_node(d, t, v) for d, (t, v) in enumerate(acc))
            pterms.append(f'({enc_tprogs(progs)}, {_nl(view_nums(results[ci][0]))}%N, ([{nodes}]%N))')
        bad_paths = ctx.run_cases(f'thr_rwlock_paths_{ci}', THR_HEADER,
                                  'list (list sect) * list N * list (list N)', pterms, 'chk_thr_tree')
        if ci in failed_cfg:
            ctx.broken.append(f'correspondence thr_rwlock: runs of the real _ThreadingReadWriteLock '
                              f'with programs {progs} are not behaviours of the model '
                              f'({len(bad_paths)} schedules; a monitor failed on this configuration too)')
            continue
        for j in bad_paths[:3]:
            ctx.disagreement('thr_rwlock', {'programs': repr(progs),
                                            'schedule': repr(list(paths[j][0]))})
        if not bad_paths:
            ctx.disagreement('thr_rwlock', {'programs': repr(progs), 'what': 'tree does not replay'})

# --------------------------------------------------------------------- main
def run(ctx) -> None:
    ctx.rule = ('every schedule (all interleavings, pruned at repeated glass-box states) of small '
                'task programs over the real lock objects is replayed step by step on the model; '
                'exclusion/deadlock/leftover monitors on every run')
    ctx.assumptions += [
        'asyncio switches tasks only at suspension points (one ready handle = one atomic step)',
        'FileLock: exclusion is claimed only while no holder outlives the expiration (600 s)',
        'FileLock steps are atomic between suspension points (single event loop); cross-process '
        'races on an expired lock file are outside the model',
    ]
    ctx.check_proofs(['Sync/RWLockCheck', 'Sync/FileLockCheck', 'Sync/ThreadRWLockCheck'])
    algo = os.environ.get('VERIF_C20_ALGO', 'Fixed')
    only = [x for x in os.environ.get('VERIF_C20_SECTIONS', '').split(',') if x]   # development aid
    for name, fn in (('rw', lambda: section_rw(ctx, algo)), ('fl', lambda: section_fl(ctx)),
                     ('ww', lambda: section_ww(ctx)), ('thr', lambda: section_threading(ctx)),
                     ('thrmodel', lambda: section_thrmodel(ctx))):
        if not only or name in only:
            fn()
    ctx.exhaustive = True


def replay(ctx, data) -> int:
    if data.get('section') == 'rw':
        progs = [[tuple(a) for a in p] for p in data['programs']]
        r = RWRun(progs)
        for lab in data['schedule']:
            rec = r.step(tuple(lab))
            print(rec['label'], 'runnable before:', rec['enabled'], 'events:', rec['events'],
                  'lock:', rec['view'])
        print('overlap monitor:', overlap_monitor(r.log))
        r.close()
        return 0
    if data.get('section') == 'fl':
        progs = [[tuple(a) for a in p] for p in data['programs']]
        r = FLRun(progs, ndelays=data['ndelays'], stale=data['stale'])
        for lab in data['schedule']:
            rec = r.step(tuple(lab))
            print(rec['label'], 'runnable before:', rec['enabled'], 'events:', rec['events'],
                  'lock file:', rec['view'])
        print('two-writers monitor:', writers_monitor(r.log))
        r.close()
        return 0
    if data.get('section') == 'ww':
        from ..pymap_env import run as arun
        print(arun(ww_one(data['cls'], data['existed'], data['body'], data['fault']), timeout=30))
        return 0
    if data.get('section') == 'thrmodel':
        from ..thrdrv import ThrRun, thr_monitor
        progs = [[(k, bool(x)) for k, x in p] for p in data['programs']]
        r = ThrRun(progs)
        print('start', r.view())
        for t in data['schedule']:
            rec = r.step(int(t))
            v = rec['view']
            print('thread', t, '-> counter', v['counter'], 'read mutex', v['rl'], 'write mutex',
                  v['wl'], 'next operations', v['pending'], 'status', v['status'])
            print('   monitor:', thr_monitor(v, not v['enabled']))
        r.close()
        return 0
    if data.get('section') == 'thr':
        section_threading(ctx)
        for v in ctx.violations:
            print(v['what'])
        return 0
    print('nothing to replay for', data.get('section'))
    return 0
