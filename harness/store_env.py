"""Driving the real dict-backend store with several connections, for the
Store model (coq/theories/Store/*.v) — used by C01 and C02, reusable by other
store properties.

* labels: Python tuples mirroring Store/System.v `label`/`cmd`
    ('cmd', s, ('select', box, ro)) | ('append', box, [(flags, content)], pick)
      | ('store', sset, by_uid, op, flags, silent) | ('expunge', uid_set|None)
      | ('copy'|'move', sset, by_uid, box, pick) | ('fetch', sset, by_uid, want_uid, set_seen)
      | ('search', by_uid, (sset, is_uid)|None, [(flag, expected)]) | ('noop',) | ('check',)
      | ('touch',) | ('close',) | ('idle',)
    ('wake', s) | ('done', s) | ('deliver', box, flags, recent, content) | ('createbox', box, ro)
  flags are lists of numbers (FLAG_NUM), boxes numbers (BOX_NUM), sequence
  sets lists of int | '*' | (a, b).
* StoreRun: starts a DictEnv, N connections, executes one label at a time on
  the real server (one atomic command), returns the canonical responses and the
  glass-box state of every connection and mailbox.
* parse_responses: bytes -> canonical response tuples (independent of the model).
* enc_*: Gallina terms for Store/StoreCheck.v.
"""
from __future__ import annotations

import asyncio
import re

from . import coqterm as _T


class T:
    """coqterm without the %N suffixes (the case files open N_scope: fewer tokens)"""
    boolean = staticmethod(_T.boolean)
    lst = staticmethod(_T.lst)
    pair = staticmethod(_T.pair)

    @staticmethod
    def N(n: int) -> str:
        assert n >= 0
        return str(n)

    @staticmethod
    def nlist(ns) -> str:
        ns = list(ns)
        return '(@nil N)' if not ns else '[' + ';'.join(str(x) for x in ns) + ']'
from .pymap_env import Conn, DictEnv

FLAG_NUM = {b'\\answered': 1, b'\\deleted': 2, b'\\draft': 3, b'\\flagged': 4,
            b'\\seen': 5, b'\\recent': 6, b'$kw': 10, b'kw2': 11}
FLAG_BYTES = {1: b'\\Answered', 2: b'\\Deleted', 3: b'\\Draft', 4: b'\\Flagged',
              5: b'\\Seen', 6: b'\\Recent', 10: b'$kw', 11: b'kw2'}
BOX_NUM = {'INBOX': 1, 'Sent': 2, 'Trash': 3, 'Nope': 9}
BOX_NAME = {v: k for k, v in BOX_NUM.items()}
OPS = {'replace': b'FLAGS', 'add': b'+FLAGS', 'delete': b'-FLAGS'}
OP_COQ = {'replace': 'FReplace', 'add': 'FAdd', 'delete': 'FDelete'}


def flag_num(f) -> int:
    b = bytes(f).lower()
    if b not in FLAG_NUM:
        FLAG_NUM[b] = 100 + len(FLAG_NUM)
    return FLAG_NUM[b]


def flagset(fs) -> list[int]:
    return sorted({flag_num(f) for f in fs})


# ------------------------------------------------------------ rendering
def sset_bytes(sset) -> bytes:
    def one(x):
        return b'*' if x == '*' else b'%d' % x
    return b','.join(one(e[0]) + b':' + one(e[1]) if isinstance(e, tuple) else one(e)
                     for e in sset)


def flags_bytes(fl) -> bytes:
    return b'(' + b' '.join(FLAG_BYTES[f] for f in fl) + b')'


def content_bytes(content: int) -> bytes:
    return b'Subject: m%d\r\n\r\nbody %d\r\n' % (content, content)


def cmd_bytes(tag: bytes, c) -> bytes:
    k = c[0]
    if k == 'select':
        return tag + (b' EXAMINE ' if c[2] else b' SELECT ') + BOX_NAME[c[1]].encode() + b'\r\n'
    if k == 'append':
        out = tag + b' APPEND ' + BOX_NAME[c[1]].encode()
        for fl, content in c[2]:
            data = content_bytes(content)
            out += b' ' + flags_bytes(fl) + b' {%d+}\r\n' % len(data) + data
        return out + b'\r\n'
    if k == 'store':
        _, sset, by_uid, op, fl, silent = c
        return (tag + (b' UID' if by_uid else b'') + b' STORE ' + sset_bytes(sset) + b' '
                + OPS[op] + (b'.SILENT' if silent else b'') + b' ' + flags_bytes(fl) + b'\r\n')
    if k == 'expunge':
        if c[1] is None:
            return tag + b' EXPUNGE\r\n'
        return tag + b' UID EXPUNGE ' + sset_bytes(c[1]) + b'\r\n'
    if k in ('copy', 'move'):
        _, sset, by_uid, box, _pick = c
        return (tag + (b' UID' if by_uid else b'') + b' ' + k.upper().encode() + b' '
                + sset_bytes(sset) + b' ' + BOX_NAME[box].encode() + b'\r\n')
    if k == 'fetch':
        _, sset, by_uid, want_uid, set_seen = c
        attrs = [b'FLAGS'] + ([b'UID'] if want_uid else []) + \
            ([b'BODY[TEXT]<0.3>'] if set_seen else [])
        return (tag + (b' UID' if by_uid else b'') + b' FETCH ' + sset_bytes(sset)
                + b' (' + b' '.join(attrs) + b')\r\n')
    if k == 'search':
        _, by_uid, sskey, fkeys = c
        keys = []
        if sskey is not None:
            keys.append((b'UID ' if sskey[1] else b'') + sset_bytes(sskey[0]))
        names = {1: b'ANSWERED', 2: b'DELETED', 3: b'DRAFT', 4: b'FLAGGED', 5: b'SEEN',
                 6: b'RECENT'}
        for f, expected in fkeys:
            if f == 6:
                keys.append(b'RECENT' if expected else b'OLD')
            else:
                keys.append((b'' if expected else b'UN') + names[f])
        if not keys:
            keys = [b'ALL']
        return tag + (b' UID' if by_uid else b'') + b' SEARCH ' + b' '.join(keys) + b'\r\n'
    if k == 'noop':
        return tag + b' NOOP\r\n'
    if k == 'check':
        return tag + b' CHECK\r\n'
    if k == 'touch':
        return tag + b' LIST "" ""\r\n'
    if k == 'close':
        return tag + b' CLOSE\r\n'
    if k == 'idle':
        return tag + b' IDLE\r\n'
    raise ValueError(c)


# ------------------------------------------------------------- parsing
def _expand_set(b: bytes) -> list[int]:
    out = []
    for part in b.split(b','):
        if b':' in part:
            a, z = part.split(b':')
            a, z = int(a), int(z)
            out.extend(range(min(a, z), max(a, z) + 1))
        else:
            out.append(int(part))
    return out


def _split_lines(data: bytes):
    """Yield logical response lines (literals kept inline)."""
    pos = 0
    n = len(data)
    cur = b''
    while pos < n:
        i = data.find(b'\r\n', pos)
        if i < 0:
            yield ('partial', cur + data[pos:])
            return
        seg = data[pos:i]
        m = re.search(rb'\{(\d+)\}$', seg)
        if m:
            ln = int(m.group(1))
            cur += seg + b'\r\n' + data[i + 2:i + 2 + ln]
            pos = i + 2 + ln
            continue
        yield ('line', cur + seg)
        cur = b''
        pos = i + 2


def _parse_fetch_items(body: bytes):
    """body = the text between the outer parentheses of a FETCH response."""
    flags = None
    uid = None
    pos = 0
    n = len(body)
    while pos < n:
        while pos < n and body[pos:pos + 1] == b' ':
            pos += 1
        if pos >= n:
            break
        # attribute name: up to a space, brackets may contain spaces
        start = pos
        depth = 0
        while pos < n and (depth > 0 or body[pos:pos + 1] != b' '):
            ch = body[pos:pos + 1]
            if ch == b'[':
                depth += 1
            elif ch == b']':
                depth -= 1
            pos += 1
        name = body[start:pos].upper()
        pos += 1
        # value
        ch = body[pos:pos + 1]
        if ch == b'(':
            d = 0
            vstart = pos
            while pos < n:
                c2 = body[pos:pos + 1]
                if c2 == b'(':
                    d += 1
                elif c2 == b')':
                    d -= 1
                    if d == 0:
                        pos += 1
                        break
                elif c2 == b'"':
                    pos += 1
                    while pos < n and body[pos:pos + 1] != b'"':
                        pos += 2 if body[pos:pos + 1] == b'\\' else 1
                pos += 1
            value = body[vstart:pos]
        elif ch == b'{':
            m = re.match(rb'\{(\d+)\}\r\n', body[pos:])
            ln = int(m.group(1))
            pos += m.end() + ln
            value = b'<literal>'
        elif ch == b'"':
            vstart = pos
            pos += 1
            while pos < n and body[pos:pos + 1] != b'"':
                pos += 2 if body[pos:pos + 1] == b'\\' else 1
            pos += 1
            value = body[vstart:pos]
        else:
            vstart = pos
            while pos < n and body[pos:pos + 1] != b' ':
                pos += 1
            value = body[vstart:pos]
        if name == b'FLAGS':
            inner = value[1:-1].split()
            flags = flagset(inner)
        elif name == b'UID':
            uid = int(value)
    return flags, uid


_TAGGED = re.compile(rb'^([A-Za-z0-9.]+) (OK|NO|BAD)(?: \[([^\]]*)\])?(?: (.*))?$', re.S)


def _parse_code(code: bytes | None):
    if code is None:
        return ('none',)
    parts = code.split(b' ')
    name = parts[0].upper()
    if name == b'EXPUNGEISSUED':
        return ('expungeissued',)
    if name == b'READ-WRITE':
        return ('readwrite',)
    if name == b'READ-ONLY':
        return ('readonly',)
    if name == b'TRYCREATE':
        return ('trycreate',)
    if name == b'NONEXISTENT':
        return ('nonexistent',)
    if name == b'APPENDUID':
        return ('appenduid', _expand_set(parts[2]))
    if name == b'COPYUID':
        return ('copyuid', list(zip(_expand_set(parts[2]), _expand_set(parts[3]))))
    return ('othercode', code)


def parse_responses(data: bytes, by_uid_search: bool = False) -> list[tuple]:
    """Canonical responses of one command:
    ('expunge', n) ('exists', n) ('recent', n) ('fetch', seq, uid|None, flags|None)
    ('search', by_uid, ids) ('okcode', code) ('uidnext', n) ('unseen', n) ('cont',)
    ('tagged', cond, code) ('bye', text) ('other', line).  Informational lines of
    SELECT/LIST/STATUS that the store model does not produce are dropped
    explicitly by kind."""
    out: list[tuple] = []
    for kind, line in _split_lines(data):
        if kind == 'partial':
            out.append(('other', line))
            continue
        if line.startswith(b'+ '):
            out.append(('cont',))
            continue
        if line.startswith(b'* '):
            rest = line[2:]
            m = re.match(rb'^(\d+) (EXPUNGE|EXISTS|RECENT)$', rest)
            if m:
                out.append((m.group(2).decode().lower(), int(m.group(1))))
                continue
            m = re.match(rb'^(\d+) FETCH \((.*)\)$', rest, re.S)
            if m:
                flags, uid = _parse_fetch_items(m.group(2))
                out.append(('fetch', int(m.group(1)), uid, flags))
                continue
            m = re.match(rb'^SEARCH((?: \d+)*)$', rest)
            if m:
                out.append(('search', by_uid_search, [int(x) for x in m.group(1).split()]))
                continue
            m = re.match(rb'^OK(?: \[([^\]]*)\])? (.*)$', rest, re.S)
            if m:
                code, text = m.group(1), m.group(2)
                cname = (code or b'').split(b' ')[0].upper()
                if text.startswith(b'Moved.'):
                    out.append(('okcode', _parse_code(code)))
                elif cname == b'UIDNEXT':
                    out.append(('uidnext', int(code.split(b' ')[1])))
                elif cname == b'UNSEEN':
                    out.append(('unseen', int(code.split(b' ')[1])))
                elif cname in (b'PERMANENTFLAGS', b'UIDVALIDITY', b'MAILBOXID'):
                    pass
                else:
                    out.append(('other', line))
                continue
            if re.match(rb'^(FLAGS \(|LIST \(|STATUS )', rest):
                continue
            if rest.startswith(b'BYE'):
                out.append(('bye', rest))
                continue
            out.append(('other', line))
            continue
        m = _TAGGED.match(line)
        if m:
            out.append(('tagged', m.group(2).decode(), _parse_code(m.group(3))))
            continue
        out.append(('other', line))
    return out


# ------------------------------------------------------------ glass box
def find_state(conn: Conn):
    """The ConnectionState of a connection: a local of IMAPServer.__call__,
    reached through the chain of awaited coroutines of the serving task."""
    coro = conn.task.get_coro() if conn.task is not None else None
    seen = 0
    while coro is not None and seen < 50:
        frame = getattr(coro, 'cr_frame', None) or getattr(coro, 'gi_frame', None)
        if frame is not None and 'state' in frame.f_locals and \
                type(frame.f_locals['state']).__name__ == 'ConnectionState':
            return frame.f_locals['state']
        coro = getattr(coro, 'cr_await', None) or getattr(coro, 'gi_yieldfrom', None)
        seen += 1
    return None


def sel_obs(selected):
    if selected is None:
        return None
    m = selected._messages
    return {
        'sorted': list(m._sorted),
        'uids': sorted(m._uids),
        'seqs': sorted(m._seqs_cache.items()),
        'fkeys': sorted((u, flagset(k[1])) for u, k in m._flags_key_map.items()),
        'fkeyset': sorted((k[0], flagset(k[1])) for k in m._flags_key_set),
        'cache': sorted(m._cache),
        'pending': sorted(m._pending_remove),
        'recent': sorted(selected._session_flags._recent),
        'sflags': sorted(selected._session_flags._flags),
        'modseq': selected._mod_sequence,
        'hide': bool(selected._hide_expunged),
        'readonly': bool(selected._readonly),
    }


def box_obs(mbx):
    lg = mbx._mod_sequences
    return {
        'max_uid': mbx._max_uid,
        'msgs': [(u, flagset(m.permanent_flags), bool(m.recent)) for u, m in mbx._messages.items()],
        'highest': lg._highest,
        'uids': sorted(lg._uids.items()),
        'updates': sorted((q, sorted(s)) for q, s in lg._updates.items()),
        'expunges': sorted((q, sorted(s)) for q, s in lg._expunges.items()),
        'order': list(lg._mod_seqs_order),
        'readonly': bool(mbx._readonly),
    }


class AConn(Conn):
    """Conn that measures whether the server task yields to the event loop
    between reading a command line and asking for the next one."""

    def __init__(self, *a, **kw) -> None:
        super().__init__(*a, **kw)
        self._in_cmd = False
        self._mark = False
        self.suspensions = 0

    async def readline(self) -> bytes:
        ret = await super().readline()
        self._mark = False

        def mark() -> None:
            self._mark = True
        asyncio.get_running_loop().call_soon(mark)
        self._in_cmd = True
        return ret

    async def _need(self) -> None:
        if self._in_cmd:
            if self._mark:
                self.suspensions += 1
            self._in_cmd = False
        await super()._need()


_PICKS: list = []
_patched = False


def _patch_pick() -> None:
    """Record what BaseSession._pick_selected returns (harness process only)."""
    global _patched
    if _patched:
        return
    from pymap.backend.session import BaseSession
    orig = BaseSession._pick_selected.__func__

    def recording(cls, selected, mbx):
        ret = orig(cls, selected, mbx)
        _PICKS.append(ret)
        return ret
    BaseSession._pick_selected = classmethod(recording)
    _patched = True


class StoreRun:
    """N connections on one dict-backend account; `do(label)` executes one
    label on the real server."""

    def __init__(self) -> None:
        self.env: DictEnv | None = None
        self.conns: dict[int, AConn] = {}
        self.states: dict[int, object] = {}
        self.idle: dict[int, bytes] = {}     # session -> tag of the pending IDLE
        self.ntag = 0
        self.mailbox_set = None
        self.atomicity: list[tuple] = []     # (label, suspensions) that differ from the model's assumption
        self.raw: dict[int, list[bytes]] = {}

    async def start(self, sessions) -> 'StoreRun':
        _patch_pick()
        self.env = await DictEnv().start()
        for s in sessions:
            await self.connect(s)
        return self

    async def connect(self, s: int) -> None:
        conn = AConn(self.env.imap())
        conn.greeting = await conn.start()
        r = await conn.send(b'l0 LOGIN testuser testpass\r\n')
        assert b'l0 OK' in r, r
        self.conns[s] = conn
        self.states[s] = find_state(conn)
        assert self.states[s] is not None
        self.raw[s] = []
        if self.mailbox_set is None:
            self.mailbox_set = self.states[s]._session.mailbox_set

    def box(self, num: int):
        name = BOX_NAME[num]
        if name == 'INBOX':
            return self.mailbox_set._inbox
        return self.mailbox_set._set.get(name)

    def alive_uids(self, num: int) -> set[int]:
        """The uids of the messages the mailbox holds now (glass box)."""
        mbx = self.box(num)
        return set(mbx._messages) if mbx is not None else set()

    def message_exists(self, num: int, uid: int) -> bool:
        return uid in self.alive_uids(num)

    def boxes(self) -> dict[int, object]:
        out = {1: self.mailbox_set._inbox}
        for name, mbx in self.mailbox_set._set.items():
            if name in BOX_NUM:
                out[BOX_NUM[name]] = mbx
        return out

    def selected(self, s: int):
        return self.states[s]._selected

    def setup_labels(self) -> list[tuple]:
        """Labels that rebuild the initial state of the account in the model."""
        labels = []
        content = 1
        for num, mbx in sorted(self.boxes().items()):
            labels.append(('createbox', num, bool(mbx._readonly)))
            for _u, m in mbx._messages.items():
                labels.append(('deliver', num, flagset(m.permanent_flags), bool(m.recent), content))
                content += 1
        return labels

    def observe(self, exclude=()) -> dict:
        return {'sels': {s: sel_obs(self.selected(s)) for s in sorted(self.conns)
                         if s not in exclude},
                'boxes': {n: box_obs(b) for n, b in sorted(self.boxes().items())}}

    def _who(self, picked) -> int | None:
        if picked is None:
            return None
        for s, st in self.states.items():
            sel = st._selected
            if sel is not None and sel._session_flags is picked._session_flags:
                return s
        return -1

    async def settle(self) -> None:
        for _ in range(12):
            await asyncio.sleep(0)

    async def do(self, label) -> tuple[tuple, list[tuple], bytes]:
        """Execute one label; returns (label with oracles filled in,
        canonical responses, raw bytes)."""
        kind = label[0]
        if kind == 'cmd':
            _, s, c = label
            conn = self.conns[s]
            self.ntag += 1
            tag = b't%d' % self.ntag
            _PICKS.clear()
            before = conn.suspensions
            raw = await conn.send(cmd_bytes(tag, c))
            susp = conn.suspensions - before
            expected = 1 if (c[0] == 'check' and b' OK' in raw) else 0
            if c[0] == 'idle':
                if raw.startswith(b'+'):
                    self.idle[s] = tag
                    # a mailbox that changed since the last command is reported at once
                    # (by the updates task, which may run after the reader task starved)
                    await self.settle()
                    raw += conn.take()
                # the connection now waits in read_idle_done, not in readline
            elif susp != expected:
                self.atomicity.append((label, susp))
            if c[0] in ('append', 'copy', 'move'):
                picks = {self._who(p) for p in _PICKS}
                pick = picks.pop() if len(picks) == 1 else (None if not picks else -2)
                c = c[:-1] + (pick,)
                label = ('cmd', s, c)
            self.raw[s].append(raw)
            by_uid_search = c[0] == 'search' and c[1]
            return label, parse_responses(raw, by_uid_search), raw
        if kind == 'done':
            s = label[1]
            conn = self.conns[s]
            raw = await conn.send(b'DONE\r\n')
            self.idle.pop(s, None)
            self.raw[s].append(raw)
            return label, parse_responses(raw), raw
        if kind == 'wake':
            s = label[1]
            await self.settle()
            raw = self.conns[s].take()
            self.raw[s].append(raw)
            return label, parse_responses(raw), raw
        if kind == 'deliver':
            from pymap.parsing.message import AppendMessage
            from pymap.parsing.specials.flag import Flag
            _, box, fl, recent, content = label
            msg = AppendMessage(content_bytes(content), None,
                                frozenset(Flag(FLAG_BYTES[f]) for f in fl))
            await self.box(box).append(msg, recent=recent)
            return label, [], b''
        raise ValueError(label)

    async def close(self) -> None:
        for conn in self.conns.values():
            try:
                if not conn.closed:
                    await conn.send_eof()
            except Exception:
                pass


# ------------------------------------------------------------ encoders
def enc_flags(fl) -> str:
    return T.nlist(fl)


def enc_sset(sset) -> str:
    def idx(x):
        return 'SMax' if x == '*' else f'(SNum {T.N(x)})'
    return T.lst(f'(SRange {idx(e[0])} {idx(e[1])})' if isinstance(e, tuple) else f'(SOne {idx(e)})'
                 for e in sset)


def enc_opt(x, f) -> str:
    return 'None' if x is None else f'(Some {f(x)})'


def enc_cmd(c) -> str:
    k = c[0]
    if k == 'select':
        return f'(CSelect {T.N(c[1])} {T.boolean(c[2])})'
    if k == 'append':
        msgs = T.lst(T.pair(enc_flags(fl), T.N(content)) for fl, content in c[2])
        return f'(CAppend {T.N(c[1])} {msgs} {enc_opt(c[3], T.N)})'
    if k == 'store':
        _, sset, by_uid, op, fl, silent = c
        return (f'(CStore {enc_sset(sset)} {T.boolean(by_uid)} {OP_COQ[op]} {enc_flags(fl)} '
                f'{T.boolean(silent)})')
    if k == 'expunge':
        return f'(CExpunge {enc_opt(c[1], enc_sset)})'
    if k in ('copy', 'move'):
        _, sset, by_uid, box, pick = c
        ctor = 'CCopy' if k == 'copy' else 'CMove'
        return f'({ctor} {enc_sset(sset)} {T.boolean(by_uid)} {T.N(box)} {enc_opt(pick, T.N)})'
    if k == 'fetch':
        _, sset, by_uid, want_uid, set_seen = c
        return (f'(CFetch {enc_sset(sset)} {T.boolean(by_uid)} {T.boolean(want_uid)} '
                f'{T.boolean(set_seen)})')
    if k == 'search':
        _, by_uid, sskey, fkeys = c
        sk = enc_opt(sskey, lambda x: T.pair(enc_sset(x[0]), T.boolean(x[1])))
        fk = T.lst(T.pair(T.N(f), T.boolean(e)) for f, e in fkeys)
        if not fkeys:
            fk = '(@nil (N * bool))'
        return f'(CSearch {T.boolean(by_uid)} {sk} {fk})'
    return {'noop': 'CNoop', 'check': 'CCheck', 'touch': 'CTouch', 'close': 'CClose',
            'idle': 'CIdle'}[k]


def enc_label(label) -> str:
    k = label[0]
    if k == 'cmd':
        return f'(Cmd {T.N(label[1])} {enc_cmd(label[2])})'
    if k == 'wake':
        return f'(IdleWake {T.N(label[1])})'
    if k == 'done':
        return f'(IdleDone {T.N(label[1])})'
    if k == 'deliver':
        _, box, fl, recent, content = label
        return f'(Deliver {T.N(box)} {enc_flags(fl)} {T.boolean(recent)} {T.N(content)})'
    if k == 'createbox':
        return f'(CreateBox {T.N(label[1])} {T.boolean(label[2])})'
    if k == 'createmaildir':
        return f'(CreateMaildir {T.N(label[1])})'
    raise ValueError(label)


def enc_code(code) -> str:
    k = code[0]
    if k == 'appenduid':
        return f'(CAppendUid {T.nlist(code[1])})'
    if k == 'copyuid':
        return '(CCopyUid ' + T.lst(T.pair(T.N(a), T.N(b)) for a, b in code[1]) + ')'
    return {'none': 'CNone', 'expungeissued': 'CExpungeIssued', 'readwrite': 'CReadWrite',
            'readonly': 'CReadOnly', 'trycreate': 'CTryCreate',
            'nonexistent': 'CNonexistent'}.get(k, 'CNone')


def enc_resp(r) -> str:
    k = r[0]
    if k in ('expunge', 'exists', 'recent', 'uidnext', 'unseen'):
        ctor = {'expunge': 'Expunge', 'exists': 'Exists', 'recent': 'Recent',
                'uidnext': 'UidNext', 'unseen': 'Unseen'}[k]
        return f'({ctor} {T.N(r[1])})'
    if k == 'fetch':
        _, seq, uid, flags = r
        return (f'(Fetch {T.N(seq)} {T.N(uid or 0)} {enc_flags(flags or [])} '
                f'{T.boolean(uid is not None)})')
    if k == 'search':
        ids = T.lst(T.pair(T.N(i), T.N(0)) for i in r[2])
        if not r[2]:
            ids = '(@nil (N * N))'
        return f'(Search {T.boolean(bool(r[1]))} {ids})'
    if k == 'okcode':
        return f'(OkCode {enc_code(r[1])})'
    if k == 'cont':
        return 'Cont'
    if k == 'tagged':
        return f'(Tagged {r[1]} {enc_code(r[2])})'
    return 'Bug'


def enc_nn(pairs) -> str:
    pairs = list(pairs)
    if not pairs:
        return '(@nil (N * N))'
    return T.lst(T.pair(T.N(a), T.N(b)) for a, b in pairs)


def enc_sel_obs(o, heavy=True) -> str:
    if o is None:
        return 'None'
    if heavy:
        fk = T.lst(T.pair(T.N(u), enc_flags(f)) for u, f in o['fkeys']) if o['fkeys'] \
            else '(@nil (N * flags))'
        extra = f'(Some ({enc_nn(o["seqs"])}, {fk}))'
    else:
        extra = 'None'
    return ('(Some (' + ', '.join([
        T.nlist(o['sorted']), T.nlist(o['pending']), T.nlist(o['recent']),
        enc_opt(o['modseq'], T.N), T.boolean(o['hide']), extra]) + '))')


def enc_nl(pairs) -> str:
    pairs = list(pairs)
    if not pairs:
        return '(@nil (N * list N))'
    return T.lst(T.pair(T.N(q), T.nlist(s)) for q, s in pairs)


def enc_box_obs(o, heavy=True) -> str:
    msgs = T.lst('(' + ', '.join([T.N(u), enc_flags(f), T.boolean(r)]) + ')'
                 for u, f, r in o['msgs']) if o['msgs'] else '(@nil (N * flags * bool))'
    if heavy and o.get('uids') is not None:
        log = ('(Some (' + ', '.join([enc_nn(o['uids']), enc_nl(o['updates']),
                                      enc_nl(o['expunges']), T.nlist(o['order'])]) + '))')
    else:
        log = 'None'
    highest = 'None' if o.get('highest') is None else f'(Some {T.N(o["highest"])})'
    return '(' + ', '.join([T.N(o['max_uid']), msgs, highest, log]) + ')'


NO_BELIEFS = '(@nil (N * list (N * flags)))'


def enc_beliefs(obs, last=None, full=True) -> str:
    """obs['beliefs'] = {session: [(uid, flags without \\Recent)]}: what the shadow client of
    the acting connection holds after the step (store_check.Monitored.hook); compared with
    the model's client (System.cfs_step).  Written when it changed or on a full step."""
    bel = (obs or {}).get('beliefs') or {}
    parts = []
    for s, lst in bel.items():
        enc = T.lst(T.pair(T.N(u), enc_flags(f)) for u, f in lst) if lst else '(@nil (N * flags))'
        if full or last is None or last.get(('c', s)) != enc:
            parts.append(T.pair(T.N(s), enc))
        if last is not None:
            last[('c', s)] = enc
    return T.lst(parts) if parts else NO_BELIEFS


def enc_step(label, responses, obs, last=None, full=True) -> str:
    """`last`: dict of the encodings written most recently per connection/mailbox;
    unless `full`, an observation equal to the last one written is left out (the
    checker compares what is listed; the final step of a case lists everything)."""
    out = T.lst(enc_resp(r) for r in responses) if responses else '(@nil resp)'
    sels, boxes = [], []
    for s, o in obs['sels'].items():
        light = enc_sel_obs(o, heavy=False)
        if full or last is None or last.get(('s', s)) != light:
            sels.append(T.pair(T.N(s), enc_sel_obs(o, heavy=full)))
        if last is not None:
            last[('s', s)] = light
    for n, o in obs['boxes'].items():
        light = enc_box_obs(o, heavy=False)
        if full or last is None or last.get(('b', n)) != light:
            boxes.append(T.pair(T.N(n), enc_box_obs(o, heavy=full)))
        if last is not None:
            last[('b', n)] = light
    sels_t = T.lst(sels) if sels else '(@nil (N * option sel_obs))'
    boxes_t = T.lst(boxes) if boxes else '(@nil (N * box_obs))'
    return f'({enc_label(label)}, MkObs {out} {sels_t} {boxes_t} {enc_beliefs(obs, last, full)})'


def enc_case(setup, steps, light: bool = False) -> str:
    """steps = [(label, responses, obs)].  light: glass-box observations only
    at the last step (used for the many short schedule traces)."""
    pre = T.lst(enc_label(x) for x in setup) if setup else '(@nil label)'
    last: dict = {}
    parts = []
    for i, s in enumerate(steps):
        final = i == len(steps) - 1
        if light and not final:
            label, responses, _obs = s
            out = T.lst(enc_resp(r) for r in responses) if responses else '(@nil resp)'
            parts.append(f'({enc_label(label)}, MkObs {out} (@nil (N * option sel_obs)) '
                         f'(@nil (N * box_obs)) {NO_BELIEFS})')
        else:
            parts.append(enc_step(*s, last=last, full=(final or i % 8 == 7)))
    body = T.lst(parts) if parts else '(@nil (label * step_obs))'
    return f'({pre},\n   {body})'


HEADER = ('From PV Require Import Base.Prelude Store.Base Store.Flags Store.ModSeq Store.Mailbox '
          'Store.View Store.Compare Store.Session Store.System Store.StoreCheck Wire.SeqSet.\n'
          'Local Open Scope N_scope.\n')
