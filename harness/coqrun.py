"""Coq side of a check: build, property-file re-check with Print Assumptions,
forbidden-token scan, and evaluation of generated case files by vm_compute."""
from __future__ import annotations

import fcntl
import os
import re
import subprocess
import time
from concurrent.futures import ThreadPoolExecutor

VERIF = os.path.dirname(os.path.dirname(os.path.abspath(__file__)))
COQ = os.path.join(VERIF, 'coq')
TH = os.path.join(COQ, 'theories')
WORK = os.path.join(VERIF, '.work')
LOGICAL = 'PV'

FORBIDDEN = re.compile(
    r'\b(Admitted|admit|Axiom|Axioms|Parameter|Parameters|Conjecture|'
    r'Admit\s+Obligations|bypass_check|native_compute)\b|'
    r'Unset\s+Guard|Unset\s+Positivity|Unset\s+Universe|type-in-type|'
    r'impredicative-set')
# Variable/Hypothesis are allowed only inside a Section
SECTION_ONLY = re.compile(r'^\s*(Variable|Variables|Hypothesis|Hypotheses|Context)\b')

# axioms declared by the standard library that a development may rely on
STDLIB_AXIOMS = (
    'functional_extensionality_dep', 'propositional_extensionality',
    'classic', 'proof_irrelevance', 'JMeq_eq', 'eq_rect_eq',
    'constructive_indefinite_description', 'constructive_definite_description',
    'ClassicalDedekindReals.sig_forall_dec', 'sig_forall_dec',
    'ClassicalDedekindReals.sig_not_dec', 'sig_not_dec',
    'FunctionalExtensionality.functional_extensionality_dep',
    'Eqdep.Eq_rect_eq.eq_rect_eq', 'Classical_Prop.classic',
)


def _strip_comments(text: str) -> str:
    out = []
    depth = 0
    i = 0
    n = len(text)
    in_str = False
    while i < n:
        c = text[i]
        if depth == 0 and c == '"':
            in_str = not in_str
            out.append(c)
            i += 1
            continue
        if not in_str and text.startswith('(*', i):
            depth += 1
            i += 2
            continue
        if not in_str and depth > 0 and text.startswith('*)', i):
            depth -= 1
            i += 2
            continue
        if depth == 0:
            out.append(c)
        elif c == '\n':
            out.append('\n')
        i += 1
    return ''.join(out)


def all_v_files() -> list[str]:
    res = []
    for root, _dirs, files in os.walk(TH):
        for f in sorted(files):
            if f.endswith('.v'):
                res.append(os.path.relpath(os.path.join(root, f), COQ))
    return sorted(res)


_REQ = re.compile(r'From\s+PV\s+Require\s+(?:Import\s+|Export\s+)?(.*?)\.(?=\s|$)', re.S)
_REQ2 = re.compile(r'Require\s+(?:Import\s+|Export\s+)?((?:PV\.[A-Za-z0-9_.\']+\s*)+)\.(?=\s|$)')


def closure(targets: list[str]) -> list[str]:
    """Files (relative to coq/) that the targets depend on, transitively,
    following `From PV Require ... A.B` and `Require ... PV.A.B`."""
    seen: list[str] = []
    todo = [t if t.endswith('.v') else t + '.v' for t in targets]
    while todo:
        rel = todo.pop()
        if rel in seen or not os.path.exists(os.path.join(COQ, rel)):
            continue
        seen.append(rel)
        text = _strip_comments(open(os.path.join(COQ, rel)).read())
        mods = []
        for m in _REQ.finditer(text):
            mods += m.group(1).split()
        for m in _REQ2.finditer(text):
            mods += [x[3:] for x in m.group(1).split()]
        for mod in mods:
            mod = mod.strip()
            if re.fullmatch(r"[A-Za-z0-9_.']+", mod):
                todo.append('theories/' + mod.replace('.', '/') + '.v')
    return sorted(seen)


def forbidden_scan(targets: list[str] | None = None) -> list[str]:
    hits = []
    for rel in (closure(targets) if targets else all_v_files()):
        text = _strip_comments(open(os.path.join(COQ, rel)).read())
        depth = 0
        for ln, line in enumerate(text.split('\n'), 1):
            if re.match(r'^\s*Section\b', line):
                depth += 1
            m = FORBIDDEN.search(line)
            if m:
                hits.append(f'{rel}:{ln}: {m.group(0)}')
            if SECTION_ONLY.match(line) and depth == 0:
                hits.append(f'{rel}:{ln}: {line.strip()} outside Section')
            if re.match(r'^\s*End\b', line) and depth > 0:
                depth -= 1
    return hits


def _sh(cmd, cwd=None, timeout=900, env=None):
    t0 = time.time()
    try:
        p = subprocess.run(cmd, cwd=cwd, shell=isinstance(cmd, str),
                           stdout=subprocess.PIPE, stderr=subprocess.STDOUT,
                           timeout=timeout, env=env)
        return p.returncode, p.stdout.decode('utf-8', 'replace'), time.time() - t0
    except subprocess.TimeoutExpired as exc:
        out = (exc.stdout or b'').decode('utf-8', 'replace')
        return 124, out + '\nTIMEOUT', time.time() - t0


def build(timeout: int = 1500, targets: list[str] | None = None) -> tuple[bool, str]:
    """Full .vo build (incremental), serialized by a file lock so that
    concurrent checks do not race in make.  With `targets` (paths relative to
    coq/, without extension, e.g. 'theories/Props/C18') only those files and
    everything they depend on are (re)built; setup.sh builds everything."""
    os.makedirs(WORK, exist_ok=True)
    with open(os.path.join(WORK, 'make.lock'), 'w') as lock:
        fcntl.flock(lock, fcntl.LOCK_EX)
        files = all_v_files()
        proj = f'-Q theories {LOGICAL}\n' + '\n'.join(files) + '\n'
        pp = os.path.join(COQ, '_CoqProject')
        old = open(pp).read() if os.path.exists(pp) else None
        if old != proj or not os.path.exists(os.path.join(COQ, 'Makefile')):
            open(pp, 'w').write(proj)
            rc, out, _ = _sh('coq_makefile -f _CoqProject -o Makefile', cwd=COQ)
            if rc != 0:
                return False, out
        tgt = ' '.join(t + '.vo' for t in targets) if targets else ''
        rc, out, _ = _sh(f'timeout {timeout} make -j16 -k {tgt} 2>&1 | tail -60',
                         cwd=COQ, timeout=timeout + 30)
        # make's own status is hidden by tail: look at the files
        want = [t + '.v' for t in targets] if targets else files
        missing = [f for f in want
                   if not os.path.exists(os.path.join(COQ, f[:-2] + '.vo'))
                   or os.path.getmtime(os.path.join(COQ, f[:-2] + '.vo'))
                   < os.path.getmtime(os.path.join(COQ, f))]
        if missing:
            return False, out + '\nNOT BUILT: ' + ' '.join(missing)
        return True, out


def check_prop_file(prop: str, timeout: int = 600) -> dict:
    """Re-run coqc on Props/<prop>.v and pair every theorem with the
    Print Assumptions block that follows it."""
    rel = f'theories/Props/{prop}.v'
    path = os.path.join(COQ, rel)
    res = {'file': rel, 'ok': False, 'theorems': [], 'log': '', 'axioms': []}
    if not os.path.exists(path):
        res['log'] = 'missing ' + rel
        return res
    src = _strip_comments(open(path).read())
    thms = re.findall(r'^\s*(?:Theorem|Lemma|Corollary)\s+([A-Za-z0-9_\']+)', src, re.M)
    printed = re.findall(r'Print\s+Assumptions\s+([A-Za-z0-9_\'.]+)\s*\.', src)
    outdir = os.path.join(WORK, 'props')
    os.makedirs(outdir, exist_ok=True)
    rc, out, wall = _sh(['timeout', str(timeout), 'coqc', '-Q', 'theories', LOGICAL,
                         '-o', os.path.join(outdir, prop + '.vo'), rel],
                        cwd=COQ, timeout=timeout + 10)
    res['log'] = out[-4000:]
    res['wall_s'] = round(wall, 2)
    if rc != 0:
        return res
    blocks = []
    cur = None
    for line in out.split('\n'):
        if line.startswith('Closed under the global context'):
            blocks.append([])
            cur = None
        elif line.startswith('Axioms:'):
            cur = []
            blocks.append(cur)
        elif cur is not None and line.strip():
            if re.match(r'^\S', line):
                cur.append(line.strip())
            elif cur:
                cur[-1] += ' ' + line.strip()
    missing_pa = [t for t in thms if t not in printed]
    if len(blocks) != len(printed) or missing_pa:
        res['log'] += (f'\nPrint Assumptions mismatch: {len(blocks)} blocks, '
                       f'{len(printed)} commands, theorems without: {missing_pa}')
        return res
    own_axioms = []
    for name, blk in zip(printed, blocks):
        axs = [a.split(':')[0].strip() for a in blk]
        res['theorems'].append({'name': name, 'assumptions': axs})
        for a in axs:
            if a.split('.')[-1] not in [s.split('.')[-1] for s in STDLIB_AXIOMS]:
                own_axioms.append(f'{name}: {a}')
            elif a not in res['axioms']:
                res['axioms'].append(a)
    if own_axioms:
        res['log'] += '\nnon-stdlib assumptions: ' + '; '.join(own_axioms)
        return res
    res['ok'] = True
    return res


def coqchk(prop: str, timeout: int = 900) -> tuple[bool, str]:
    rc, out, _ = _sh(['timeout', str(timeout), 'coqchk', '-silent', '-o', '-Q',
                      'theories', LOGICAL, f'{LOGICAL}.Props.{prop}'],
                     cwd=COQ, timeout=timeout + 10)
    return rc == 0, out[-3000:]


def case_dir(prop: str) -> str:
    """Per-process directory for generated case files (two runs of the same
    check may overlap)."""
    return os.path.join(WORK, 'cases', f'{prop}-{os.getpid()}')


_RESULT = re.compile(r'=\s*(.*?)\s*:\s*list nat', re.S)


def _run_shard(args):
    prop, name, k, header, typ, chunk, checker, timeout = args
    d = case_dir(prop)
    os.makedirs(d, exist_ok=True)
    base = f'{name}_{k}'
    path = os.path.join(d, base + '.v')
    with open(path, 'w') as f:
        f.write(header + '\n')
        f.write(f'Definition cases : list ({typ}) :=\n  [ ')
        f.write('\n  ; '.join(chunk))
        f.write(' ].\n')
        f.write(f'Eval vm_compute in (bad_indices ({checker}) cases).\n')
    rc, out, wall = _sh(['timeout', str(timeout), 'coqc', '-Q',
                         os.path.join(COQ, 'theories'), LOGICAL, path],
                        cwd=d, timeout=timeout + 10)
    if rc != 0:
        return k, None, out[-3000:], wall
    m = _RESULT.search(out)
    if not m:
        return k, None, 'unparsed: ' + out[-2000:], wall
    body = m.group(1).replace('%nat', '').strip()
    if body in ('[]', 'nil'):
        return k, [], '', wall
    idx = [int(x) for x in re.findall(r'\d+', body)]
    return k, idx, '', wall


def run_cases(prop: str, name: str, header: str, typ: str, cases: list[str],
              checker: str, shard: int = 300, timeout: int = 600,
              jobs: int = 8) -> dict:
    """Evaluate `checker` on every case inside Coq (vm_compute).
    Returns {'bad': [indices], 'errors': [...], 'wall_s': x}."""
    shards = [(prop, name, k, header, typ, cases[i:i + shard], checker, timeout)
              for k, i in enumerate(range(0, len(cases), shard))]
    bad: list[int] = []
    errors: list[str] = []
    t0 = time.time()
    with ThreadPoolExecutor(max_workers=jobs) as ex:
        for k, idx, err, _wall in ex.map(_run_shard, shards):
            if idx is None:
                errors.append(f'shard {k}: {err}')
            else:
                bad.extend(k * shard + i for i in idx)
    return {'bad': sorted(bad), 'errors': errors, 'wall_s': round(time.time() - t0, 2),
            'n': len(cases)}


def eval_term(prop: str, name: str, header: str, term: str, timeout: int = 300) -> str:
    """vm_compute one term and return Coq's printed answer (for replays)."""
    d = case_dir(prop)
    os.makedirs(d, exist_ok=True)
    path = os.path.join(d, name + '.v')
    with open(path, 'w') as f:
        f.write(header + '\n')
        f.write(f'Eval vm_compute in ({term}).\n')
    rc, out, _ = _sh(['timeout', str(timeout), 'coqc', '-Q',
                      os.path.join(COQ, 'theories'), LOGICAL, path],
                     cwd=d, timeout=timeout + 10)
    return out.strip()[-4000:]
