"""Second stage of harness/translate_layout.py: the filesystem *touch sets* of
the effectful layout functions, as Gallina functions of the name / parts and
of a directory listing.

    _BaseLayout.remove_folder, _BaseLayout._can_remove, FilesystemLayout._can_remove

are translated (per concrete class, late binding resolved as in stage one) to

    fx_<C>_remove_folder (listdir : pystr -> list pystr) (root name delimiter : pystr)
        : pyres (list touch)
    fx_<C>__can_remove  (listdir) (root) (parts : list pystr) : list touch

where a `touch` (Namespace/PyFs.v) is TRead p (os.listdir / os.path.isdir),
TMut p (os.rmdir / os.remove / open(.., 'x')) or TMutTree p (p and everything
below it: the bottom-up os.walk removal idiom, os.rename, Maildir(create=True)).
The translation is an *over-approximation of control flow*: a condition that
asks the filesystem (os.path.isdir, self._can_remove) contributes its own reads
and then both branches are taken; a `for elem in os.listdir(p)` ranges over the
`listdir` argument (any function: the theorems quantify over it); statements
after a `raise`/`return` of the same block are dropped; conditions that do not
ask the filesystem are kept.  So the generated list contains every path the
function can pass to a filesystem call, for every state of the filesystem.

Fail closed like stage one: any statement / call form not listed in `FxFn.block`
raises TranslateError.
"""
from __future__ import annotations

import ast

from .translate_layout import (BASE, CONCRETE, ANNOT, Fn, Module, TranslateError,
                               _body, _dump, _fail)

FX_ROOTS = ['remove_folder', '_add_folder', 'rename_folder']

from .translate_layout import COQTY as _COQTY
COQTY = dict(_COQTY, nat='nat')

WALK_IDIOM = '''
for entry in files:
    os.remove(os.path.join(root, entry))
for entry in dirs:
    os.rmdir(os.path.join(root, entry))
'''


def _is(n, src: str) -> bool:
    return ast.dump(n) == ast.dump(ast.parse(src).body[0].value)


class FxFn(Fn):
    """One effectful method, translated to its touch set."""

    def __init__(self, fx: 'FxModule', ctx: str, definer: str, node: ast.FunctionDef,
                 gname: str) -> None:
        self.mod, self.ctx, self.definer, self.gname = fx.mod, ctx, definer, gname
        self.fx = fx
        self.is_attr = False
        fn = node
        if fn.decorator_list:
            _fail(fn, 'an effectful method must be a plain instance method')
        self.kind = 'self'
        a = fn.args
        if a.vararg or a.kwarg or a.defaults or a.kwonlyargs or a.posonlyargs \
                or not a.args or a.args[0].arg != 'self':
            _fail(fn, 'unsupported signature')
        self.params = []
        self.env = {}
        for p in a.args[1:]:
            if not isinstance(p.annotation, ast.Name) or p.annotation.id not in ('str', '_Parts'):
                _fail(fn, f'parameter {p.arg} needs annotation str or _Parts')
            self.params.append((p.arg, ANNOT[p.annotation.id]))
            self.env[p.arg] = ANNOT[p.annotation.id]
        if 'root' in self.env or 'listdir' in self.env:
            _fail(fn, 'parameter name clashes with the translation')
        rt = fn.returns
        if not ((isinstance(rt, ast.Constant) and rt.value is None)
                or (isinstance(rt, ast.Name) and rt.id == 'bool')):
            _fail(fn, 'return annotation must be None or bool')
        self.ret = 'touches'
        stmts = _body(fn)
        # leading assignments from raising stage-one methods (self._split)
        binds = []
        while stmts and isinstance(stmts[0], ast.Assign) and len(stmts[0].targets) == 1 \
                and isinstance(stmts[0].targets[0], ast.Name) and isinstance(stmts[0].value, ast.Call):
            mc = self.method_call(stmts[0].value, allow_raise=True)
            if mc is None or not mc[2]:
                break
            v = stmts[0].targets[0].id
            self.check_local(stmts[0], v)
            self.env[v] = mc[1]
            binds.append((v, mc[0]))
            stmts = stmts[1:]
        self.raises = bool(binds)
        body = self.tblock(stmts)
        if self.raises:
            body = f'PRet (\n{body})'
            for v, t in reversed(binds):
                body = f'pybind {t} (fun {v} =>\n{body})'
        ps = ''.join(f' ({n} : {COQTY[t]})' for n, t in self.params)
        rty = 'pyres (list touch)' if self.raises else 'list touch'
        self.text = (f'(* touch set of {definer}.{fn.name} for a {ctx} *)\n'
                     f'Definition {gname} (listdir : pystr -> list pystr) (root : pystr){ps} : {rty} :=\n'
                     f'{body}.\n')

    def check_local(self, s, v: str) -> None:
        if v in ('cls', 'self', 'root', 'listdir', 'n_') or v.startswith(('gen_', 'fx_')):
            _fail(s, 'assignment to a reserved name')

    # stage-one expressions plus what the effectful bodies need
    def expr(self, n):
        # x.startswith(y)
        if isinstance(n, ast.Call) and isinstance(n.func, ast.Attribute) \
                and n.func.attr == 'startswith' and len(n.args) == 1 and not n.keywords:
            (xt, xty), (yt, yty) = self.expr(n.func.value), self.expr(n.args[0])
            if xty == yty == 'str':
                return f'(starts {yt} {xt})', 'bool'
            _fail(n, 'startswith on a non-str')
        # x[len(y):] on a str, xs[0:i] on _Parts with a loop index i
        if isinstance(n, ast.Subscript) and isinstance(n.ctx, ast.Load) \
                and isinstance(n.slice, ast.Slice) and n.slice.step is None:
            lo, up = n.slice.lower, n.slice.upper
            vt, vty = self.expr(n.value)
            if vty == 'str' and up is None and isinstance(lo, ast.Call) and not lo.keywords \
                    and isinstance(lo.func, ast.Name) and lo.func.id == 'len' and len(lo.args) == 1:
                yt, yty = self.expr(lo.args[0])
                if yty == 'str':
                    return f'(skipn (length {yt}) {vt})', 'str'
            if vty == 'strlist' and isinstance(lo, ast.Constant) and lo.value == 0 \
                    and type(lo.value) is int and isinstance(up, ast.Name) \
                    and self.env.get(up.id) == 'nat':
                return f'(firstn {up.id} {vt})', 'strlist'
        return super().expr(n)

    def range_bounds(self, it: ast.Call) -> str:
        """range(a, len(x) [- k]) with literals a, k  ->  the list of indices"""
        if len(it.args) != 2 or it.keywords:
            _fail(it, 'range() must have two arguments')
        a, b = it.args
        k = 0
        if isinstance(b, ast.BinOp) and isinstance(b.op, ast.Sub) and isinstance(b.right, ast.Constant) \
                and type(b.right.value) is int and 0 <= b.right.value < 100:
            k, b = b.right.value, b.left
        if not (isinstance(a, ast.Constant) and type(a.value) is int and 0 <= a.value < 100
                and isinstance(b, ast.Call) and isinstance(b.func, ast.Name) and b.func.id == 'len'
                and len(b.args) == 1 and not b.keywords):
            _fail(it, 'range(a, len(x) [- k]) with small literals only')
        xt, xty = self.expr(b.args[0])
        if xty != 'strlist':
            _fail(it, 'len() of something that is not _Parts')
        # Python: max(0, len - k - a) indices from a; nat subtraction truncates the same way
        return f'(seq {a.value} (length {xt} - {k} - {a.value}))'

    # ------------------------------------------------------------ fs calls
    def fs_reads(self, n) -> list[str] | None:
        """touches of a condition that asks the filesystem, or None if it does not"""
        if isinstance(n, ast.UnaryOp) and isinstance(n.op, ast.Not):
            return self.fs_reads(n.operand)
        if isinstance(n, ast.Call) and not n.keywords and len(n.args) == 1 \
                and _is(n.func, 'os.path.isdir'):
            t, ty = self.expr(n.args[0])
            if ty != 'str':
                _fail(n, 'os.path.isdir of a non-str')
            return [f'[TRead {t}]']
        if isinstance(n, ast.Call) and not n.keywords and isinstance(n.func, ast.Attribute) \
                and isinstance(n.func.value, ast.Name) and n.func.value.id == 'self' \
                and n.func.attr in self.fx.fx_names():
            return [self.fx_call(n)]
        for x in ast.walk(n):
            if isinstance(x, ast.Attribute) and isinstance(x.value, ast.Name) and x.value.id == 'os' \
                    and x.attr not in ('sep', 'path'):
                _fail(n, 'a filesystem call inside a compound condition')
            if isinstance(x, ast.Call) and isinstance(x.func, ast.Name) and x.func.id == 'open':
                _fail(n, 'open() inside a condition')
        return None

    def fx_call(self, n: ast.Call) -> str:
        target = self.fx.need(self.ctx, n.func.attr)
        if target.raises:
            _fail(n, 'call of a raising effectful method')
        if len(n.args) != len(target.params):
            _fail(n, 'wrong number of arguments')
        args = []
        for a, (_pn, pt) in zip(n.args, target.params):
            t, ty = self.expr(a)
            if ty != pt:
                _fail(n, f'argument of type {ty} where {pt} is expected')
            args.append(t)
        return '(' + ' '.join([target.gname, 'listdir', 'root'] + args) + ')'

    def path_arg(self, n, what) -> str:
        t, ty = self.expr(n)
        if ty != 'str':
            _fail(what, 'path argument of a non-str')
        return t

    def ends_block(self, stmts) -> bool:
        return bool(stmts) and isinstance(stmts[-1], (ast.Raise, ast.Return))

    def assigned(self, stmts) -> set:
        out = set()
        for s in stmts:
            for x in ast.walk(s):
                if isinstance(x, ast.Name) and isinstance(x.ctx, ast.Store):
                    out.add(x.id)
        return out

    def scoped(self, stmts, rest_follows: bool) -> str:
        """a branch / loop body: its assignments are local to it; it must not
        rebind an outer name unless it ends in raise/return"""
        outer = dict(self.env)
        if rest_follows and not self.ends_block(stmts):
            clash = self.assigned(stmts) & set(outer)
            if clash:
                _fail(stmts[0], f'a branch that continues rebinds {sorted(clash)}')
        t = self.tblock(stmts)
        self.env = outer
        return t

    # ----------------------------------------------------------- statements
    def tblock(self, stmts) -> str:
        if not stmts:
            return '  []'
        s, rest = stmts[0], stmts[1:]
        if isinstance(s, ast.Pass) or (isinstance(s, ast.Expr) and isinstance(s.value, ast.Constant)
                                        and isinstance(s.value.value, str)):
            return self.tblock(rest)
        if isinstance(s, ast.Raise):
            # arguments of the exception are not evaluated for effects: only names, literals,
            # +, repr() and attribute constants are allowed in them
            for x in ast.walk(s):
                if isinstance(x, ast.Call) and not (
                        isinstance(x.func, ast.Name) and x.func.id in
                        ('OSError', 'FileNotFoundError', 'FileExistsError', 'repr', 'str')):
                    _fail(s, 'a call inside a raise')
            return '  []'
        if isinstance(s, ast.Return):
            if s.value is not None and not (isinstance(s.value, ast.Constant)
                                            and s.value.value in (True, False, None)):
                _fail(s, 'an effectful method may only return a constant')
            return '  []'
        if isinstance(s, ast.Assign) and len(s.targets) == 1 and isinstance(s.targets[0], ast.Name):
            v = s.targets[0].id
            self.check_local(s, v)
            t, ty = self.expr(s.value)
            if ty not in ('str', 'strlist', 'bool'):
                _fail(s, f'local variable of type {ty}')
            self.env[v] = ty
            return f'  (let {v} := {t} in\n{self.tblock(rest)})'
        if isinstance(s, ast.If):
            reads = self.fs_reads(s.test)
            then_ = self.scoped(list(s.body), bool(rest))
            else_ = self.scoped(list(s.orelse), bool(rest))
            rest_ = self.tblock(rest)
            if reads is None:
                c = self.truth(*self.expr(s.test), s.test)
                return f'  (if {c}\n  then (\n{then_})\n  else (\n{else_})) ++\n{rest_}'
            return (f'  {" ++ ".join(reads)} ++ (\n{then_}) ++ (\n{else_}) ++\n{rest_}')
        if isinstance(s, ast.For) and not s.orelse:
            it = s.iter
            if isinstance(s.target, ast.Name) and isinstance(it, ast.Call) and not it.keywords \
                    and len(it.args) == 1 and _is(it.func, 'os.listdir'):
                p = self.path_arg(it.args[0], s)
                v = s.target.id
                if v in self.env:
                    _fail(s, 'loop variable shadows a name')
                self.env[v] = 'str'
                body = self.scoped(list(s.body), True)
                del self.env[v]
                return (f'  TRead {p} :: flat_map (fun {v} =>\n{body}) (listdir {p}) ++\n'
                        f'{self.tblock(rest)}')
            if isinstance(s.target, ast.Name) and isinstance(it, ast.Call) \
                    and isinstance(it.func, ast.Name) and it.func.id == 'range':
                idx = self.range_bounds(it)
                v = s.target.id
                if v in self.env:
                    _fail(s, 'loop variable shadows a name')
                self.env[v] = 'nat'
                body = self.scoped(list(s.body), True)
                del self.env[v]
                return f'  flat_map (fun {v} =>\n{body}) {idx} ++\n{self.tblock(rest)}'
            if isinstance(it, ast.Call) and _is(it.func, 'os.walk') and len(it.args) == 1 \
                    and [(k.arg, getattr(k.value, 'value', None)) for k in it.keywords] \
                    == [('topdown', False)] \
                    and ast.dump(s.target) == ast.dump(ast.parse('root, dirs, files = 0').body[0].targets[0]) \
                    and _dump(s.body) == _dump(ast.parse(WALK_IDIOM).body):
                p = self.path_arg(it.args[0], s)
                return f'  TMutTree {p} ::\n{self.tblock(rest)}'
            _fail(s, 'unsupported loop')
        if isinstance(s, ast.Expr) and isinstance(s.value, ast.Call) and not s.value.keywords:
            c = s.value
            if (_is(c.func, 'os.rmdir') or _is(c.func, 'os.remove')) and len(c.args) == 1:
                return f'  TMut {self.path_arg(c.args[0], s)} ::\n{self.tblock(rest)}'
            if _is(c.func, 'os.rename') and len(c.args) == 2:
                return (f'  TMutTree {self.path_arg(c.args[0], s)} :: '
                        f'TMutTree {self.path_arg(c.args[1], s)} ::\n{self.tblock(rest)}')
            if isinstance(c.func, ast.Attribute) and isinstance(c.func.value, ast.Name) \
                    and c.func.value.id == 'self' and c.func.attr in self.fx.fx_names():
                return f'  {self.fx_call(c)} ++\n{self.tblock(rest)}'
        if isinstance(s, ast.Expr) and isinstance(s.value, ast.Call) \
                and _is(s.value.func, 'self._maildir') and len(s.value.args) == 1 \
                and [(k.arg, getattr(k.value, 'value', None)) for k in s.value.keywords] \
                == [('create', True)]:
            # Maildir(path, create=True): mkdir path, path/tmp, path/new, path/cur
            return f'  TMutTree {self.path_arg(s.value.args[0], s)} ::\n{self.tblock(rest)}'
        if isinstance(s, ast.With) and len(s.items) == 1 and s.items[0].optional_vars is None \
                and len(s.body) == 1 and isinstance(s.body[0], ast.Pass):
            c = s.items[0].context_expr
            if isinstance(c, ast.Call) and isinstance(c.func, ast.Name) and c.func.id == 'open' \
                    and len(c.args) == 2 and not c.keywords and isinstance(c.args[1], ast.Constant) \
                    and c.args[1].value == 'x':
                return f'  TMut {self.path_arg(c.args[0], s)} ::\n{self.tblock(rest)}'
        _fail(s, 'unsupported statement in an effectful method')


class FxModule:
    def __init__(self, mod: Module) -> None:
        self.mod = mod
        self.out: list[str] = []
        self.done: dict[tuple[str, str], FxFn] = {}
        self.active: list[tuple[str, str]] = []

    def fx_names(self) -> set:
        return {'_can_remove', 'remove_folder', '_add_folder', 'rename_folder', '_rename_folder'}

    def need(self, ctx: str, name: str) -> FxFn:
        key = (ctx, name)
        if key in self.done:
            return self.done[key]
        if key in self.active:
            raise TranslateError(f'layout.py: recursion through {key}')
        self.active.append(key)
        definer, node = self.mod.resolve(ctx, name)
        if not isinstance(node, ast.FunctionDef):
            _fail(node, f'{name} is not a method')
        fn = FxFn(self, ctx, definer, node, f'fx_{CONCRETE[ctx]}_{name}')
        self.active.pop()
        self.done[key] = fn
        self.out.append(fn.text)
        return fn

    def translate(self) -> str:
        head = ['(* GENERATED by harness/translate_layout_fx.py from pymap/backend/maildir/layout.py.',
                '   Do not edit: rewritten by ./check C08 whenever the source changes. *)',
                'From PV Require Import Base.Prelude Namespace.PyStr Namespace.PyFs Namespace.Glob',
                '     Namespace.NsBase Namespace.ListTree Namespace.NsModel Namespace.MdModel',
                '     Namespace.Paths Namespace.LayoutGen.', '']
        for c in CONCRETE:
            for m in FX_ROOTS:
                self.need(c, m)
        return '\n'.join(head + self.out)


def translate_fx(src: str, mailbox_src: str) -> tuple[str, str]:
    """(text of LayoutGen.v, text of LayoutFxGen.v)"""
    mod = Module(src, mailbox_src)
    first = mod.translate()
    return first, FxModule(mod).translate()


def regenerate(repo: str, coq_dir: str) -> tuple[bool, str]:
    """Both stages.  Returns (ok, message); writes Namespace/LayoutGen.v and
    Namespace/LayoutFxGen.v only when their text changes.  When a stage refuses
    the source its previous file is left alone and the caller reports the
    broken obligation."""
    import os
    from .translate_layout import paths, translate
    src_path, mb_path, out1 = paths(repo, coq_dir)
    out2 = os.path.join(os.path.dirname(out1), 'LayoutFxGen.v')
    try:
        src, mb = open(src_path).read(), open(mb_path).read()
    except OSError as exc:
        return False, f'translator harness/translate_layout.py cannot read {src_path}: {exc}'
    msgs, ok = [], True
    texts = {}
    try:
        texts[out1] = translate(src, mb)
    except (TranslateError, SyntaxError, RecursionError) as exc:
        return False, f'translator harness/translate_layout.py refused {src_path}: {exc}'
    try:
        texts[out2] = translate_fx(src, mb)[1]
    except (TranslateError, SyntaxError, RecursionError) as exc:
        ok = False
        msgs.append(f'translator harness/translate_layout_fx.py refused {src_path}: {exc}')
    for out, text in texts.items():
        old = open(out).read() if os.path.exists(out) else None
        if old != text:
            tmp = out + f'.{os.getpid()}.tmp'
            with open(tmp, 'w') as f:
                f.write(text)
            os.replace(tmp, out)
            msgs.append(os.path.basename(out) + ' regenerated')
        else:
            msgs.append(os.path.basename(out) + ' unchanged')
    return ok, '; '.join(msgs)


if __name__ == '__main__':
    import sys
    from .translate_layout import paths
    repo = sys.argv[1] if len(sys.argv) > 1 else '/repo'
    p = paths(repo, '.')
    print(translate_fx(open(p[0]).read(), open(p[1]).read())[1])
