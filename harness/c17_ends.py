"""C17 — every way a connection can end, with and without a selection,
deliveries before and after (round 5; the class of seeded change C17-7).

The property quantifies over whole session lifetimes: a session that has
ended has nothing selected, so a message delivered afterwards "arrived while
no session had the mailbox selected" and belongs to the next read-write
SELECT.  `harness/uidrecent.py` only ended connections by LOGOUT.  Here a
history may contain `('drop', s, kind)`: connection `s` ends in one of the
ways listed in `KINDS` (coq/theories/UidRecent/Drop.v `end_kind`), produced
on the real server through a fake transport that can fail (`FaultConn`): a
read that raises, an over-long line, EOF inside a literal, a write/drain
that raises, cancellation of the connection task while it reads, idles or
drains, an exception inside a command body (fault injection), too many BAD
commands.  The finished connection object - with the exception that escaped
its task, hence the traceback, the frames and the ConnectionState - stays
referenced by the driver, as a server that logs or keeps its finished tasks
does: whether the dead selection leaves the selected set must not depend on
garbage collection.

Observation of an end: what the client was told last (`farewell`) and how
the connection task finished (`exit`: returned / exception / cancelled); the
model (Drop.v `farewell_of`, `exit_of`) must predict both, and after the end
the connection holds no selection (`end_conn`), so the next deliveries and
SELECTs must be answered as the model says (`chk_xhistory`).  The monitors of
uidrecent.Monitor run over the same histories (an end is the end of the
session: its selection is gone).
"""
from __future__ import annotations

import asyncio
import gc
import math
import random
from unittest import mock

from . import coqterm as T
from . import uidrecent as U
from .pymap_env import Conn

HEADER = ('From PV Require Import Base.Prelude Wire.SeqSet '
          'UidRecent.Model UidRecent.Check UidRecent.Drop UidRecent.DropCheck.\n')

# kind -> (constructor, needs the connection to be idling)
KINDS = {
    'logout': ('ELogout', False),
    'eof': ('EEof', False),
    'eof_partial': ('EEofPartial', False),
    'reset': ('EReset', False),
    'line_limit': ('ELineLimit', False),
    'read_error': ('EReadError', False),
    'cancel_read': ('ECancelRead', False),
    'eof_literal': ('EEofLiteral', False),
    'eof_literal_plus': ('EEofLiteralPlus', False),
    'bad_limit': ('EBadLimit', False),
    'cmd_exc': ('ECmdExc', False),
    'write_reset': ('EWriteReset', False),
    'write_error': ('EWriteError', False),
    'cancel_write': ('ECancelWrite', False),
    'eof_idle': ('EEofIdle', True),
    'cancel_idle': ('ECancelIdle', True),
}
PLAIN_KINDS = [k for k, v in KINDS.items() if not v[1]]
IDLE_KINDS = [k for k, v in KINDS.items() if v[1]]
FAREWELL = {'none': 'FNone', 'logout': 'FLogout', 'serverbug': 'FServerBug',
            'unavailable': 'FUnavailable', 'toomany': 'FTooMany'}
EXIT = {'return': 'XReturn', 'exception': 'XException', 'cancelled': 'XCancelled'}

LIMIT = 2 ** 16          # asyncio.StreamReader's default limit


class InjectedFailure(RuntimeError):
    """raised inside a command body by the driver (a backend failure)"""


class FaultConn(Conn):
    """pymap_env.Conn whose transport can fail like a real one."""

    def __init__(self, server, **kw) -> None:
        super().__init__(server, **kw)
        self.read_fault: BaseException | None = None
        self.write_fault: BaseException | None = None
        self.limit = LIMIT

    async def _need(self) -> None:
        if self.read_fault is not None:
            raise self.read_fault
        await super()._need()
        if self.read_fault is not None:
            raise self.read_fault

    async def readline(self) -> bytes:
        # asyncio.StreamReader.readline: LimitOverrunError -> ValueError
        while True:
            i = self.buf.find(b'\n')
            if i >= 0:
                if i > self.limit:
                    del self.buf[:i + 1]
                    raise ValueError('Separator is found, but chunk is longer than limit')
                ret = bytes(self.buf[:i + 1])
                del self.buf[:i + 1]
                return ret
            if len(self.buf) > self.limit:
                self.buf.clear()
                raise ValueError('Separator is not found, and chunk exceed the limit')
            if self.eof:
                ret = bytes(self.buf)
                self.buf.clear()
                return ret
            await self._need()

    def write(self, data) -> None:
        if self.write_fault is not None:
            raise self.write_fault
        super().write(data)

    async def drain(self) -> None:
        if self.write_fault is not None:
            raise self.write_fault
        await super().drain()

    def wake(self) -> None:
        self._starved.clear()
        self._data.set()

    async def finished(self) -> bytes:
        """wait for the connection task to finish; what it wrote meanwhile"""
        if self.task is not None:
            await asyncio.wait_for(asyncio.shield(self.task), 10)
        return self.take()


def long_line(tag: bytes, rng_len: int) -> bytes:
    """a syntactically legal command line longer than the reader's limit"""
    n = rng_len // 8 + 1
    return tag + b' UID FETCH ' + b','.join([b'101:104'] * n) + b' (FLAGS)\r\n'


def farewell_of(raw: bytes) -> str:
    byes = U._BYE.findall(raw)
    if not byes:
        return 'none'
    last = byes[-1]
    if b'[SERVERBUG]' in last:
        return 'serverbug'
    if b'[UNAVAILABLE]' in last:
        return 'unavailable'
    if b'Too many errors' in last:
        return 'toomany'
    if b'Logging out' in last or b'logout' in last.lower():
        return 'logout'
    return 'other:' + last.decode('latin-1')[:40]


class EndWorld(U.World):
    """uidrecent.World over FaultConn connections, plus the `drop` operation."""

    def __init__(self, *a, **kw) -> None:
        super().__init__(*a, **kw)
        self.dead: list = []       # finished connections stay referenced

    async def conn(self, s: int):
        c = self.conns.get(s)
        if c is None or c.closed:
            c = FaultConn(self.env.imap())
            c.greeting = await c.start()
            r = await c.send(b'l0 LOGIN ' + self.user + b' ' + self.password + b'\r\n')
            assert b'l0 OK' in r, r
            self.conns[s] = c
        return c

    def _tag(self) -> bytes:
        self.ntag += 1
        return b't%d' % self.ntag

    async def _do(self, op) -> dict:
        if op[0] != 'drop':
            return await super()._do(op)
        _k, s, kind = op
        c = await self.conn(s)
        idling = s in self.idle
        if KINDS[kind][1] != idling:
            raise U.Unexpected(f'end {kind} on a connection that is '
                               f'{"" if idling else "not "}idling')
        self.idle_rest.pop(s, None)
        c.take()            # pushes that came before the end are not part of it
        raw = b''
        tag = self._tag()
        if kind == 'logout':
            raw += await asyncio.wait_for(c.send(tag + b' LOGOUT\r\n'), 10)
        elif kind in ('eof', 'eof_idle'):
            raw += await c.send_eof()
        elif kind == 'eof_partial':
            c.buf += tag + b' NOO'
            raw += await c.send_eof()
        elif kind == 'reset':
            c.read_fault = ConnectionResetError(104, 'Connection reset by peer')
            c.wake()
        elif kind == 'read_error':
            c.read_fault = TimeoutError(110, 'Connection timed out')
            c.wake()
        elif kind == 'line_limit':
            raw += await asyncio.wait_for(c.send(long_line(tag, c.limit + 17 * (self.ntag % 5))), 10)
        elif kind in ('cancel_read', 'cancel_idle'):
            c.task.cancel()
        elif kind == 'eof_literal':
            raw += await asyncio.wait_for(c.send(tag + b' APPEND INBOX {50}\r\n'), 10)
            if not raw.startswith(b'+'):
                raise U.Unexpected(f'no continuation request: {raw!r}')
            raw = b''
            c.buf += b'Subject: cut'
            raw += await c.send_eof()
        elif kind == 'eof_literal_plus':
            c.buf += tag + b' APPEND INBOX {50+}\r\nSubject: cut'
            raw += await c.send_eof()
        elif kind == 'bad_limit':
            for _ in range(12):
                raw += await asyncio.wait_for(c.send(self._tag() + b' BOGUS\r\n'), 10)
                if c.closed:
                    break
        elif kind == 'cmd_exc':
            from pymap.imap.state import ConnectionState

            async def failing(self_, cmd):
                raise InjectedFailure('injected backend failure')
            with mock.patch.object(ConnectionState, 'do_noop', failing):
                raw += await asyncio.wait_for(c.send(tag + b' NOOP\r\n'), 10)
        elif kind == 'write_reset':
            c.write_fault = ConnectionResetError(104, 'Connection reset by peer')
            c.read_fault = ConnectionResetError(104, 'Connection reset by peer')
            raw += await asyncio.wait_for(c.send(tag + b' NOOP\r\n'), 10)
        elif kind == 'write_error':
            c.write_fault = OSError(113, 'No route to host')
            raw += await asyncio.wait_for(c.send(tag + b' NOOP\r\n'), 10)
        elif kind == 'cancel_write':
            c.drain_gate = asyncio.Event()
            c.feed_nowait(tag + b' NOOP\r\n')
            await asyncio.wait_for(c.in_drain.wait(), 10)
            c.take()        # the response reached the transport, not the peer
            c.task.cancel()
        else:
            raise ValueError(kind)
        raw += await c.finished()
        self.log.append({'s': s, 'cmd': b'(end: %s)' % kind.encode(), 'raw': raw})
        if not c.closed:
            raise U.Unexpected(f'connection still open after {kind}: {raw!r}')
        exc = c.exc
        ex = ('return' if exc is None else
              'cancelled' if isinstance(exc, asyncio.CancelledError) else 'exception')
        self.idle.pop(s, None)
        self.idle_rest.pop(s, None)
        self.conns.pop(s, None)
        self.dead.append(c)
        gc.collect()
        return {'k': 'end', 'farewell': farewell_of(raw), 'exit': ex,
                'exc': type(exc).__name__ if exc is not None else None}


class XMirror(U.Mirror):
    def follow(self, op, ob) -> None:
        if op[0] == 'drop':
            op, ob = ('logout', op[1]), {'k': 'ok', 'post': (0, None, None)}
        super().follow(op, ob)


class XMonitor(U.Monitor):
    """the session is over: for the property an end of any kind is what a
    LOGOUT is - the connection has nothing selected any more"""

    def step(self, t: int, op, ob) -> None:
        if op[0] == 'drop':
            op, ob = ('logout', op[1]), {'k': 'ok', 'post': (0, None, None)}
        super().step(t, op, ob)


# ----------------------------------------------------------------- encoding
def enc_xcase(base: int, shared: bool, hist) -> str:
    items = []
    for op, ob in hist:
        if op[0] == 'drop':
            fw = FAREWELL.get(ob['farewell'])
            if fw is None:
                raise U.Unexpected(f'farewell {ob["farewell"]!r}')
            items.append(f'(Drop {T.N(op[1])} {KINDS[op[2]][0]}, XEnd {fw} {EXIT[ob["exit"]]})')
        else:
            items.append(f'(XOp {U.enc_op(op)}, XOut {U.enc_obs(ob)})')
    body = T.lst(items) if items else '(@nil (xop * xout))'
    return f'({T.N(base)}, {T.boolean(shared)}, {body})'


# --------------------------------------------------------------- generators
def end_scripts():
    """per-connection scripts that end in every way; 'S' = connection number"""
    lib = {}
    for kind in PLAIN_KINDS:
        lib['rw_end_' + kind] = [('select', 'S', 0, False), ('drop', 'S', kind)]
        lib['ro_end_' + kind] = [('select', 'S', 0, True), ('drop', 'S', kind)]
        lib['none_end_' + kind] = [('noop', 'S'), ('drop', 'S', kind)]
        lib['other_end_' + kind] = [('select', 'S', 1, False), ('drop', 'S', kind)]
    for kind in IDLE_KINDS:
        lib['rw_end_' + kind] = [('select', 'S', 0, False), ('idle', 'S'), ('drop', 'S', kind)]
        lib['ro_end_' + kind] = [('select', 'S', 0, True), ('idle', 'S'), ('drop', 'S', kind)]
    return lib


def gen_xop(rng, mir, nsess: int, p_end: float, **kw):
    """uidrecent.gen_op, and with probability `p_end` the end of a connection
    (more often one that has something selected)"""
    if rng.random() < p_end:
        withsel = [s for s in range(nsess) if mir.sel.get(s)]
        s = rng.choice(withsel) if withsel and rng.random() < 0.8 else rng.randrange(nsess)
        if s in mir.idle:
            return ('drop', s, rng.choice(IDLE_KINDS))
        if kw.get('maildir'):
            return ('drop', s, rng.choice(PLAIN_KINDS))
        return ('drop', s, rng.choice(PLAIN_KINDS))
    return U.gen_op(rng, mir, nsess, 'recent', **kw)


def fixed_end_histories():
    A = lambda s, nm, *ms: ('append', s, nm, list(ms))
    out = [
        # seeded C17-7: A selects, dies of an over-long line; delivery; D selects
        ('end_line_limit_then_delivery',
         [A(2, 0, (1, False, False)), ('select', 0, 0, False), ('fetch', 0),
          ('drop', 0, 'line_limit'), A(2, 0, (2, False, False)), ('select', 3, 0, False),
          ('fetch', 3)]),
        # two read-write selections, one ends: the survivor is the only candidate
        ('end_one_of_two',
         [('select', 0, 0, False), ('select', 1, 0, False), ('drop', 0, 'write_error'),
          A(2, 0, (1, False, False)), ('fetch', 1), ('drop', 1, 'cancel_write'),
          A(2, 0, (2, False, False)), ('select', 0, 0, False), ('fetch', 0)]),
        # the same connection number comes back after its end
        ('end_and_return',
         [('select', 0, 0, False), ('drop', 0, 'cmd_exc'), A(0, 0, (1, False, False)),
          ('noop', 0), ('select', 0, 0, True), ('fetch', 0), ('drop', 0, 'read_error'),
          ('select', 1, 0, False), ('fetch', 1)]),
        # an idling selection ends; COPY into the mailbox by another connection
        ('end_idle_then_copy',
         [('create', 2, 1), A(2, 1, (1, False, False)), ('select', 0, 0, False), ('idle', 0),
          ('select', 2, 1, False), ('drop', 0, 'cancel_idle'), ('copy', 2, None, 0),
          ('select', 3, 0, False), ('fetch', 3)]),
    ]
    return out


# ------------------------------------------------------------------ running
async def run_xhistory(env, user, password, ops_or_gen, *, maildir=False):
    w = EndWorld(env, user, password, maildir=maildir)
    mir = XMirror()
    mon = XMonitor()
    t = 0

    async def one(op):
        nonlocal t
        n0 = len(w.hist)
        await w.do(op)
        for o, ob in w.hist[n0:]:
            mir.follow(o, ob)
            mon.step(t, o, ob)
            t += 1

    try:
        if callable(ops_or_gen):
            while True:
                op = ops_or_gen(mir)
                if op is None:
                    break
                await one(op)
        else:
            for op in ops_or_gen:
                await one(op)
        for s in sorted(mir.idle):
            await one(('done', s))
        for op in U.final_probe(mir):
            await one(op)
    finally:
        await w.close_all()
        w.dead.clear()
    return w, mon, mir


async def _batch_async(spec) -> list[dict]:
    out = []
    maildir = spec.get('maildir', False)
    env = None if maildir else await U._mk_env(False).start()
    nuser = 0

    async def one(ops_or_gen, label):
        nonlocal nuser
        if maildir:
            e = await U._mk_env(True, tuple(spec.get('mcfg', ('++', None)))).start()
            user, pw = b'u1', b'pass'
        else:
            e = env
            nuser += 1
            user, pw = b'e%d' % nuser, b'pw'
            await U.add_dict_user(e, user.decode(), 'pw')
        rec = {'label': label, 'base': 0 if maildir else 100, 'shared': not maildir,
               'hist': [], 'fails': [], 'crashes': [], 'error': None, 'checks': 0}
        try:
            w = mon = None
            try:
                w, mon, _mir = await run_xhistory(e, user, pw, ops_or_gen, maildir=maildir)
            except (U.Unexpected, asyncio.TimeoutError, AssertionError) as exc:
                rec['error'] = f'{type(exc).__name__}: {exc}'[:600]
            if w is not None:
                rec['hist'] = w.hist
            if mon is not None:
                rec['fails'] = mon.fail
                rec['checks'] = mon.n_checks
        finally:
            if maildir:
                e.close()
        out.append(rec)

    if spec['kind'] == 'random':
        rng = random.Random(spec['seed'])
        for k in range(spec['n']):
            nsess = rng.choice([2, 3, 3, 4])
            nops = rng.randint(4, spec.get('maxops', 20))
            cnt = [0]

            def gen(mir, cnt=cnt, nops=nops, nsess=nsess):
                if cnt[0] >= nops:
                    return None
                cnt[0] += 1
                mc = tuple(spec.get('mcfg', ('++', None)))
                return gen_xop(rng, mir, nsess, 0.16, maildir=maildir,
                               flat=maildir and mc[0] == 'fs',
                               move_within=maildir and bool(mc[1]))
            await one(gen, f'ends-random/{spec["seed"]}/{k}')
    elif spec['kind'] == 'scripts':
        lib = dict(U.recent_scripts())
        lib.update(end_scripts())
        for combo in spec['combos']:
            mirror = U.Mirror()
            scripts = [U.instantiate(lib[name], s, mirror) for s, name in enumerate(combo)]
            for order in U.interleavings(scripts):
                await one(list(spec.get('pre', [])) + order, 'ends-scripts/' + '+'.join(combo))
    elif spec['kind'] == 'fixed':
        for label, ops in spec['hists']:
            await one(ops, 'ends-fixed/' + label)
    return out


def run_batch(spec) -> list[dict]:
    from .pymap_env import run
    import logging
    logging.getLogger('asyncio').setLevel(logging.CRITICAL)
    return run(_batch_async(spec), timeout=spec.get('timeout', 1500))


def explain(prop: str, case: str) -> str:
    from . import coqrun
    return coqrun.eval_term(prop, 'xexplain', HEADER, f'xexplain_history {case}')


def run_ends(ctx) -> None:
    """The `ends` families of ./check C17."""
    from concurrent.futures import ProcessPoolExecutor
    from . import coqrun
    targets = ['theories/UidRecent/DropCheck']
    ok, log = coqrun.build(targets=targets)
    if not ok:
        ctx.broken.append('Coq build failed (UidRecent/DropCheck): ' + log[-1200:])
    hits = coqrun.forbidden_scan(targets)
    if hits:
        ctx.broken.append('forbidden tokens in the development: ' + '; '.join(hits[:10]))
    rng = ctx.rng
    specs = []
    kinds = list(KINDS)
    # every kind x {read-write, read-only, none, other mailbox} x partners that deliver
    # before / after / select: every interleaving
    combos = []
    triple_kinds = set(rng.sample(kinds, 4)) if ctx.quick else set(kinds)
    for kind in kinds:
        combos.append(('rw_end_' + kind, 'app_rw'))
        if kind in triple_kinds:
            combos.append(('rw_end_' + kind, 'app', 'rw'))
        if ctx.quick:
            extra = rng.sample([('ro_end_' + kind, 'app_rw'), ('rw_end_' + kind, 'rw_app'),
                                ('rw_end_' + kind, 'rw_copy'), ('rw_end_' + kind, 'ro_app')], 1)
            if kind in PLAIN_KINDS and rng.random() < 0.5:
                extra.append((rng.choice(['none_end_', 'other_end_']) + kind, 'app_rw'))
            combos += extra
        else:
            combos += [('ro_end_' + kind, 'app_rw'), ('rw_end_' + kind, 'rw_app'),
                       ('rw_end_' + kind, 'rw_copy'), ('rw_end_' + kind, 'ro_app'),
                       ('rw_end_' + kind, 'rw_end_' + rng.choice(kinds), 'app'),
                       ('rw_end_' + kind, 'app2', 'rw_logout')]
            if kind in PLAIN_KINDS:
                combos += [('none_end_' + kind, 'app_rw'), ('other_end_' + kind, 'app_rw')]
    for k in range(0, len(combos), 4):
        specs.append({'kind': 'scripts', 'combos': combos[k:k + 4]})
    for _ in range(ctx.scale(5, 24)):
        specs.append({'kind': 'random', 'seed': rng.getrandbits(40), 'n': ctx.scale(12, 40)})
    mcfgs = [('++', None), ('fs', None)]
    for k in range(ctx.scale(2, 6)):
        specs.append({'kind': 'random', 'seed': rng.getrandbits(40), 'n': ctx.scale(5, 15),
                      'maildir': True, 'maxops': 14, 'mcfg': mcfgs[k % 2]})
    specs.append({'kind': 'fixed', 'hists': fixed_end_histories()})
    specs.append({'kind': 'fixed', 'hists': fixed_end_histories(), 'maildir': True})
    results: list[dict] = []
    with ProcessPoolExecutor(max_workers=12) as ex:
        for res in ex.map(run_batch, specs):
            results.extend(res)
    cases, keep = [], []
    fam: dict[str, int] = {}
    per_kind: dict[str, int] = {}
    with_sel = 0
    for r in results:
        lab = r['label'].split('/')[0] + ('-maildir' if not r['shared'] else '')
        fam[lab] = fam.get(lab, 0) + 1
        hist = r['hist']
        ends = [(op, ob) for op, ob in hist if op[0] == 'drop']
        for op, _ob in ends:
            per_kind[op[2]] = per_kind.get(op[2], 0) + 1
        ctx.count((r['label'], repr(hist)), nontrivial=bool(ends))
        ctx.evaluations += r['checks']
        replay = {'ends': True, 'hist': U.hist_json(hist), 'base': r['base'],
                  'shared': r['shared'], 'label': r['label']}
        for clause, what, obs in r['fails']:
            if clause in U.C17_CLAUSES:
                ctx.failure(clause, what, replay, obs)
        if r['error']:
            ctx.disagreement('ends-driver', {'label': r['label'], 'error': r['error'],
                                             'hist': U.hist_json(hist)})
            continue
        try:
            cases.append(enc_xcase(r['base'], r['shared'], hist))
        except U.Unexpected as exc:
            ctx.disagreement('ends-driver', {'label': r['label'], 'error': str(exc),
                                             'hist': U.hist_json(hist)})
            continue
        keep.append(r)
    if keep:
        ctx.sample({'ends_history': U.hist_json(keep[0]['hist'])[:8]})
    bad = ctx.run_cases('ends', HEADER, 'N * bool * list (xop * xout)', cases, 'chk_xhistory',
                        shard=120)
    for i in bad[:4]:
        r = keep[i]
        ctx.disagreement('ends', {
            'label': r['label'], 'base': r['base'], 'shared': r['shared'],
            'hist': U.hist_json(r['hist']),
            'model_answers_up_to_first_mismatch': explain(ctx.prop, cases[i])[-1500:],
            'monitor_failures_any_clause': [f[:2] for f in r['fails']]})
    ctx.extra['ends_histories'] = fam
    ctx.extra['ends_per_kind'] = per_kind
    ctx.assumptions += [
        'connection ends: the transport faults are produced by a fake reader/writer '
        '(harness/c17_ends.py FaultConn: readline limit 64 KiB as asyncio.StreamReader, reads and '
        'writes that raise, cancellation of the connection task); "exception inside a command '
        'body" is injected by patching ConnectionState.do_noop for one command; the finished '
        'connection, its exception and traceback stay referenced until the history is over',
    ]


def replay_history(ctx, obj) -> int:
    ops = []
    for op, _ob in obj['hist']:
        op = list(op)
        if op[0] == 'append':
            op[3] = [tuple(m) for m in op[3]]
        if op[0] == 'adopt':
            op[2] = [tuple(m) for m in op[2]]
        if op[0] in ('copy', 'move') and isinstance(op[2], list) and op[2] and op[2][0] == 'seq':
            op[2] = ('seq', list(op[2][1]))
        ops.append(tuple(op))
    # the probe and the idle pushes are re-generated by the run
    n = len(ops)
    for k in range(len(ops)):
        if ops[k][0] == 'status' and ops[k][1] == 9:
            n = k
            break
    ops = [op for op in ops[:n] if op[0] != 'idlewake'
           and not (op[0] == 'status' and op[1] == 7)]
    res = run_batch({'kind': 'fixed', 'hists': [('replay', ops)],
                     'maildir': not obj.get('shared', True)})[0]
    for t, (op, ob) in enumerate(res['hist']):
        print(t, op, '->', ob)
    print('monitor:', res['fails'], 'error:', res['error'])
    if not res['error']:
        case = enc_xcase(res['base'], res['shared'], res['hist'])
        print('model:', explain(ctx.prop, case)[-1200:])
    return 1 if res['fails'] else 0
