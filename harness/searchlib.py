"""C13 helpers: search-program AST, wire rendering, Gallina encoders, message
and mailbox generators, probe parsing, the record oracle and an independent
RFC 3501 §6.4.4 evaluator (the monitor).

Python AST of a search key (mirrors coq/theories/Search/Keys.v [key]):
  ('ALL',) ('SET', f) ('UNSET', f) ('NEW',) ('KEYWORD', b) ('UNKEYWORD', b)
  ('BEFORE', d) ('ON', d) ('SINCE', d) ('SENTBEFORE', d) ('SENTON', d) ('SENTSINCE', d)
  ('LARGER', n) ('SMALLER', n) ('HEADER', name, value) ('FIELD', h, value)
  ('BODY', s) ('TEXT', s) ('UID', set) ('SEQ', set) ('EMAILID', b) ('THREADID', b)
  ('NOT', k) ('OR', a, b) ('AND', [k...])
f in SYSFLAGS, d = (y, m, d), strings are str, set = list of n | '*' | (a, b).
"""
from __future__ import annotations

import email
import email.policy
import email.utils
import re

from . import coqterm as T

SYSFLAGS = ['Answered', 'Deleted', 'Draft', 'Flagged', 'Seen', 'Recent']
SET_WORD = {'Answered': b'ANSWERED', 'Deleted': b'DELETED', 'Draft': b'DRAFT',
            'Flagged': b'FLAGGED', 'Seen': b'SEEN', 'Recent': b'RECENT'}
UNSET_WORD = {'Answered': b'UNANSWERED', 'Deleted': b'UNDELETED', 'Draft': b'UNDRAFT',
              'Flagged': b'UNFLAGGED', 'Seen': b'UNSEEN', 'Recent': b'OLD'}
FIELDS = ['BCC', 'CC', 'FROM', 'SUBJECT', 'TO']
MONTHS = ['Jan', 'Feb', 'Mar', 'Apr', 'May', 'Jun', 'Jul', 'Aug', 'Sep', 'Oct', 'Nov', 'Dec']
DATE_KEYS = ['BEFORE', 'ON', 'SINCE', 'SENTBEFORE', 'SENTON', 'SENTSINCE']

ATOM_OK = set(range(0x21, 0x7f)) - set(b'(){%*"\\]')


# ------------------------------------------------------------------ rendering
def _case(rng, word: bytes) -> bytes:
    r = rng.random()
    if r < 0.6:
        return word
    if r < 0.8:
        return word.lower()
    return bytes(c ^ 0x20 if rng.random() < 0.5 and chr(c).isalpha() else c for c in word)


def render_string(rng, s: str, charset_ok: bool = True) -> bytes:
    """astring: atom, quoted, synchronizing or non-synchronizing literal."""
    raw = s.encode('utf-8')
    ascii_only = all(c < 0x80 for c in raw)
    r = rng.random()
    if raw and ascii_only and all(c in ATOM_OK for c in raw) and r < 0.35 \
            and not re.fullmatch(rb'[0-9*:,]+', raw):
        return raw
    if b'\r' not in raw and b'\n' not in raw and b'\x00' not in raw and r < 0.8:
        return b'"' + raw.replace(b'\\', b'\\\\').replace(b'"', b'\\"') + b'"'
    if r < 0.9:
        return b'{%d}\r\n' % len(raw) + raw
    return b'{%d+}\r\n' % len(raw) + raw


def render_date(rng, d) -> bytes:
    y, m, dd = d
    day = b'%02d' % dd if rng.random() < 0.5 else b'%d' % dd
    mon = MONTHS[m - 1].encode()
    r = rng.random()
    if r < 0.2:
        mon = mon.upper()
    elif r < 0.4:
        mon = mon.lower()
    out = day + b'-' + mon + b'-' + b'%04d' % y
    return b'"' + out + b'"' if rng.random() < 0.3 else out


def render_set(s) -> bytes:
    def idx(i):
        return b'*' if i == '*' else b'%d' % i
    return b','.join(idx(e[0]) + b':' + idx(e[1]) if isinstance(e, tuple) else idx(e) for e in s)


def render_key(rng, k) -> bytes:
    t = k[0]
    if t == 'ALL':
        return _case(rng, b'ALL')
    if t == 'SET':
        return _case(rng, SET_WORD[k[1]])
    if t == 'UNSET':
        return _case(rng, UNSET_WORD[k[1]])
    if t == 'NEW':
        return _case(rng, b'NEW')
    if t in ('KEYWORD', 'UNKEYWORD'):
        return _case(rng, t.encode()) + b' ' + k[1]
    if t in DATE_KEYS:
        return _case(rng, t.encode()) + b' ' + render_date(rng, k[1])
    if t in ('LARGER', 'SMALLER'):
        return _case(rng, t.encode()) + b' %d' % k[1]
    if t == 'HEADER':
        return _case(rng, b'HEADER') + b' ' + render_string(rng, k[1]) + b' ' + render_string(rng, k[2])
    if t == 'FIELD':
        return _case(rng, k[1].encode()) + b' ' + render_string(rng, k[2])
    if t in ('BODY', 'TEXT'):
        return _case(rng, t.encode()) + b' ' + render_string(rng, k[1])
    if t == 'UID':
        return _case(rng, b'UID') + b' ' + render_set(k[1])
    if t == 'SEQ':
        return render_set(k[1])
    if t in ('EMAILID', 'THREADID'):
        return _case(rng, t.encode()) + b' ' + k[1]
    if t == 'NOT':
        return _case(rng, b'NOT') + b' ' + render_key(rng, k[1])
    if t == 'OR':
        return _case(rng, b'OR') + b' ' + render_key(rng, k[1]) + b' ' + render_key(rng, k[2])
    if t == 'AND':
        return b'(' + b' '.join(render_key(rng, x) for x in k[1]) + b')'
    raise ValueError(k)


def key_strings(k):
    t = k[0]
    if t == 'HEADER':
        yield k[1]
        yield k[2]
    elif t == 'FIELD':
        yield k[2]
    elif t in ('BODY', 'TEXT'):
        yield k[1]
    elif t == 'NOT':
        yield from key_strings(k[1])
    elif t == 'OR':
        yield from key_strings(k[1])
        yield from key_strings(k[2])
    elif t == 'AND':
        for x in k[1]:
            yield from key_strings(x)


def render_program(rng, prog, uid: bool, tag: bytes = b'q') -> bytes:
    need_charset = any(ord(c) > 127 for k in prog for s in key_strings(k) for c in s)
    parts = [tag, b'UID SEARCH' if uid else b'SEARCH']
    if need_charset or rng.random() < 0.1:
        cs = b'UTF-8' if need_charset or rng.random() < 0.6 else b'US-ASCII'
        parts += [_case(rng, b'CHARSET'), _case(rng, cs)]
    parts += [render_key(rng, k) for k in prog]
    return b' '.join(parts) + b'\r\n'


def key_depth(k) -> int:
    t = k[0]
    if t == 'NOT':
        return 1 + key_depth(k[1])
    if t == 'OR':
        return 1 + max(key_depth(k[1]), key_depth(k[2]))
    if t == 'AND':
        return 1 + max([key_depth(x) for x in k[1]] or [0])
    return 0


def key_kinds(k):
    t = k[0]
    yield (t + ':' + k[1]) if t in ('SET', 'UNSET', 'FIELD') else t
    if t == 'NOT':
        yield from key_kinds(k[1])
    elif t == 'OR':
        yield from key_kinds(k[1])
        yield from key_kinds(k[2])
    elif t == 'AND':
        for x in k[1]:
            yield from key_kinds(x)


# ------------------------------------------------------------------- encoders
def enc_date(d) -> str:
    return T.pair(T.N(d[0]), T.N(d[1]), T.N(d[2]))


def enc_idx(i) -> str:
    return 'SMax' if i == '*' else f'(SNum {T.N(i)})'


def enc_set(s) -> str:
    return T.lst(f'(SRange {enc_idx(e[0])} {enc_idx(e[1])})' if isinstance(e, tuple)
                 else f'(SOne {enc_idx(e)})' for e in s)


def enc_key(k) -> str:
    t = k[0]
    if t == 'ALL':
        return 'KAll'
    if t == 'SET':
        return f'(KSet F{k[1]})'
    if t == 'UNSET':
        return f'(KUnset F{k[1]})'
    if t == 'NEW':
        return 'KNew'
    if t == 'KEYWORD':
        return f'(KKeyword {T.bytes_(k[1])})'
    if t == 'UNKEYWORD':
        return f'(KUnkeyword {T.bytes_(k[1])})'
    if t in DATE_KEYS:
        name = {'BEFORE': 'KBefore', 'ON': 'KOn', 'SINCE': 'KSince', 'SENTBEFORE': 'KSentBefore',
                'SENTON': 'KSentOn', 'SENTSINCE': 'KSentSince'}[t]
        return f'({name} {enc_date(k[1])})'
    if t == 'LARGER':
        return f'(KLarger {T.N(k[1])})'
    if t == 'SMALLER':
        return f'(KSmaller {T.N(k[1])})'
    if t == 'HEADER':
        return f'(KHeader {T.codepoints(k[1])} {T.codepoints(k[2])})'
    if t == 'FIELD':
        return f'(KField H{k[1].capitalize()} {T.codepoints(k[2])})'
    if t == 'BODY':
        return f'(KBody {T.codepoints(k[1])})'
    if t == 'TEXT':
        return f'(KText {T.codepoints(k[1])})'
    if t == 'UID':
        return f'(KUid {enc_set(k[1])})'
    if t == 'SEQ':
        return f'(KSeq {enc_set(k[1])})'
    if t == 'EMAILID':
        return f'(KEmailId {T.bytes_(k[1])})'
    if t == 'THREADID':
        return f'(KThreadId {T.bytes_(k[1])})'
    if t == 'NOT':
        return f'(KNot {enc_key(k[1])})'
    if t == 'OR':
        return f'(KOr {enc_key(k[1])} {enc_key(k[2])})'
    if t == 'AND':
        return f'(KAnd {T.lst(enc_key(x) for x in k[1])})'
    raise ValueError(k)


def enc_prog(prog) -> str:
    return T.lst(enc_key(k) for k in prog)


KNAMES = {b'SEQSET', b'KEYSET', b'ALL', b'OR', b'EMAILID', b'THREADID', b'ANSWERED',
          b'UNANSWERED', b'DELETED', b'UNDELETED', b'DRAFT', b'UNDRAFT', b'FLAGGED',
          b'UNFLAGGED', b'RECENT', b'OLD', b'SEEN', b'UNSEEN', b'KEYWORD', b'UNKEYWORD', b'NEW',
          b'BEFORE', b'ON', b'SINCE', b'SENTBEFORE', b'SENTON', b'SENTSINCE', b'SMALLER',
          b'LARGER', b'BCC', b'CC', b'FROM', b'SUBJECT', b'TO', b'HEADER', b'BODY', b'TEXT'}


def enc_skey(sk) -> str:
    """A real pymap SearchKey -> Gallina [skey] (raises ValueError on a value
    the model has no representation for)."""
    from datetime import datetime
    from pymap.parsing.specials import SequenceSet, ObjectId
    from pymap.parsing.specials.flag import Flag
    from pymap.parsing.specials.sequenceset import MaxValue
    name, filt, inv = sk.value, sk.filter, T.boolean(bool(sk.inverse))
    if name not in KNAMES:
        raise ValueError(f'unknown key name {name!r}')
    if name == b'KEYSET':
        return f'(SKSet {T.lst(enc_skey(x) for x in filt)} {inv})'
    if name == b'OR':
        a, b = filt
        return f'(SKOr {enc_skey(a)} {enc_skey(b)} {inv})'
    if filt is None:
        f = 'FNone'
    elif isinstance(filt, SequenceSet):
        def conv(i):
            return '*' if isinstance(i, MaxValue) else i
        seqs = [(conv(e[0]), conv(e[1])) if isinstance(e, tuple) else conv(e)
                for e in filt.sequences]
        f = f'(FSeq {T.boolean(bool(filt.uid))} {enc_set(seqs)})'
    elif isinstance(filt, Flag):
        f = f'(FFlag {T.bytes_(filt.value)})'
    elif isinstance(filt, datetime):
        if (filt.hour, filt.minute, filt.second, filt.microsecond, filt.tzinfo) != (0, 0, 0, 0, None):
            raise ValueError(f'date filter with a time part {filt!r}')
        f = f'(FDate {enc_date((filt.year, filt.month, filt.day))})'
    elif isinstance(filt, bool):
        raise ValueError(filt)
    elif isinstance(filt, int):
        f = f'(FInt {T.N(filt)})'
    elif isinstance(filt, str):
        f = f'(FStr {T.codepoints(filt)})'
    elif isinstance(filt, tuple) and len(filt) == 2 and all(isinstance(x, str) for x in filt):
        f = f'(FHdr {T.codepoints(filt[0])} {T.codepoints(filt[1])})'
    elif isinstance(filt, ObjectId):
        f = f'(FObj {T.bytes_(filt.object_id or b"")})'
    else:
        raise ValueError(f'filter {filt!r}')
    return f'(SKAtom N{name.decode()} {f} {inv})'


def enc_content(rec) -> str:
    parts = T.lst(f'(mkPart {T.bytes_(h)} {T.boolean(t)} {T.bytes_(b)})' for h, t, b in rec['parts'])
    headers = T.lst(T.pair(T.bytes_(n), T.codepoints(v)) for n, v in rec['headers'])
    sd = 'None' if rec['sdate'] is None else f'(Some {enc_date(rec["sdate"])})'
    rd = 'None' if rec['rawdate'] is None else f'(Some {T.codepoints(rec["rawdate"])})'
    return (f'(mkContent {T.N(rec["size"])} {enc_date(rec["idate"])} {rd} {sd} {headers} {parts} '
            f'{T.bytes_(rec["emailid"])} {T.bytes_(rec["threadid"])})')


def content_key(rec):
    return (rec['size'], rec['idate'], rec['rawdate'], rec['sdate'], tuple(rec['headers']), tuple(rec['parts']),
            rec['emailid'], rec['threadid'])


def enc_entries(view, cids: dict) -> str:
    return T.lst(T.pair(T.N(cids[(r['uid'], content_key(r))][0]), T.N(r['uid']), T.N(r['seq']),
                        T.lst(T.bytes_(f) for f in r['flags'])) for r in view)


def enc_pool(cids: dict) -> str:
    """cids: (uid, content_key) -> (content id, record)"""
    return T.lst(T.pair(T.N(cid), enc_content(rec)) for cid, rec in sorted(cids.values(), key=lambda x: x[0]))


def enc_msg(rec) -> str:
    parts = T.lst(f'(mkPart {T.bytes_(h)} {T.boolean(t)} {T.bytes_(b)})' for h, t, b in rec['parts'])
    headers = T.lst(T.pair(T.bytes_(n), T.codepoints(v)) for n, v in rec['headers'])
    sd = 'None' if rec['sdate'] is None else f'(Some {enc_date(rec["sdate"])})'
    rd = 'None' if rec['rawdate'] is None else f'(Some {T.codepoints(rec["rawdate"])})'
    return (f'(mkMsg {T.N(rec["uid"])} {T.N(rec["seq"])} {T.lst(T.bytes_(f) for f in rec["flags"])} '
            f'{T.N(rec["size"])} {enc_date(rec["idate"])} {rd} {sd} {headers} {parts} '
            f'{T.bytes_(rec["emailid"])} {T.bytes_(rec["threadid"])})')


def enc_view(view) -> str:
    return T.lst(enc_msg(r) for r in view)


# ----------------------------------------------------------------- generators
WORDS = ['alpha', 'Beta', 'GAMMA', 'delta', 'velocity', 'hello', 'World', 'café', 'ZETA',
         'x', 'Re:', 'nu', 'a.b*c', 'KK']
PEOPLE = [('Alice', 'alice@example.com'), ('Bob B', 'bob@y.org'), ('Carol', 'c@x.org'),
          ('André', 'andre@z.fr'), (None, 'dave@d.de'), ('Doe, Eve', 'eve@e.example')]
KEYWORDS = [b'kw1', b'KW1', b'$Label', b'zork']
ZONES = ['-1200', '-0800', '-0330', '+0000', '+0530', '+0900', '+1400']
TIMES = ['00:00:00', '00:30:00', '23:59:59', '12:00:00', '23:30:00']
DAYS = [(1999, 12, 31), (2000, 1, 1), (2019, 1, 1), (2019, 1, 2), (2018, 12, 31),
        (2020, 2, 29), (2020, 3, 1), (2019, 1, 3)]


def _name_case(rng, name: str) -> str:
    r = rng.random()
    return name if r < 0.7 else name.upper() if r < 0.85 else name.lower()


def _words(rng, lo=1, hi=4) -> str:
    return ' '.join(rng.choice(WORDS) for _ in range(rng.randint(lo, hi)))


def _encode_word(rng, s: str) -> str:
    import base64
    import quopri
    if rng.random() < 0.5:
        return '=?utf-8?b?' + base64.b64encode(s.encode('utf-8')).decode() + '?='
    q = quopri.encodestring(s.encode('utf-8'), header=True).decode().replace('?', '=3F').replace(' ', '_')
    return '=?utf-8?q?' + q + '?='


def _addr(rng) -> str:
    name, addr = rng.choice(PEOPLE)
    if name is None or rng.random() < 0.25:
        return addr
    if any(ord(c) > 127 for c in name):
        return f'{_encode_word(rng, name)} <{addr}>'
    if ',' in name:
        return f'"{name}" <{addr}>'
    return f'{name} <{addr}>'


def _date_header(rng, day) -> str:
    y, m, d = day
    from datetime import date
    wd = ['Mon', 'Tue', 'Wed', 'Thu', 'Fri', 'Sat', 'Sun'][date(y, m, d).weekday()]
    tz = rng.choice(ZONES + ['-0000'])
    r = rng.random()
    tm = rng.choice(TIMES)
    if r < 0.7:
        return f'{wd}, {d:02d} {MONTHS[m - 1]} {y} {tm} {tz}'
    if r < 0.85:
        return f'{d} {MONTHS[m - 1]} {y} {tm[:5]} {tz}'
    return f'{wd}, {d} {MONTHS[m - 1]} {y} {tm} {tz} (comment)'


def gen_message(rng) -> bytes:
    lines: list[bytes] = []

    def hdr(name: str, value: str, raw8: bool = False) -> None:
        v = value
        if not raw8 and any(ord(c) > 127 for c in v):
            v = ' '.join(_encode_word(rng, w) if any(ord(c) > 127 for c in w) else w
                         for w in v.split(' '))
        if ' ' in v and rng.random() < 0.2:        # fold at a space
            i = rng.choice([j for j, ch in enumerate(v) if ch == ' '])
            v = v[:i] + '\r\n' + v[i:]
        sep = ': ' if rng.random() < 0.9 else ':'     # (no white space before the colon: stdlib
        #                                               email, the monitor's parser, would end the header there)
        lines.append((_name_case(rng, name) + sep + v).encode('utf-8'))

    if rng.random() < 0.9:
        hdr('From', _addr(rng))
    for _ in range(rng.choice([0, 1, 1, 1, 2])):
        hdr('To', ', '.join(_addr(rng) for _ in range(rng.randint(1, 2))))
    if rng.random() < 0.4:
        hdr('Cc', _addr(rng))
    if rng.random() < 0.2:
        hdr('Bcc', _addr(rng))
    r = rng.random()
    if r < 0.85:
        rr = rng.random()
        if rr < 0.1:
            hdr('Subject', '')
        else:
            hdr('Subject', _words(rng), raw8=rng.random() < 0.08)
        if rng.random() < 0.1:
            hdr('Subject', _words(rng))
    r = rng.random()
    if r < 0.8:
        hdr('Date', _date_header(rng, rng.choice(DAYS)))
    elif r < 0.87:
        hdr('Date', rng.choice(['garbage', '32 Foo 2019', '']))
    if rng.random() < 0.3:
        hdr('X-Custom', _words(rng, 1, 2))
    for _ in range(rng.choice([0, 0, 1, 2, 2, 3])):      # a repeated field, one word each
        hdr('X-Tag', rng.choice(WORDS))
    if rng.random() < 0.2:
        hdr('Priority', rng.choice(['high', 'low', '']))
    rng.shuffle(lines)

    def text_body() -> bytes:
        n = rng.randint(0, 3)
        return ''.join(_words(rng, 1, 5) + '\r\n' for _ in range(n)).encode('utf-8')

    r = rng.random()
    if r < 0.5:
        if rng.random() < 0.5:
            lines.append(rng.choice([b'Content-Type: text/plain', b'Content-Type: text/plain; charset=utf-8',
                                     b'content-type: TEXT/PLAIN']))
        body = text_body()
    elif r < 0.6:
        lines.append(b'Content-Type: text/html')
        body = b'<p>' + text_body() + b'</p>\r\n'
    elif r < 0.82:
        bnd = rng.choice(['XX', 'bound-1', 'delta'])
        lines.append(f'Content-Type: multipart/mixed; boundary="{bnd}"'.encode())
        chunks = [rng.choice([b'', b'preamble nu\r\n'])]
        for _ in range(rng.randint(1, 3)):
            kind = rng.random()
            chunks.append(b'--' + bnd.encode() + b'\r\n')
            if kind < 0.5:
                chunks.append(rng.choice([b'Content-Type: text/plain\r\n', b'']) + b'\r\n' + text_body())
            elif kind < 0.8:
                chunks.append(b'Content-Type: application/octet-stream\r\nX-Part: ' +
                              rng.choice(WORDS[:6]).encode() + b'\r\n\r\n' + text_body())
            else:
                chunks.append(b'Content-Type: text/html\r\nContent-Description: ' +
                              rng.choice(WORDS[:6]).encode() + b'\r\n\r\n<b>' + text_body() + b'</b>\r\n')
        chunks.append(b'--' + bnd.encode() + b'--\r\n' + rng.choice([b'', b'epilogue ZETA\r\n']))
        body = b''.join(chunks)
    elif r < 0.9:
        lines.append(b'Content-Type: message/rfc822')
        body = (b'Subject: ' + _words(rng, 1, 2).encode('utf-8') + b'\r\nFrom: ' + rng.choice(PEOPLE)[1].encode() +
                b'\r\n\r\n' + text_body())
    else:
        lines.append(b'Content-Type: application/octet-stream')
        body = text_body()
    return b'\r\n'.join(lines) + b'\r\n\r\n' + body


def gen_append_meta(rng):
    flags = [b'\\' + f.encode() for f in SYSFLAGS[:5] if rng.random() < 0.3]
    flags += [k for k in KEYWORDS if rng.random() < 0.2]
    day = rng.choice(DAYS)
    when = f'{day[2]:02d}-{MONTHS[day[1] - 1]}-{day[0]} {rng.choice(TIMES)} {rng.choice(ZONES)}'
    return flags, when


def gen_needle(rng, pool: list[str]) -> str:
    r = rng.random()
    if r < 0.08:
        return ''
    src = rng.choice(pool) if pool and r < 0.75 else rng.choice(WORDS)
    if not src:
        return ''
    r = rng.random()
    if r < 0.45:
        i = rng.randrange(len(src))
        j = rng.randint(i + 1, min(len(src), i + 8))
        s = src[i:j]
    elif r < 0.8:
        ws = src.split(' ')
        i = rng.randrange(len(ws))
        s = ' '.join(ws[i:i + rng.randint(1, 2)])
    else:
        s = rng.choice(WORDS)
    r = rng.random()
    if r < 0.3:
        s = s.upper()
    elif r < 0.5:
        s = s.lower()
    elif r < 0.6:
        s = s.swapcase()
    s = s.replace('\r', '').replace('\n', '').replace('\x00', '')
    return s


def gen_set(rng, n_msgs: int, uids: list[int], uid: bool):
    def idx():
        r = rng.random()
        if r < 0.2:
            return '*'
        if uid:
            if uids and r < 0.75:
                return max(1, rng.choice(uids) + rng.choice([0, 0, 0, -1, 1]))
            return rng.choice([1, 100, 101, 4294967295, (max(uids) if uids else 100) + rng.randint(1, 3)])
        return rng.randint(1, max(1, n_msgs + 2))
    out = []
    for _ in range(rng.choice([1, 1, 1, 2, 3])):
        out.append((idx(), idx()) if rng.random() < 0.45 else idx())
    return out


class KeyGen:
    """Random search programs for one probed view."""

    def __init__(self, rng, view):
        self.rng = rng
        self.view = view
        self.n = len(view)
        self.uids = [r['uid'] for r in view]
        self.sizes = [r['size'] for r in view] or [100]
        self.hvals = [v for r in view for _n, v in r['headers']]
        self.hnames = sorted({n.strip().lower().decode('latin-1') for r in view
                              for n, _v in r['headers']}) or ['subject']
        self.byname: dict[str, list[str]] = {}
        for r in view:
            for n, v in r['headers']:
                self.byname.setdefault(n.strip().lower().decode('latin-1'), []).append(v)
        self.texts = []
        for r in view:
            for h, _t, b in r['parts']:
                for chunk in (h, b):
                    for ln in chunk.decode('utf-8', 'ignore').split('\r\n'):
                        if ln:
                            self.texts.append(ln)

    def leaf(self):
        rng = self.rng
        kind = rng.choices(
            ['ALL', 'SET', 'UNSET', 'NEW', 'KEYWORD', 'UNKEYWORD', 'DATE', 'SIZE', 'HEADER', 'FIELD',
             'BODY', 'TEXT', 'UID', 'SEQ', 'OBJ'],
            [2, 8, 8, 2, 3, 3, 10, 6, 7, 10, 7, 7, 9, 9, 2])[0]
        if kind == 'ALL':
            return ('ALL',)
        if kind in ('SET', 'UNSET'):
            return (kind, rng.choice(SYSFLAGS))
        if kind == 'NEW':
            return ('NEW',)
        if kind in ('KEYWORD', 'UNKEYWORD'):
            return (kind, rng.choice(KEYWORDS + [b'other']))
        if kind == 'DATE':
            y, m, d = rng.choice(DAYS)
            return (rng.choice(DATE_KEYS), (y, m, d))
        if kind == 'SIZE':
            n = rng.choice(self.sizes) + rng.choice([-1, 0, 0, 1]) if rng.random() < 0.8 \
                else rng.choice([0, 1, 10 ** 12])
            return (rng.choice(['LARGER', 'SMALLER']), max(0, n))
        if kind == 'HEADER':
            name = rng.choice(self.hnames + ['X-None', 'subject', 'from', 'x-tag', 'to'])
            pool = self.byname.get(name.lower()) if rng.random() < 0.7 else None
            return ('HEADER', _name_case(rng, name), gen_needle(rng, pool or self.hvals))
        if kind == 'FIELD':
            field = rng.choice(FIELDS)
            pool = self.byname.get(field.lower()) if rng.random() < 0.7 else None
            return ('FIELD', field, '' if rng.random() < 0.1 else gen_needle(rng, pool or self.hvals))
        if kind in ('BODY', 'TEXT'):
            return (kind, gen_needle(rng, self.texts))
        if kind == 'UID':
            return ('UID', gen_set(rng, self.n, self.uids, True))
        if kind == 'SEQ':
            return ('SEQ', gen_set(rng, self.n, self.uids, False))
        which = rng.choice(['EMAILID', 'THREADID'])
        ids = [r['emailid' if which == 'EMAILID' else 'threadid'] for r in self.view]
        ids = [i for i in ids if i]
        ident = rng.choice(ids) if ids and rng.random() < 0.8 else rng.choice([b'M0123', b'T0123'])
        return (which, ident)

    # keys whose SearchKey.requirement is METADATA only / that need the content
    def meta_leaf(self):
        rng = self.rng
        r = rng.random()
        if r < 0.35:
            return (rng.choice(['SET', 'UNSET']), rng.choice(SYSFLAGS))
        if r < 0.5:
            return (rng.choice(['BEFORE', 'ON', 'SINCE']), rng.choice(DAYS))
        if r < 0.75:
            return ('SEQ', gen_set(rng, self.n, self.uids, False))
        if r < 0.95:
            return ('UID', gen_set(rng, self.n, self.uids, True))
        return ('NEW',)

    def content_leaf(self):
        rng = self.rng
        r = rng.random()
        if r < 0.35:
            field = rng.choice(FIELDS)
            return ('FIELD', field, gen_needle(rng, self.byname.get(field.lower()) or self.hvals))
        if r < 0.5:
            name = rng.choice(self.hnames)
            return ('HEADER', name, gen_needle(rng, self.byname.get(name) or self.hvals))
        if r < 0.75:
            return (rng.choice(['BODY', 'TEXT']), gen_needle(rng, self.texts))
        if r < 0.9:
            return (rng.choice(['LARGER', 'SMALLER']), max(0, rng.choice(self.sizes) + rng.choice([-1, 0, 1])))
        return (rng.choice(['SENTBEFORE', 'SENTON', 'SENTSINCE']), rng.choice(DAYS))

    def or_meta_content(self):
        """(program, the same with the OR operands exchanged): the only key of the
        command that needs the message content is the SECOND operand of an OR
        (possibly under NOT / inside a list); everything else is metadata-only,
        so a load-on-request backend loads the content only if the OR's
        requirement carries its second operand."""
        rng = self.rng
        a, b = self.meta_leaf(), self.content_leaf()

        def wrap(core):
            r = rng.random()
            if r < 0.4:
                k = core
            elif r < 0.7:
                k = ('NOT', core)
            elif r < 0.85:
                k = ('AND', [core, self.meta_leaf()])
            else:
                k = ('OR', self.meta_leaf(), core)
            return k
        state = rng.getstate()
        p1 = [wrap(('OR', a, b))]
        rng.setstate(state)
        p2 = [wrap(('OR', b, a))]
        extra = [self.meta_leaf() for _ in range(rng.choice([0, 0, 1]))]
        return p1 + extra, p2 + extra

    def key(self, depth: int):
        rng = self.rng
        if depth <= 0 or rng.random() < 0.35:
            return self.leaf()
        r = rng.random()
        if r < 0.4:
            return ('NOT', self.key(depth - 1))
        if r < 0.7:
            return ('OR', self.key(depth - 1), self.key(depth - 1))
        return ('AND', [self.key(depth - 1) for _ in range(rng.randint(1, 3))])

    def program(self):
        rng = self.rng
        if rng.random() < 0.12:
            # several top-level sets, plain and negated: exercises the choice of the
            # pre-filter set among the criteria of the command
            out = []
            for _ in range(rng.randint(2, 4)):
                uid = rng.random() < 0.5
                k = ('UID' if uid else 'SEQ', gen_set(rng, self.n, self.uids, uid))
                out.append(('NOT', k) if rng.random() < 0.45 else k)
            if rng.random() < 0.3:
                out.append(self.leaf())
            rng.shuffle(out)
            return out
        depth = rng.choice([0, 1, 2, 3, 4, 5, 6])
        n = rng.choice([1, 1, 2, 2, 3])
        return [self.key(depth if i == 0 else rng.randint(0, depth)) for i in range(n)]


# --------------------------------------------------------------- probe parsing
PROBE_ITEMS = b'(UID FLAGS INTERNALDATE RFC822.SIZE EMAILID THREADID BODY.PEEK[])'
_FETCH_RE = re.compile(rb'\* (\d+) FETCH \(')


def parse_probe(resp: bytes) -> list[dict]:
    """The FETCH responses of a probe -> raw records (ascending seq)."""
    out = []
    pos = 0
    while True:
        m = _FETCH_RE.search(resp, pos)
        if not m:
            break
        rec = {'seq': int(m.group(1))}
        p = m.end()
        while resp[p:p + 1] != b')':
            if resp[p:p + 1] == b' ':
                p += 1
                continue
            sp = resp.index(b' ', p)
            name = resp[p:sp]
            p = sp + 1
            if name == b'UID':
                mm = re.compile(rb'\d+').match(resp, p)
                rec['uid'] = int(mm.group())
                p = mm.end()
            elif name == b'RFC822.SIZE':
                mm = re.compile(rb'\d+').match(resp, p)
                rec['size'] = int(mm.group())
                p = mm.end()
            elif name == b'FLAGS':
                e = resp.index(b')', p)
                rec['flags'] = resp[p + 1:e].split()
                p = e + 1
            elif name == b'INTERNALDATE':
                e = resp.index(b'"', p + 1)
                rec['internaldate'] = resp[p + 1:e].decode('ascii')
                p = e + 1
            elif name in (b'EMAILID', b'THREADID'):
                key = name.decode().lower()
                if resp[p:p + 3] == b'NIL':
                    rec[key] = b''
                    p += 3
                else:       # "(id)"; the maildir backend prints "((id))"
                    mm = re.compile(rb'\(+([^()]*)\)+').match(resp, p)
                    rec[key] = mm.group(1)
                    p = mm.end()
            elif name == b'BODY[]':
                if resp[p:p + 1] == b'{':
                    e = resp.index(b'}', p)
                    n = int(resp[p + 1:e])
                    start = e + 3
                    rec['raw'] = resp[start:start + n]
                    p = start + n
                elif resp[p:p + 1] == b'"':
                    e = p + 1
                    buf = bytearray()
                    while resp[e:e + 1] != b'"':
                        if resp[e:e + 1] == b'\\':
                            e += 1
                        buf += resp[e:e + 1]
                        e += 1
                    rec['raw'] = bytes(buf)
                    p = e + 1
                elif resp[p:p + 3] == b'NIL':
                    rec['raw'] = b''
                    p += 3
                else:
                    raise ValueError(f'BODY[] value at {resp[p:p + 20]!r}')
            else:
                raise ValueError(f'unexpected FETCH item {name!r}')
        if 'uid' in rec and 'raw' in rec:     # unsolicited flag updates carry neither
            out.append(rec)
        pos = p
    out.sort(key=lambda r: r['seq'])
    return out


def parse_search(resp: bytes):
    """-> (status, ids, tagged line) for the tagged response of tag 'q'."""
    ids = None
    status = None
    line = b''
    for ln in resp.split(b'\r\n'):
        if ln.startswith(b'* SEARCH'):
            ids = [int(x) for x in ln[8:].split()]
        elif ln.startswith(b'q '):
            status = ln.split(b' ', 2)[1]
            line = ln
        elif ln.startswith(b'* BYE'):
            status = status or b'BYE'
            line = ln
    return status, ids, line


def idate_of(internaldate: str):
    d, mon, y = internaldate.split(' ')[0].split('-')
    return (int(y), MONTHS.index(mon) + 1, int(d))


def oracle_record(raw_rec: dict) -> dict:
    """Message record for the model.  Header values, the sent date and the
    MIME split are obtained from pymap's own MIME layer (which wraps stdlib
    email) applied to the probed octets: they are ORACLE data."""
    from pymap.mime import MessageContent
    from pymap.message import BaseLoadedMessage
    if not raw_rec['raw']:
        # no octets: the backend holds no content for this message (the file of
        # an expunged maildir message is gone; an empty APPEND is refused), which
        # the code treats as _NoContent: no headers, no envelope, no parts, size 0
        return {'uid': raw_rec['uid'], 'seq': raw_rec['seq'], 'flags': list(raw_rec['flags']),
                'size': raw_rec['size'], 'idate': idate_of(raw_rec['internaldate']), 'sdate': None,
                'rawdate': None,
                'headers': [], 'parts': [], 'emailid': raw_rec.get('emailid', b''),
                'threadid': raw_rec.get('threadid', b''), 'reparsed_len': 0}
    content = MessageContent.parse(raw_rec['raw'])
    parsed = content.header.parsed
    from email.policy import SMTP
    from pymap.mime.parsed import ParsedHeaders
    data = raw_rec['raw']
    headers = []
    rawdate = None
    check: dict = {}
    for _key, lines in content.header._folded:        # field groups in order of occurrence
        vals = [data[s:e] for s, e, _ in lines]
        written = vals[0][:vals[0].find(b':')]            # the name as written
        got = list(ParsedHeaders._parse([vals]))          # [] = value the registry refuses
        if not got:
            continue
        headers.append((written, str(got[0])))
        check.setdefault(written.strip().lower(), []).append(str(got[0]))
        if rawdate is None and written.strip().lower() == b'date':
            rawdate = SMTP.header_source_parse(
                [ln.decode('ascii', 'surrogateescape') for ln in vals])[1]
    # the per-field reconstruction is what the header map holds
    via_map = {bytes(n): [str(v) for v in parsed[n]] for n in parsed}
    via_map = {n: v for n, v in via_map.items() if v}
    if via_map != check:
        raise ValueError(f'header oracle mismatch: {via_map!r} vs {check!r}')
    env = BaseLoadedMessage._get_envelope_structure(content)
    sdate = None
    if env.date and env.date.datetime is not None:
        dt = env.date.datetime
        sdate = (dt.year, dt.month, dt.day)
    # the body of a part that is not text/* is never looked at (neither by the
    # code nor by the model: p_text && ...), so its octets are left out
    parts = [(bytes(p.header), True, bytes(p.body)) if p.body.content_type.maintype == 'text'
             else (bytes(p.header), False, b'') for p in content.walk()]
    return {'uid': raw_rec['uid'], 'seq': raw_rec['seq'], 'flags': list(raw_rec['flags']),
            'size': raw_rec['size'], 'idate': idate_of(raw_rec['internaldate']), 'sdate': sdate,
            'rawdate': rawdate,
            'headers': headers, 'parts': parts, 'emailid': raw_rec.get('emailid', b''),
            'threadid': raw_rec.get('threadid', b''), 'reparsed_len': len(content)}


# ------------------------------------------- independent evaluator (RFC 3501)
_LOW = {c: c + 32 for c in range(65, 91)}


def _alow(s: str) -> str:
    return s.translate(_LOW)


def ci_in(needle, hay) -> bool:
    if isinstance(needle, bytes):
        return needle.lower() in hay.lower()       # bytes.lower folds ASCII only
    return _alow(needle) in _alow(hay)


class MsgView:
    """What the RFC's tests need from one probed message, computed with stdlib
    email only (no pymap code)."""

    def __init__(self, raw_rec: dict):
        self.uid = raw_rec['uid']
        self.seq = raw_rec['seq']
        self.flags = set(raw_rec['flags'])
        self.size = raw_rec['size']
        self.idate = idate_of(raw_rec['internaldate'])
        raw = raw_rec['raw']
        self.raw = raw
        m = re.search(rb'\r?\n\r?\n', raw)
        if raw[:2] == b'\r\n' or raw[:1] == b'\n':
            self.header_raw, self.body_raw = b'', raw.lstrip(b'\r')[1:]
        elif m:
            self.header_raw, self.body_raw = raw[:m.start()], raw[m.end():]
        else:
            self.header_raw, self.body_raw = raw, b''
        self.msg = email.message_from_bytes(raw, policy=email.policy.SMTP)
        self.emailid = raw_rec.get('emailid', b'')
        self.threadid = raw_rec.get('threadid', b'')
        self._text_payloads = None

    def header_values(self, name: str) -> list[str]:
        return [str(v) for v in self.msg.get_all(name, [])]

    def sent_date(self):
        vals = self.msg.get_all('date', [])
        if not vals:
            return None
        text = str(vals[0])
        if not text.strip():
            return None
        try:
            dt = email.utils.parsedate_to_datetime(text)
        except (ValueError, TypeError):
            return None
        return (dt.year, dt.month, dt.day)

    def text_payloads(self) -> list[bytes]:
        """Octets of the message body a server has to search: the payload of every
        text part and the header fields (name, raw value) of every nested part."""
        if self._text_payloads is None:
            res = []
            for i, part in enumerate(self.msg.walk()):
                if part.get_content_maintype() == 'text' and not part.is_multipart():
                    pl = part.get_payload(decode=False)
                    if isinstance(pl, str):
                        res.append(pl.encode('utf-8', 'surrogateescape'))
                if i > 0:
                    for name, value in part.raw_items():
                        res.append(name.encode('utf-8', 'surrogateescape'))
                        for ln in str(value).splitlines():
                            res.append(ln.encode('utf-8', 'surrogateescape'))
            self._text_payloads = res
        return self._text_payloads


def in_set(s, n: int, mx: int) -> bool:
    for e in s:
        if isinstance(e, tuple):
            a = mx if e[0] == '*' else e[0]
            b = mx if e[1] == '*' else e[1]
            if min(a, b) <= n <= max(a, b):
                return True
        elif n == (mx if e == '*' else e):
            return True
    return False


def rfc_eval(k, mv: MsgView, exists: int, maxuid: int):
    """True / False / None (None = the RFC leaves it to the implementation:
    the string occurs only in text the server need not search)."""
    t = k[0]
    if t == 'ALL':
        return True
    if t == 'SET':
        return (b'\\' + k[1].encode()) in mv.flags
    if t == 'UNSET':
        return (b'\\' + k[1].encode()) not in mv.flags
    if t == 'NEW':
        return b'\\Recent' in mv.flags and b'\\Seen' not in mv.flags
    if t == 'KEYWORD':
        return k[1] in mv.flags
    if t == 'UNKEYWORD':
        return k[1] not in mv.flags
    if t == 'BEFORE':
        return mv.idate < k[1]
    if t == 'ON':
        return mv.idate == k[1]
    if t == 'SINCE':
        return mv.idate >= k[1]
    if t in ('SENTBEFORE', 'SENTON', 'SENTSINCE'):
        sd = mv.sent_date()
        if sd is None:
            return False
        return sd < k[1] if t == 'SENTBEFORE' else sd == k[1] if t == 'SENTON' else sd >= k[1]
    if t == 'LARGER':
        return mv.size > k[1]
    if t == 'SMALLER':
        return mv.size < k[1]
    if t == 'HEADER':
        return any(ci_in(k[2], v) for v in mv.header_values(k[1]))
    if t == 'FIELD':
        vals = mv.header_values(k[1])
        if k[1] == 'SUBJECT':
            vals = vals[:1]
        return any(ci_in(k[2], v) for v in vals)
    if t in ('BODY', 'TEXT'):
        if not mv.raw:          # no octets at all (content of an expunged maildir file): nothing
            return None         # to search, whether "" occurs in nothing is left open
        needle = k[1].encode('utf-8')
        must = any(ci_in(needle, p) for p in mv.text_payloads())
        may = ci_in(needle, mv.body_raw)
        if t == 'TEXT':
            must = must or ci_in(needle, mv.header_raw)
            may = ci_in(needle, mv.raw)
        if must:
            return True
        if not may:
            return False
        return None
    if t == 'UID':
        return in_set(k[1], mv.uid, maxuid)
    if t == 'SEQ':
        return in_set(k[1], mv.seq, exists)
    if t == 'EMAILID':
        return k[1] == mv.emailid
    if t == 'THREADID':
        return k[1] == mv.threadid
    if t == 'NOT':
        r = rfc_eval(k[1], mv, exists, maxuid)
        return None if r is None else not r
    if t == 'OR':
        a = rfc_eval(k[1], mv, exists, maxuid)
        b = rfc_eval(k[2], mv, exists, maxuid)
        if a is True or b is True:
            return True
        if a is None or b is None:
            return None
        return False
    if t == 'AND':
        rs = [rfc_eval(x, mv, exists, maxuid) for x in k[1]]
        if any(r is False for r in rs):
            return False
        if any(r is None for r in rs):
            return None
        return True
    raise ValueError(k)


def rfc_search(prog, mvs: list[MsgView]):
    """-> (must, may): sequence numbers that must / may be reported."""
    exists = len(mvs)
    maxuid = max([m.uid for m in mvs] or [0])
    must, may = [], []
    for mv in mvs:
        r = rfc_eval(('AND', list(prog)), mv, exists, maxuid)
        if r is True:
            must.append(mv.seq)
        if r is not False:
            may.append(mv.seq)
    return must, may


# ------------------------------------------- parser values, Python-side canon
def py_compile(k, inv: bool = False):
    """The value SearchKey.parse is expected to build for key k, as a plain
    tuple (name, filter, inverse) — mirrors Keys.v [compile]."""
    t = k[0]
    if t == 'NOT':
        return py_compile(k[1], not inv)
    if t == 'OR':
        return (b'OR', (py_compile(k[1]), py_compile(k[2])), inv)
    if t == 'AND':
        return (b'KEYSET', tuple(py_compile(x) for x in k[1]), inv)
    if t == 'ALL' or t == 'NEW':
        return (t.encode(), None, inv)
    if t == 'SET':
        return (SET_WORD[k[1]], None, inv)
    if t == 'UNSET':
        return (UNSET_WORD[k[1]], None, inv)
    if t in ('KEYWORD', 'UNKEYWORD'):
        return (t.encode(), ('flag', k[1]), inv)
    if t in DATE_KEYS:
        return (t.encode(), ('date', k[1]), inv)
    if t in ('LARGER', 'SMALLER'):
        return (t.encode(), ('int', k[1]), inv)
    if t == 'HEADER':
        return (b'HEADER', ('hdr', k[1], k[2]), inv)
    if t == 'FIELD':
        return (k[1].encode(), ('str', k[2]), inv)
    if t in ('BODY', 'TEXT'):
        return (t.encode(), ('str', k[1]), inv)
    if t in ('UID', 'SEQ'):
        return (b'SEQSET', ('set', t == 'UID', tuple(k[1])), inv)
    if t in ('EMAILID', 'THREADID'):
        return (t.encode(), ('obj', k[1]), inv)
    raise ValueError(k)


def canon_skey(sk):
    """A real SearchKey as the same kind of tuple."""
    from datetime import datetime
    from pymap.parsing.specials import SequenceSet, ObjectId
    from pymap.parsing.specials.flag import Flag
    from pymap.parsing.specials.sequenceset import MaxValue
    name, filt, inv = sk.value, sk.filter, bool(sk.inverse)
    if name == b'KEYSET':
        return (name, tuple(canon_skey(x) for x in filt), inv)
    if name == b'OR':
        return (name, (canon_skey(filt[0]), canon_skey(filt[1])), inv)
    if filt is None:
        f = None
    elif isinstance(filt, SequenceSet):
        def conv(i):
            return '*' if isinstance(i, MaxValue) else i
        f = ('set', bool(filt.uid), tuple((conv(e[0]), conv(e[1])) if isinstance(e, tuple) else conv(e)
                                          for e in filt.sequences))
    elif isinstance(filt, Flag):
        f = ('flag', filt.value)
    elif isinstance(filt, datetime):
        f = ('date', (filt.year, filt.month, filt.day)) if (filt.hour, filt.minute, filt.second,
                                                            filt.tzinfo) == (0, 0, 0, None) \
            else ('datetime', repr(filt))
    elif isinstance(filt, int) and not isinstance(filt, bool):
        f = ('int', filt)
    elif isinstance(filt, str):
        f = ('str', filt)
    elif isinstance(filt, tuple) and len(filt) == 2:
        f = ('hdr', filt[0], filt[1])
    elif isinstance(filt, ObjectId):
        f = ('obj', filt.object_id)
    else:
        f = ('other', repr(filt))
    return (name, f, inv)
