"""Helpers of the C14/C15 checks for the maildir backend.

* `Tracer` — wraps the os-level calls of *this* process (os.rename/remove/
  unlink/mkdir/rmdir/link/utime, os.open with O_CREAT, builtins/io.open in
  write modes) and records one event per filesystem mutation; with `kill_at=k`
  the process ends with os._exit just before its (k+1)-th mutation, so exactly
  k operations have been executed (the model's `crash k`).
* `determinize()` — makes the names the backend draws reproducible (temp file
  names, maildir keys, object ids, uid validity) so that the reference run and
  every killed run execute the same operation list.
* `to_path` / `snapshot` — map real path strings / a real directory onto the
  typed paths of coq/theories/MaildirFS/FS.v.
* `run_history` — drive one history of IMAP commands on one connection of a
  maildir server whose base directory is given; used in-process (trace
  correspondence), and in a forked child (kill enumeration).
* `recover_dump` — what a fresh server serves from a directory.

Nothing here changes pymap: everything is wrapped inside the harness process.
"""
from __future__ import annotations

import asyncio
import builtins
import io
import json
import os
import re
import shutil
import sys
import tempfile
import time

from . import coqterm as T

_real = {
    'rename': os.rename, 'remove': os.remove, 'unlink': os.unlink,
    'mkdir': os.mkdir, 'rmdir': os.rmdir, 'link': os.link, 'utime': os.utime,
    'os_open': os.open, 'open': builtins.open, 'io_open': io.open,
    'write': os.write, 'exit': os._exit,
}

KILL_STATUS = 77


class Tracer:
    """Records filesystem mutations under `root` made by this process."""

    def __init__(self, root: str, kill_at: int | None = None,
                 log_fd: int | None = None, snap_root: str | None = None) -> None:
        self.root = os.path.realpath(root)
        self.kill_at = kill_at
        self.log_fd = log_fd
        self.snap_root = snap_root    # copy the tree before every mutation
        self.events: list[tuple] = []
        self.count = 0            # mutations executed since the start
        self.enabled = False
        self.installed = False
        self._last_created: str | None = None

    # -- bookkeeping
    def _inside(self, p) -> bool:
        try:
            p = os.fspath(p)
        except TypeError:
            return False
        if isinstance(p, bytes):
            p = p.decode('utf-8', 'replace')
        return os.path.abspath(p).startswith(self.root + os.sep) \
            or os.path.abspath(p) == self.root

    def _before(self, ev: tuple) -> None:
        """Called just before a mutation is executed."""
        if not self.enabled:
            return
        if self.kill_at is not None and self.count >= self.kill_at:
            _real['exit'](KILL_STATUS)
        if self.snap_root is not None:
            self.snapshot_now()
        self.count += 1
        self.events.append(ev)
        if self.log_fd is not None:
            _real['write'](self.log_fd, (json.dumps(ev) + '\n').encode())

    def snapshot_now(self, suffix: str = '') -> None:
        """Copy the directory tree as it is at this instant: what a process
        killed right now would leave behind (everything written so far is in
        the kernel; nothing user-space-buffered is).  Taken before every
        mutation (name k) and, with suffix 'p', immediately after a rename or
        link has been executed (name kp): a file published while part of its
        content is still in a user-space buffer is seen as it is on disk at
        that instant, before the application gets to flush or close it."""
        was, self.enabled = self.enabled, False
        try:
            shutil.copytree(self.root,
                            os.path.join(self.snap_root, str(self.count) + suffix),
                            symlinks=True)
        finally:
            self.enabled = was

    def _after_publish(self) -> None:
        if self.enabled and self.snap_root is not None:
            self.snapshot_now('p')

    def _read(self, p: str):
        try:
            with _real['open'](p, 'rb') as f:
                return f.read(1 << 20)
        except OSError:
            return None

    # -- wrappers
    def install(self) -> None:
        if self.installed:
            return
        self.installed = True
        tr = self

        def rename(src, dst, *a, **k):
            if tr._inside(src) or tr._inside(dst):
                data = tr._read(src) if os.path.isfile(src) else None
                tr._before(('rename', os.fspath(src), os.fspath(dst),
                            data.hex() if data is not None else None))
                ret = _real['rename'](src, dst, *a, **k)
                tr._after_publish()
                return ret
            return _real['rename'](src, dst, *a, **k)

        def remove(p, *a, **k):
            if tr._inside(p):
                tr._before(('unlink', os.fspath(p)))
            return _real['remove'](p, *a, **k)

        def unlink(p, *a, **k):
            if tr._inside(p):
                tr._before(('unlink', os.fspath(p)))
            return _real['unlink'](p, *a, **k)

        def mkdir(p, *a, **k):
            if tr._inside(p):
                tr._before(('mkdir', os.fspath(p)))
            return _real['mkdir'](p, *a, **k)

        def rmdir(p, *a, **k):
            if tr._inside(p):
                tr._before(('rmdir', os.fspath(p)))
            return _real['rmdir'](p, *a, **k)

        def link(src, dst, *a, **k):
            if tr._inside(dst):
                data = tr._read(src)
                tr._before(('link', os.fspath(src), os.fspath(dst),
                            data.hex() if data is not None else None))
                ret = _real['link'](src, dst, *a, **k)
                tr._after_publish()
                return ret
            return _real['link'](src, dst, *a, **k)

        def utime(p, *a, **k):
            if tr._inside(p):
                tr._before(('utime', os.fspath(p)))
            return _real['utime'](p, *a, **k)

        def os_open(p, flags, *a, **k):
            if (flags & os.O_CREAT) and tr._inside(p):
                tr._before(('creat', os.fspath(p)))
                tr._last_created = os.fspath(p)
            return _real['os_open'](p, flags, *a, **k)

        def make_open(real):
            def open_(file, mode='r', *a, **k):
                if isinstance(file, int) or not any(c in mode for c in 'wxa+'):
                    return real(file, mode, *a, **k)
                if k.get('opener') is not None:
                    # NamedTemporaryFile: the opener calls os.open (creat
                    # event); the data are written after this call returns
                    ret = real(file, mode, *a, **k)
                    if tr._last_created is not None and tr._inside(tr._last_created):
                        tr._before(('write', tr._last_created))
                    return ret
                if not tr._inside(file):
                    return real(file, mode, *a, **k)
                if 'x' in mode:
                    tr._before(('creat', os.fspath(file)))
                    tr._last_created = os.fspath(file)
                    return real(file, mode, *a, **k)
                if '+' in mode and 'w' not in mode:
                    # mailbox._create_carefully: os.open(O_EXCL) then
                    # open(path, 'rb+'); the message is written afterwards
                    ret = real(file, mode, *a, **k)
                    tr._before(('write', os.fspath(file)))
                    return ret
                # plain 'w'/'a': create-or-truncate in place; the data are
                # written after the call returns (a crash point of its own:
                # the file is empty or partly written there)
                tr._before(('openw', os.fspath(file), mode))
                ret = real(file, mode, *a, **k)
                tr._before(('write', os.fspath(file)))
                return ret
            return open_

        os.rename, os.remove, os.unlink = rename, remove, unlink
        os.mkdir, os.rmdir, os.link, os.utime = mkdir, rmdir, link, utime
        os.open = os_open
        builtins.open = make_open(_real['open'])
        io.open = make_open(_real['io_open'])

    def uninstall(self) -> None:
        if not self.installed:
            return
        self.installed = False
        os.rename, os.remove, os.unlink = _real['rename'], _real['remove'], _real['unlink']
        os.mkdir, os.rmdir, os.link, os.utime = (_real['mkdir'], _real['rmdir'],
                                                 _real['link'], _real['utime'])
        os.open = _real['os_open']
        builtins.open = _real['open']
        io.open = _real['io_open']

    def take(self) -> list[tuple]:
        ev, self.events = self.events, []
        return ev


# --------------------------------------------------------------- determinism
class _FakeTime:
    """Stands in for the `time` module inside stdlib `mailbox` and
    `pymap.mailbox`: a clock that stands still (maildir keys then differ by
    their counter only, and Maildir._refresh always re-reads the directory)."""

    def __init__(self, start: float) -> None:
        self.now = start

    def time(self) -> float:
        return self.now

    def __getattr__(self, name):
        return getattr(time, name)


class _Names:
    def __init__(self) -> None:
        self.n = 0

    def __iter__(self):
        return self

    def __next__(self) -> str:
        self.n += 1
        return 'v%05d' % self.n


def determinize(seed: int = 7) -> None:
    """Make every name the backend draws a function of the call sequence."""
    import mailbox
    import random
    import socket
    import pymap.mailbox
    random.seed(seed)
    tempfile._name_sequence = _Names()
    mailbox.time = _FakeTime(1700000000.0)
    pymap.mailbox.time = _FakeTime(1700000000.0)
    mailbox.Maildir._count = 1
    fake_socket = type('S', (), {'gethostname': staticmethod(lambda: 'h'),
                                 '__getattr__': lambda s, n: getattr(socket, n)})()
    mailbox.socket = fake_socket
    fake_os = type('O', (), {'getpid': staticmethod(lambda: 4242),
                             '__getattr__': lambda s, n: getattr(os, n)})()
    mailbox.os = fake_os


def undeterminize() -> None:
    import mailbox
    import socket
    import pymap.mailbox
    mailbox.time = time
    pymap.mailbox.time = time
    mailbox.socket = socket
    mailbox.os = os
    tempfile._name_sequence = None


# -------------------------------------------------------------- typed paths
CTL = {'dovecot-uidlist': 'CUidl', 'dovecot-uidlist.lock': 'CUidlLock',
       'maildirfolder': 'CMdf', 'subscriptions': 'CSubs',
       'subscriptions.lock': 'CSubsLock'}
SUBS = {'new': 'SNew', 'cur': 'SCur', 'tmp': 'STmp'}
_TMP = re.compile(r'^(dovecot-uidlist|subscriptions)\.[a-z0-9_]{4,}$')


def enc_fname(parts) -> str:
    return T.lst(T.bytes_(p.encode()) for p in parts)


class PathMap:
    """Real path strings of one user's store -> FS.path terms."""

    def __init__(self, userdir: str, layout: str) -> None:
        self.userdir = os.path.realpath(userdir)
        self.layout = layout

    def split(self, p: str):
        """-> ('dir', parts) | ('sub', parts, s) | ('msg', parts, s, key, info)
        | ('ctl', parts, c) | ('tmp', parts, name) | None (outside / unknown)"""
        p = os.path.abspath(p)
        if p == self.userdir:
            return ('dir', [])
        if not p.startswith(self.userdir + os.sep):
            return None
        comps = p[len(self.userdir) + 1:].split(os.sep)
        parts: list[str] = []
        if self.layout == '++':
            if comps[0].startswith('.') and len(comps[0]) > 1:
                parts = comps[0][1:].split('.')
                comps = comps[1:]
        else:
            while comps and comps[0] not in SUBS and comps[0] not in CTL \
                    and not _TMP.match(comps[0]):
                parts.append(comps[0])
                comps = comps[1:]
        if not comps:
            return ('dir', parts)
        if comps[0] in SUBS:
            if len(comps) == 1:
                return ('sub', parts, comps[0])
            if len(comps) == 2:
                name = comps[1]
                if ':' in name:
                    key, info = name.split(':', 1)
                    if ':' in info or not info:
                        return None
                else:
                    key, info = name, ''
                return ('msg', parts, comps[0], key, info)
            return None
        if len(comps) == 1:
            if comps[0] in CTL:
                return ('ctl', parts, comps[0])
            if _TMP.match(comps[0]):
                return ('tmp', parts, comps[0])
        return None

    def term(self, p: str) -> str | None:
        s = self.split(p)
        if s is None:
            return None
        k = s[0]
        if k == 'dir':
            return f'(PDir {enc_fname(s[1])})'
        if k == 'sub':
            return f'(PSub {enc_fname(s[1])} {SUBS[s[2]]})'
        if k == 'msg':
            return (f'(PMsg {enc_fname(s[1])} {SUBS[s[2]]} {T.bytes_(s[3].encode())} '
                    f'{T.bytes_(s[4].encode())})')
        if k == 'ctl':
            return f'(PCtl {enc_fname(s[1])} {CTL[s[2]]})'
        return f'(PTmp {enc_fname(s[1])} {T.bytes_(s[2].encode())})'


_CID = re.compile(rb'X-Cid: (\d+)')


def cid_of(data: bytes | None) -> int:
    """Content id of message bytes: the number in its X-Cid header (the
    generators put one into every message); 0 = no such header (e.g. empty)."""
    if not data:
        return 0
    m = _CID.search(data)
    return int(m.group(1)) if m else 0


def enc_content(kind: str, data: bytes | None) -> str:
    if kind == 'msg':
        return f'(Opaque {T.N(cid_of(data))})'
    return f'(Text {T.bytes_(data or b"")})'


def enc_event(pm: PathMap, ev) -> str | None:
    """One traced event -> an FS.fsop term (None: not expressible)."""
    op = ev[0]
    if op in ('mkdir', 'rmdir', 'creat', 'unlink', 'utime'):
        p = pm.term(ev[1])
        if p is None:
            return None
        return {'mkdir': 'OMkdir', 'rmdir': 'ORmdir', 'creat': 'OCreat',
                'unlink': 'OUnlink', 'utime': 'OUtime'}[op] + ' ' + p
    if op == 'write':
        s = pm.split(ev[1])
        p = pm.term(ev[1])
        if p is None or ev[2] is None:
            return None
        kind = 'msg' if s[0] == 'msg' else 'text'
        return f'OWrite {p} {enc_content(kind, bytes.fromhex(ev[2]))}'
    if op in ('rename', 'link'):
        a, b = pm.split(ev[1]), pm.split(ev[2])
        if a is None or b is None:
            return None
        if a[0] == 'dir' and b[0] == 'dir' and op == 'rename':
            return f'ORenameDir {enc_fname(a[1])} {enc_fname(b[1])}'
        return ('ORename ' if op == 'rename' else 'OLink ') + pm.term(ev[1]) + ' ' + pm.term(ev[2])
    return None


def fill_writes(events: list) -> list:
    """A 'write' event carries no data (they are written after the event);
    take them from the rename/link that follows for the same file."""
    out = []
    for i, ev in enumerate(events):
        ev = list(ev)
        if ev[0] == 'write':
            data = None
            for later in events[i + 1:]:
                if later[0] in ('rename', 'link') and later[1] == ev[1]:
                    data = later[3]
                    break
            ev = ['write', ev[1], data]
        out.append(tuple(ev))
    return out


def snapshot(pm: PathMap) -> list[tuple[str, str]]:
    """The user's store as FS.fs entries (path term, node term)."""
    out = []
    for root, dirs, files in os.walk(pm.userdir):
        dirs.sort()
        for d in [root] if root == pm.userdir else []:
            out.append((pm.term(d), 'Dir'))
        for d in dirs:
            t = pm.term(os.path.join(root, d))
            if t is not None:
                out.append((t, 'Dir'))
        for f in sorted(files):
            full = os.path.join(root, f)
            s = pm.split(full)
            t = pm.term(full)
            if t is None:
                out.append((f'(PTmp nil {T.bytes_(("?" + f).encode())})', 'Dir'))
                continue
            with _real['open'](full, 'rb') as fh:
                data = fh.read()
            out.append((t, 'File ' + enc_content('msg' if s[0] == 'msg' else 'text', data)))
    return out


def enc_fs(entries) -> str:
    return T.lst(f'({p}, {n})' for p, n in entries)


# ------------------------------------------------------------------ history
def message_bytes(cid: int, extra: str = '') -> bytes:
    return (f'From: a{cid}@example.org\r\nSubject: message {cid}\r\n'
            f'X-Cid: {cid}\r\n\r\nbody of message {cid}{extra}\r\n').encode()


FLAG_OF = {'S': b'\\Seen', 'F': b'\\Flagged', 'T': b'\\Deleted', 'D': b'\\Draft',
           'R': b'\\Answered'}


def flags_arg(letters: str) -> bytes:
    return b'(' + b' '.join(FLAG_OF[c] for c in letters) + b')'


def mbx_name(parts) -> bytes:
    return b'INBOX' if not parts else '/'.join(parts).encode()


def command_bytes(tag: bytes, c) -> bytes:
    """A history element -> the IMAP command (non-synchronizing literals)."""
    k = c[0]
    if k == 'append':                      # ('append', folder, [(flags, cid), ...])
        out = tag + b' APPEND ' + mbx_name(c[1])
        for fl, cid in c[2]:
            m = message_bytes(cid)
            out += b' ' + flags_arg(fl) + b' {%d+}\r\n' % len(m) + m
        return out + b'\r\n'
    if k == 'select':
        return tag + b' SELECT ' + mbx_name(c[1]) + b'\r\n'
    if k == 'examine':
        return tag + b' EXAMINE ' + mbx_name(c[1]) + b'\r\n'
    if k == 'store':                       # ('store', [uids], '+'|'-'|'=', flags)
        mode = {'+': b'+FLAGS', '-': b'-FLAGS', '=': b'FLAGS'}[c[2]]
        return (tag + b' UID STORE ' + ','.join(map(str, c[1])).encode() + b' ' + mode
                + b' ' + flags_arg(c[3]) + b'\r\n')
    if k in ('copy', 'move'):              # ('copy', [uids], folder)
        return (tag + b' UID ' + k.upper().encode() + b' ' + ','.join(map(str, c[1])).encode()
                + b' ' + mbx_name(c[2]) + b'\r\n')
    if k == 'expunge':
        return tag + b' EXPUNGE\r\n'
    if k == 'check':
        return tag + b' CHECK\r\n'
    if k == 'noop':
        return tag + b' NOOP\r\n'
    if k == 'close':
        return tag + b' CLOSE\r\n'
    if k == 'create':
        return tag + b' CREATE ' + mbx_name(c[1]) + b'\r\n'
    if k == 'rename':
        return tag + b' RENAME ' + mbx_name(c[1]) + b' ' + mbx_name(c[2]) + b'\r\n'
    if k == 'subscribe':
        return tag + b' SUBSCRIBE ' + mbx_name(c[1]) + b'\r\n'
    if k == 'unsubscribe':
        return tag + b' UNSUBSCRIBE ' + mbx_name(c[1]) + b'\r\n'
    if k == 'delete':
        return tag + b' DELETE ' + mbx_name(c[1]) + b'\r\n'
    raise ValueError(c)


def folder_dir(userdir: str, layout: str, parts) -> str:
    if not parts:
        return userdir
    if layout == '++':
        return os.path.join(userdir, '.' + '.'.join(parts))
    return os.path.join(userdir, *parts)


def deliver_key(cid: int) -> str:
    return 'dlv%d.ext' % cid


def deliver(base: str, layout: str, c) -> None:
    """('deliver', folder, sub, info, cid): what a delivery agent does, through
    the (traced) os calls of this process: write tmp/<key>, set its time, link it into
    new/ or cur/, remove the tmp name."""
    _k, parts, sub, info, cid = c
    d = folder_dir(os.path.join(base, 'u1'), layout, parts)
    key = deliver_key(cid)
    tmp = os.path.join(d, 'tmp', key)
    fd = os.open(tmp, os.O_CREAT | os.O_EXCL | os.O_WRONLY, 0o600)
    os.close(fd)
    with open(tmp, 'rb+') as f:
        f.write(message_bytes(cid))
    os.utime(tmp, (1700000000, 1700000000))
    os.link(tmp, os.path.join(d, sub, key + (':' + info if info else '')))
    os.remove(tmp)


def status_of(tag: bytes, resp: bytes) -> str:
    m = re.search(rb'(?m)^' + re.escape(tag) + rb' (OK|NO|BAD)', resp)
    if m:
        return m.group(1).decode()
    if b'* BYE' in resp:
        return 'BYE'
    return 'NONE'


async def run_history(base: str, layout: str, history: list, *,
                      tracer: Tracer | None, ack_fd: int | None = None,
                      observe=None) -> list[dict]:
    """Set a maildir server up on `base` (user u1), log in, warm INBOX up,
    then run the history with the tracer enabled.  Returns one record per
    command: {'cmd', 'resp', 'status', 'events'}.  `observe(i)` (optional
    coroutine factory) is awaited with the tracer paused after every command."""
    from .pymap_env import MaildirEnv
    env = await MaildirEnv(layout, base_dir=base).start()
    conn = await env.login()
    await conn.send(b'w0 STATUS INBOX (MESSAGES)\r\n')   # creates INBOX's uidlist
    out = []
    for i, c in enumerate(history):
        tag = b'h%d' % i
        if tracer is not None:
            tracer.enabled = True
        if c[0] == 'deliver':
            deliver(base, layout, c)
            resp = tag + b' OK delivered\r\n'
        else:
            resp = await conn.send(command_bytes(tag, c))
        if tracer is not None:
            tracer.enabled = False
        st = status_of(tag, resp)
        rec = {'cmd': c, 'resp': resp.decode('latin-1'), 'status': st,
               'events': tracer.take() if tracer is not None else []}
        if ack_fd is not None:
            _real['write'](ack_fd, (json.dumps({'i': i, 'status': st,
                                                'resp': rec['resp']}) + '\n').encode())
        if observe is not None:
            rec['observed'] = await observe(env, i)
        out.append(rec)
        if conn.closed:
            break
    return out


# ----------------------------------------------------------------- recovery
_FETCH = re.compile(rb'\* \d+ FETCH \((.*?)BODY\[\] \{(\d+)\}\r\n', re.S)


def parse_fetches(resp: bytes) -> list[dict]:
    out = []
    pos = 0
    while True:
        m = _FETCH.search(resp, pos)
        if not m:
            break
        n = int(m.group(2))
        body = resp[m.end():m.end() + n]
        head = m.group(1)
        uid = int(re.search(rb'UID (\d+)', head).group(1))
        fl = re.search(rb'FLAGS \((.*?)\)', head).group(1).split()
        letters = ''.join(sorted(k for k, v in FLAG_OF.items() if v in fl))
        out.append({'uid': uid, 'flags': letters, 'recent': b'\\Recent' in fl,
                    'body': body.hex(), 'cid': cid_of(body)})
        pos = m.end() + n
    return out


async def dump_server(env, *, fast_sleep: bool = True) -> dict:
    """LIST, LSUB and, per listed mailbox, EXAMINE + UID FETCH of everything,
    through a new connection of `env`."""
    conn = await env.login()
    res: dict = {'folders': {}, 'errors': []}
    r = await conn.send(b'd1 LIST "" *\r\n')
    names = re.findall(rb'\* LIST \(([^)]*)\) (?:"[^"]*"|NIL) (.*?)\r\n', r)
    # (a \Noselect name is the missing parent of a listed child, not a mailbox)
    res['list'] = sorted(n.decode('latin-1').strip('"') for fl, n in names
                         if b'\\Noselect' not in fl)
    r = await conn.send(b'd2 LSUB "" *\r\n')
    names2 = re.findall(rb'\* LSUB \([^)]*\) (?:"[^"]*"|NIL) (.*?)\r\n', r)
    res['lsub'] = sorted(n.decode('latin-1').strip('"') for n in names2)
    res['lsub_status'] = status_of(b'd2', r)
    if conn.closed:
        conn = await env.login()
    for name in res['list']:
        if conn.closed:
            conn = await env.login()
        r = await conn.send(b'd3 EXAMINE "' + name.encode('latin-1') + b'"\r\n')
        st = status_of(b'd3', r)
        if st != 'OK':
            res['errors'].append({'folder': name, 'status': st,
                                  'resp': r.decode('latin-1')[:200],
                                  'exc': repr(conn.exc) if conn.exc else None})
            continue
        val = int(re.search(rb'UIDVALIDITY (\d+)', r).group(1))
        nxt = int(re.search(rb'UIDNEXT (\d+)', r).group(1))
        r = await conn.send(b'd4 UID FETCH 1:* (UID FLAGS BODY.PEEK[])\r\n')
        st = status_of(b'd4', r)
        if st != 'OK':
            res['errors'].append({'folder': name, 'status': st,
                                  'resp': r.decode('latin-1')[:200],
                                  'exc': repr(conn.exc) if conn.exc else None})
            continue
        res['folders'][name] = {'validity': val, 'uidnext': nxt,
                                'msgs': sorted(parse_fetches(r), key=lambda m: m['uid'])}
    if not conn.closed:
        await conn.send(b'd9 LOGOUT\r\n')
    return res


def find_locks(base: str) -> list[str]:
    out = []
    for root, _d, files in os.walk(base):
        for f in files:
            if f.endswith('.lock'):
                out.append(os.path.join(root, f))
    return sorted(out)


def age_locks(base: str, seconds: float = 700.0) -> None:
    """Let 'seconds' pass for the lock files: FileLock._check_lock removes a
    lock file whose mtime is older than its expiration (600 s)."""
    old = time.time() - seconds
    for p in find_locks(base):
        _real['utime'](p, (old, old))


# ------------------------------------------------------- forked experiments
class _FastSleep:
    """Replaces `asyncio` inside pymap.concurrent while a dump runs: the
    FileLock retry ladder (9.4 s of sleeps) collapses to zero-length sleeps."""

    def __init__(self) -> None:
        self._real = asyncio

    def __getattr__(self, name):
        return getattr(self._real, name)

    async def sleep(self, delay, result=None):
        return await self._real.sleep(0, result)


def recover_dump(base: str, layout: str) -> dict:
    """Start a fresh backend on `base` and dump what it serves."""
    import pymap.concurrent as pc
    from .pymap_env import MaildirEnv, run
    saved = pc.asyncio
    pc.asyncio = _FastSleep()
    try:
        async def go():
            env = await MaildirEnv(layout, base_dir=base).start()
            return await dump_server(env)
        return run(go(), timeout=900)
    finally:
        pc.asyncio = saved


def _rel(base: str, ev):
    return tuple(x.replace(base, '/B') if isinstance(x, str) and i in (1, 2) else x
                 for i, x in enumerate(ev))


def _child_reference(base: str, layout: str, history, out_path: str,
                     tmpdir: str | None, snap_root: str | None = None) -> None:
    """Runs in a forked child: the full history with tracing and with a dump
    (tracer paused, second connection, EXAMINE) after every command."""
    import random
    from .pymap_env import run
    determinize()
    if tmpdir:
        tempfile.tempdir = tmpdir
    tr = Tracer(base, snap_root=snap_root)
    tr.install()
    pm = PathMap(os.path.join(base, 'u1'), layout)
    res: dict = {}

    async def observe(env, i):
        return await dump_server(env)

    async def go():
        from .pymap_env import MaildirEnv
        env = await MaildirEnv(layout, base_dir=base).start()
        conn = await env.login()
        await conn.send(b'w0 STATUS INBOX (MESSAGES)\r\n')
        res['fs0'] = snapshot(pm)
        state = random.getstate()
        res['dump0'] = await dump_server(env)
        random.setstate(state)
        recs = []
        for i, c in enumerate(history):
            tag = b'h%d' % i
            tr.enabled = True
            if c[0] == 'deliver':
                deliver(base, layout, c)
                resp = tag + b' OK delivered\r\n'
            else:
                resp = await conn.send(command_bytes(tag, c))
            tr.enabled = False
            evs = [_rel(base, e) for e in fill_writes(tr.take())]
            rec = {'cmd': c, 'resp': resp.decode('latin-1'), 'status': status_of(tag, resp),
                   'events': evs, 'exc': repr(conn.exc) if conn.exc else None}
            if c[0] == 'deliver':
                # no server has seen the file yet: what is acknowledged is the
                # state before (a dump would adopt the file outside the trace)
                rec['dump'] = recs[-1]['dump'] if recs else res['dump0']
                recs.append(rec)
                continue
            state = random.getstate()
            rec['dump'] = await dump_server(env)
            random.setstate(state)
            recs.append(rec)
            if conn.closed:
                break
        res['cmds'] = recs
        res['fs_final'] = snapshot(pm)
        if snap_root is not None:
            tr.snapshot_now()          # the state after the last operation
    try:
        run(go(), timeout=1800)
    except BaseException as exc:      # reported by the parent
        res['error'] = repr(exc)
    with _real['open'](out_path, 'w') as f:
        json.dump(res, f)


def _child_killed(base: str, layout: str, history, k: int, log_path: str,
                  ack_path: str, tmpdir: str | None) -> None:
    from .pymap_env import run
    determinize()
    if tmpdir:
        tempfile.tempdir = tmpdir
    log_fd = _real['os_open'](log_path, os.O_WRONLY | os.O_CREAT | os.O_APPEND, 0o600)
    ack_fd = _real['os_open'](ack_path, os.O_WRONLY | os.O_CREAT | os.O_APPEND, 0o600)
    tr = Tracer(base, kill_at=k, log_fd=log_fd)
    tr.install()
    run(run_history(base, layout, history, tracer=tr, ack_fd=ack_fd), timeout=1800)


def _fork(fn, *args) -> int:
    sys.stdout.flush()
    sys.stderr.flush()
    pid = os.fork()
    if pid == 0:
        code = 0
        try:
            fn(*args)
        except SystemExit as exc:
            code = int(exc.code or 0)
        except BaseException:
            import traceback
            traceback.print_exc()
            code = 99
        finally:
            sys.stdout.flush()
            sys.stderr.flush()
            _real['exit'](code)
    _, status = os.waitpid(pid, 0)
    return os.waitstatus_to_exitcode(status)


def _read_jsonl(path: str) -> list:
    out = []
    if os.path.exists(path):
        for line in _real['open'](path):
            line = line.strip()
            if line:
                try:
                    out.append(json.loads(line))
                except ValueError:
                    pass
    return out


_WARM = False


def _warm_up() -> None:
    """Import everything the server needs once, before any fork."""
    global _WARM
    if _WARM:
        return
    _WARM = True
    d = tempfile.mkdtemp(prefix='pvwarm-')
    try:
        recover_dump(d, '++')
    finally:
        shutil.rmtree(d, ignore_errors=True)


def _recover_entry(base: str, layout: str, k: int) -> dict:
    ent: dict = {'k': k}
    locks = find_locks(base)
    ent['locks'] = [p.replace(base, '/B') for p in locks]
    ent['dump_raw'] = recover_dump(base, layout)
    if locks:
        age_locks(base)
        ent['dump_aged'] = recover_dump(base, layout)
    return ent


def crash_experiment(args: dict) -> dict:
    """Worker entry (runs in a spawned process): one history on one layout.
    args: layout, history, crossfs (bool), mode:
      'ref'   reference run: full trace, a dump after every command and,
              with snap_root, a copy of the directory before every
              filesystem mutation (= what a kill at that point leaves);
      'dump'  for each k in ks: what a fresh server serves from snap_root/k;
      'kill'  for each k in ks: run the history in a forked child that ends
              with os._exit before its (k+1)-th mutation, then dump."""
    layout, history = args['layout'], args['history']
    mode = args.get('mode', 'ref')
    tmpdir = None
    _warm_up()
    res: dict = {'layout': layout, 'history': history, 'crossfs': bool(args.get('crossfs')),
                 'id': args.get('id'), 'mode': mode}
    side = tempfile.mkdtemp(prefix='pvside-')
    if args.get('crossfs'):
        tmpdir = tempfile.mkdtemp(prefix='pvtmp-', dir='/dev/shm')
    try:
        if mode == 'ref':
            base = tempfile.mkdtemp(prefix='pvref-')
            try:
                out = os.path.join(side, 'ref.json')
                rc = _fork(_child_reference, base, layout, history, out, tmpdir,
                           args.get('snap_root'))
                res['ref_rc'] = rc
                res['ref'] = json.load(_real['open'](out)) if os.path.exists(out) else None
                res['ref_locks'] = [p.replace(base, '/B') for p in find_locks(base)]
                res['base'] = base
            finally:
                shutil.rmtree(base, ignore_errors=True)
            if res['ref'] and 'cmds' in res['ref']:
                res['total_ops'] = sum(len(c['events']) for c in res['ref']['cmds'])
            return res
        res['crashes'] = []
        for k in args['ks']:
            if mode == 'dump':
                snap = os.path.join(args['snap_root'], str(k))
                if not os.path.isdir(snap):
                    res['crashes'].append({'k': k, 'missing': True})
                    continue
                res['crashes'].append(_recover_entry(snap, layout, k))
                post = snap + 'p'
                if os.path.isdir(post):
                    # the instant right after the k-th operation (a rename or
                    # link) was executed, before anything else could happen
                    ent = _recover_entry(post, layout, k)
                    ent['post'] = True
                    res['crashes'].append(ent)
                continue
            base = tempfile.mkdtemp(prefix='pvkill-')
            try:
                log = os.path.join(side, f'log{k}.jsonl')
                ack = os.path.join(side, f'ack{k}.jsonl')
                rc = _fork(_child_killed, base, layout, history, k, log, ack, tmpdir)
                ent = _recover_entry(base, layout, k)
                ent.update({'rc': rc, 'killed': True,
                            'trace': [_rel(base, tuple(e)) for e in _read_jsonl(log)],
                            'acks': _read_jsonl(ack)})
                res['crashes'].append(ent)
            finally:
                shutil.rmtree(base, ignore_errors=True)
    finally:
        shutil.rmtree(side, ignore_errors=True)
        if tmpdir:
            shutil.rmtree(tmpdir, ignore_errors=True)
    return res


def run_experiments(jobs: list[dict], workers: int = 12) -> list[dict]:
    """Run crash experiments in spawned worker processes (each forks its own
    children, so the checking process itself never forks)."""
    import multiprocessing as mp
    from concurrent.futures import ProcessPoolExecutor
    if not jobs:
        return []
    ctx = mp.get_context('spawn')
    with ProcessPoolExecutor(max_workers=min(workers, len(jobs)), mp_context=ctx) as ex:
        return list(ex.map(crash_experiment, jobs))


def acked_at(ref: dict, k: int) -> int:
    """Number of commands answered before the (k+1)-th operation starts."""
    n = 0
    for j, c in enumerate(ref['cmds']):
        if n + len(c['events']) > k:
            return j
        n += len(c['events'])
    return len(ref['cmds'])


def crash_campaign(jobs: list[dict], pick_ks, pick_kills=None, workers: int = 12,
                   chunk: int = 8) -> list[dict]:
    """Phase 1: the reference run of every job (layout, history, crossfs),
    copying the directory before every filesystem mutation.
    Phase 2: a fresh server is started on the copies `pick_ks(total)` selects
    (the state a kill at that operation boundary leaves), and — for the
    points `pick_kills(total)` selects — on the directory left by a child
    process that really was ended there with os._exit.
    Returns the reference results with 'crashes' (from the copies, each with
    'acked') and 'kills' (from real kills) sorted by k."""
    roots = []
    try:
        for j in jobs:
            roots.append(tempfile.mkdtemp(prefix='pvsnap-'))
        refs = run_experiments([dict(j, mode='ref', id=i, snap_root=roots[i])
                                for i, j in enumerate(jobs)], workers)
        todo = []
        for r in refs:
            r['crashes'], r['kills'] = [], []
            if not r.get('ref') or 'cmds' not in r['ref'] or r['ref'].get('error'):
                continue
            total = r['total_ops']
            ks = sorted(set(k for k in pick_ks(total) if 0 <= k <= total))
            for i in range(0, len(ks), chunk):
                todo.append({'layout': r['layout'], 'history': r['history'], 'mode': 'dump',
                             'crossfs': r['crossfs'], 'ks': ks[i:i + chunk], 'id': r['id'],
                             'snap_root': roots[r['id']]})
            kk = sorted(set(k for k in (pick_kills(total) if pick_kills else [])
                            if 0 <= k <= total))
            for k in kk:
                todo.append({'layout': r['layout'], 'history': r['history'], 'mode': 'kill',
                             'crossfs': r['crossfs'], 'ks': [k], 'id': r['id']})
        for kr in run_experiments(todo, workers):
            tgt = refs[kr['id']]
            if kr['mode'] == 'dump':
                for c in kr['crashes']:
                    if c.get('missing'):
                        continue
                    c['acked'] = acked_at(tgt['ref'], c['k'] - 1 if c.get('post') else c['k'])
                    c['locks'] = [re.sub(r'^.*?/pvsnap-[^/]+/\d+p?', '/B', p) for p in c['locks']]
                    tgt['crashes'].append(c)
            else:
                for c in kr['crashes']:
                    c['acked'] = len(c['acks'])
                    tgt['kills'].append(c)
        for r in refs:
            r['crashes'].sort(key=lambda c: (c['k'], not c.get('post')))
            r['kills'].sort(key=lambda c: c['k'])
        return refs
    finally:
        for d in roots:
            shutil.rmtree(d, ignore_errors=True)
