"""C07: maildir folders that have a `dovecot-keywords` file (pymap never
writes it; it exists in maildirs shared with dovecot).

  * family `maildir_keywords`: hostile file contents through the real
    MaildirFlags.read / permanent_flags / from_maildir vs Resp/Keywords.v;
  * live runs: a maildir INBOX (and a sub-folder) prepared with such a file
    (0-26 keywords, odd spacing, CRLF line ends, keywords that are no atoms)
    and message files whose names carry keyword letters; SELECT / EXAMINE /
    FETCH FLAGS / STORE / SEARCH KEYWORD / STATUS on it, every byte through the
    strict response parser.
"""
from __future__ import annotations

import io
import os

from . import coqterm as T
from . import imap_grammar as G

HEADER = ('From PV Require Import Base.Prelude Base.Decimal Resp.Grammar Resp.Printer Resp.Wf '
          'Resp.Producer Resp.Keywords Resp.KeywordsCheck.\n')
CASE_TYPE = 'kw_case'
CHECKER = 'chk_keywords'

ATOMISH = ['$Junk', '$NonJunk', '$Forwarded', 'kw', 'KW', 'a', 'Z9', 'x-y', 'NIL', 'a.b', "it's", 'a&b',
           '+x', ',', '0', '$MDNSent', 'NonJunk', '~t', '|', '^', '_', '<>', 'a=b', 'a@b', ';', '?', 'a!']
HOSTILE = ['kw(x', 'a)b', 'a{b', '{5}', 'a]b', 'a"b', 'a%b', 'a*b', 'a\\b', '\x7f', 'a\x00b', '\x01', 'é',
           'k€', '\udc80', 'a]', '"', '(', ')', '%', '*', '}', 'a\x1bb', '\\Seen', '\\x', '\\', '\\*',
           ']', 'x' * 300]


def gen_keyword(rng) -> str:
    r = rng.random()
    if r < 0.55:
        return rng.choice(ATOMISH)
    if r < 0.85:
        return rng.choice(HOSTILE)
    return ''.join(chr(rng.choice([rng.randint(0x21, 0x7e), rng.randint(0x21, 0x7e),
                                    rng.randint(1, 0x2ff)])) for _ in range(rng.randint(1, 6)))


def usable(k: str) -> bool:
    """a field str.split() can return"""
    return bool(k) and not any(c.isspace() for c in k)


def gen_fields(rng):
    n = rng.choice([0, 1, 2, 3, 5, 8, 26, 27])
    out = []
    for j in range(n):
        idx = j if rng.random() < 0.7 else rng.choice([0, 1, 25, 26, 30, rng.randint(0, 40)])
        k = gen_keyword(rng)
        if usable(k):
            out.append((idx, k))
    return out


def render(fields, rng) -> str:
    """file text whose lines str.split() cuts into exactly these fields"""
    lines = []
    for idx, k in fields:
        sep = rng.choice([' ', ' ', ' ', '  ', '\t', ' \t '])
        lead = rng.choice(['', '', '', ' ', '\t'])
        end = rng.choice(['\n', '\n', '\n', '\r\n', ' \n', '\t\r\n'])
        num = str(idx) if rng.random() < 0.85 else rng.choice(['%02d' % idx, '+%d' % idx])
        lines.append(lead + num + sep + k + end)
    text = ''.join(lines)
    if text and rng.random() < 0.2:
        text = text.rstrip('\r\n')          # no final newline
    return text


CODE_STRINGS = ['', 'S', 'Sab', 'abc', 'FRSTD', 'a,b', 'zz', 'Sa{', 'xyzS', 'aa', 'T,S', '|', 'bB']


def observe(fields, text: str):
    """the real reader on the text -> (observed term parts, flags written)"""
    from pymap.backend.maildir.flags import MaildirFlags
    mf = MaildirFlags('/nonexistent')
    try:
        mf.read(io.StringIO(text))
    except ValueError:
        return None
    table = sorted((ord(code), bytes(flag)) for code, flag in mf._to_kwd.items())
    perm = sorted(bytes(f) for f in mf.permanent_flags)
    msgs = [(codes, sorted(bytes(f) for f in mf.from_maildir(codes))) for codes in CODE_STRINGS]
    return table, perm, msgs


def e_case(fields, obs) -> str:
    fs = T.lst(T.pair(T.N(i), T.codepoints(k)) for i, k in fields)
    if obs is None:
        return f'({fs}, None)'
    table, perm, msgs = obs
    tab = T.lst(T.pair(T.N(c), T.bytes_(f)) for c, f in table)
    pm = T.lst(T.bytes_(f) for f in perm)
    ms = T.lst(T.pair(T.codepoints(c), T.lst(T.bytes_(f) for f in fl)) for c, fl in msgs)
    return f'({fs}, Some ({tab}, {pm}, {ms}))'


def family(ctx, submit, job_headers) -> None:
    rng = ctx.rng
    cases, keep = [], []
    singles = [[(0, k)] for k in ATOMISH + HOSTILE if usable(k)]
    singles += [[(1, 'a' + chr(c) + 'b')] for c in range(1, 256) if usable('a' + chr(c) + 'b')]
    singles += [[(2, chr(c))] for c in range(1, 256) if usable(chr(c))]
    files = singles + [gen_fields(rng) for _ in range(ctx.scale(150, 1200))]
    nerr = 0
    for fields in files:
        text = render(fields, rng)
        try:
            obs = observe(fields, text)
        except Exception as exc:      # anything but the ValueError of the reader
            ctx.disagreement('maildir_keywords', {'file': text, 'exc': repr(exc)})
            continue
        nerr += obs is None
        if obs is not None:
            for f in obs[1]:
                line = b'* FLAGS (' + f + b')\r\n'
                ctx.count(('kwflag', f), nontrivial=True)
                if G.check_transcript(line):
                    ctx.failure('keyword_not_atom', f'MaildirFlags.read accepts the keyword {f!r}: '
                                f'FLAGS / PERMANENTFLAGS / FETCH FLAGS with it are ill-formed',
                                {'keywords_file': text, 'bytes': line.hex()}, {'kind': 'keyword_not_atom'})
                    break
        cases.append(e_case(fields, obs))
        keep.append(text)
    ctx.extra['maildir_keywords'] = {'files': len(keep), 'value_errors': nerr}
    job_headers['maildir_keywords'] = HEADER
    submit(ctx, 'maildir_keywords', CASE_TYPE, cases, CHECKER, 350, lambda i: {'file': keep[i]})


# ------------------------------------------------------------------ live runs
LETTER_NAMES = ['1.M1.h:2,Sab', '2.M2.h:2,c', '3.M3.h:2,', '4.M4.h:2,FRSTDabcdefghijklmnopqrstuvwxyz',
                '5.M5.h:2,z', '6.M6.h', '7.M7.h:2,a,b']


def gen_file_bytes(rng) -> bytes:
    fields = gen_fields(rng)
    # the server opens the file as text: keep it decodable, ValueError paths
    # (two fields missing, backslash) are exercised by the family above
    fields = [(i, k) for i, k in fields if not k.startswith('\\')]
    text = render(fields, rng)
    return text.encode('utf-8', 'replace')


async def live_one(content: bytes, layout: str, sub: bool):
    from .pymap_env import MaildirEnv
    env = MaildirEnv(layout=layout)
    await env.start()
    try:
        root = os.path.join(env.base, 'u1')
        folders = [root]
        if sub:
            folders.append(os.path.join(root, '.kwbox' if layout == '++' else 'kwbox'))
        for folder in folders:
            for d in ('cur', 'new', 'tmp'):
                os.makedirs(os.path.join(folder, d), exist_ok=True)
            with open(os.path.join(folder, 'dovecot-keywords'), 'wb') as f:
                f.write(content)
            for n in LETTER_NAMES:
                with open(os.path.join(folder, 'cur', n), 'wb') as f:
                    f.write(b'Subject: x\r\n\r\nhi\r\n')
        conn = await env.login()
        out = bytearray()
        cmds = [b'k1 SELECT INBOX', b'k2 FETCH 1:* (FLAGS UID)', b'k3 STORE 1:2 +FLAGS ($Junk kw NonJunk)',
                b'k4 UID FETCH 1:* FLAGS', b'k5 SEARCH KEYWORD $Junk', b'k6 STORE 3 FLAGS.SILENT (\\Seen a)',
                b'k7 NOOP', b'k8 EXAMINE INBOX', b'k9 FETCH 1:* FLAGS', b'k10 STATUS INBOX (MESSAGES UNSEEN)',
                b'k11 LIST "" *', b'k12 SELECT kwbox', b'k13 FETCH 1:* FLAGS', b'k14 CLOSE', b'k15 LOGOUT']
        for c in cmds:
            out += await conn.send(c + b'\r\n')
            if conn.exc is not None:
                break
        return bytes(out), conn.exc
    finally:
        env.close()


def live(ctx) -> None:
    from .pymap_env import run as arun
    rng = ctx.rng
    fixed = [b'0 $Junk\n1 $NonJunk\n2 $Forwarded\n', b'0 $Junk\r\n1 NonJunk\r\n', b'0 kw(x\n1 ok\n',
             b'0 a]b\n1 a"b\n2 a%b\n3 {5}\n4 fine\n', b'', b'26 zz\n0 ok',
             b''.join(b'%d k%d\n' % (i, i) for i in range(26)), b' 0  a \n\t1\tb\t\r\n']
    contents = fixed + [gen_file_bytes(rng) for _ in range(ctx.scale(6, 40))]
    n = 0
    for content in contents:
        layout = rng.choice(['++', 'fs'])
        try:
            out, exc = arun(live_one(content, layout, rng.random() < 0.5), 120)
        except Exception as exc:
            ctx.disagreement('maildir_keywords_live', {'file': content.hex(), 'exc': repr(exc)})
            continue
        n += 1
        ctx.count(('kwlive', out), nontrivial=True)
        for v in G.check_transcript(out):
            ctx.failure(v['kind'], f'maildir folder with a dovecot-keywords file: ill-formed response '
                        f'({v["expected"]}): {v["line"][:200]!r}',
                        {'keywords_file': content.hex(), 'layout': layout,
                         'keywords_file_text': content.decode('latin-1')},
                        {'kind': v['kind']})
            break
    ctx.extra['maildir_keywords_live'] = {'runs': n}
