"""Running one multi-session trace on the real dict backend and recording,
per step, the label (with observed oracles), the canonical responses and the
glass-box observation; detection of IDLE wake-ups."""
from __future__ import annotations

from .store_env import StoreRun
from .store_gen import TraceGen


class Trace:
    def __init__(self) -> None:
        self.setup: list[tuple] = []
        self.steps: list[tuple] = []      # (label, responses, obs)
        self.raws: list[bytes] = []
        self.problems: list[dict] = []    # harness-level observations (atomicity, unparsed lines)

    def labels(self) -> list[tuple]:
        return [s[0] for s in self.steps]


async def exec_label(run: StoreRun, trace: Trace, label, hooks=()) -> tuple:
    """Execute one label, record it, then record the wake-ups of idling
    connections it caused.  hooks: callables(run, trace, step_index, label,
    responses, raw) -> None, called after every recorded step (monitors)."""
    idle_before = {s: run.selected(s) for s in run.idle}
    own_before = run.selected(label[1]) if label[0] == 'cmd' and label[2][0] == 'idle' else None
    label, responses, raw = await run.do(label)
    for r in responses:
        if r[0] in ('other', 'bye'):
            trace.problems.append({'kind': 'unparsed_or_bye', 'label': repr(label),
                                   'line': repr(r[1])})
    if label[0] == 'cmd' and label[2][0] == 'idle' and responses[:1] == [('cont',)] and \
            (len(responses) > 1 or run.selected(label[1]) is not own_before):
        # IDLE answers `+ Idling.` and, when the mailbox has changed since the last
        # command, reports that at once: recorded as the IDLE step followed by a wake-up
        s = label[1]
        trace.steps.append((label, responses[:1], run.observe(exclude=[s])))
        trace.raws.append(raw)
        for h in hooks:
            h(run, trace, len(trace.steps) - 1, label, responses[:1], raw)
        wl = ('wake', s)
        trace.steps.append((wl, responses[1:], run.observe()))
        trace.raws.append(b'')
        for h in hooks:
            h(run, trace, len(trace.steps) - 1, wl, responses[1:], b'')
    else:
        trace.steps.append((label, responses, run.observe()))
        trace.raws.append(raw)
        for h in hooks:
            h(run, trace, len(trace.steps) - 1, label, responses, raw)
    # wake-ups: let the loop run; an idler that forked has a new _selected object
    if run.idle:
        await run.settle()
        woken = [s for s in sorted(run.idle) if s in idle_before and
                 (run.selected(s) is not idle_before[s] or run.conns[s].out)]
        # all of them have already run; the k-th wake step is observed without
        # the connections whose wake label comes later
        for k, s in enumerate(woken):
            wl, wr, wraw = await run.do(('wake', s))
            trace.steps.append((wl, wr, run.observe(exclude=woken[k + 1:])))
            trace.raws.append(wraw)
            for h in hooks:
                h(run, trace, len(trace.steps) - 1, wl, wr, wraw)
    return label, responses, raw


async def random_trace(rng, *, nsess: int, nsteps: int, boxes=(1,), idle=True,
                       readonly_sessions=(), weights=None, hooks=(), checkpoint=None,
                       preselect=True) -> tuple[Trace, StoreRun]:
    sessions = list(range(1, nsess + 1))
    run = await StoreRun().start(sessions)
    trace = Trace()
    trace.setup = run.setup_labels()
    gen = TraceGen(rng, run, sessions, boxes=boxes, idle=idle,
                   readonly_sessions=readonly_sessions, weights=weights)
    if preselect:
        for s in sessions:
            box = rng.choice(list(boxes))
            await exec_label(run, trace, ('cmd', s, ('select', box, s in readonly_sessions)), hooks)
    for i in range(nsteps):
        await exec_label(run, trace, gen.next_label(), hooks)
        if checkpoint is not None:
            await checkpoint(run, trace, i)
    # end every IDLE so that the trace is complete
    for s in sorted(run.idle):
        await exec_label(run, trace, ('done', s), hooks)
    if run.atomicity:
        for lab, susp in run.atomicity:
            trace.problems.append({'kind': 'atomicity', 'label': repr(lab), 'suspensions': susp})
    return trace, run
