"""Shared by the C05 / C09 checks (connection state machine, authentication).

* `introspect_commands()` / `write_cmd_table()`: the *translator for the finite
  table*.  Reads, from the real classes imported from /repo, for every built-in
  command name: which of CommandNonAuth / CommandAuth / CommandSelect /
  CommandAny it subclasses (exactly the `isinstance` tests of
  `ConnectionState.do_command`), whether it is a compound prefix, the root of
  its `delegate` chain (= which `do_<name>` executes it), whether that handler
  exists, whether `IMAPConnection._run_state` has an `isinstance` branch for
  it and, if so, whether that branch reaches the state gate.  The result is
  written to coq/theories/Conn/CmdTable.v (only when the content changed), so
  the gate theorems of Props/C05.v are re-checked against what the code says
  now.
* `Recorder`: in-process glass box.  `pymap.imap.ConnectionState` is replaced
  (in this process only) by a subclass whose `login` object, identities and
  sessions are proxies logging every backend call with its outcome; the state
  object itself is kept so that `_session` / `_selected` can be read after
  each command.
* `run_exchange`: send one command line plus the client lines it may ask for.
"""
from __future__ import annotations

import ast
import inspect
import os
import re
import textwrap

from . import coqterm as T
from .coqrun import TH

TABLE_PATH = os.path.join(TH, 'Conn', 'CmdTable.v')


# --------------------------------------------------------------------------
# the translator: command classes -> Conn/CmdTable.v
# --------------------------------------------------------------------------
def _method_ast(cls, name):
    try:
        src = textwrap.dedent(inspect.getsource(getattr(cls, name)))
    except (AttributeError, OSError, TypeError):
        return None
    return ast.parse(src).body[0]


def _contains_gate(fn_ast) -> bool:
    """The gate = an `isinstance(<x>, CommandNonAuth)` test (the state checks
    of do_command live in the function that contains it)."""
    for node in ast.walk(fn_ast):
        if isinstance(node, ast.Call) and getattr(node.func, 'id', None) == 'isinstance' \
                and len(node.args) == 2:
            names = {n.id for n in ast.walk(node.args[1]) if isinstance(n, ast.Name)}
            if 'CommandNonAuth' in names:
                return True
    return False


def _called_methods(node) -> set[tuple[str, str]]:
    """(receiver, method) for every `recv.method(...)` call under node."""
    out = set()
    for n in ast.walk(node):
        if isinstance(n, ast.Call) and isinstance(n.func, ast.Attribute) \
                and isinstance(n.func.value, ast.Name):
            out.add((n.func.value.id, n.func.attr))
    return out


def _reaches_gate(branch_nodes, conn_cls, state_cls) -> bool:
    """Does the code of an isinstance-branch of _run_state (transitively
    through self.* methods of the connection and state.* methods of the
    ConnectionState) call a function that contains the state gate?"""
    seen: set[tuple[str, str]] = set()
    work = set()
    for b in branch_nodes:
        work |= _called_methods(b)
    while work:
        recv, meth = work.pop()
        if (recv, meth) in seen:
            continue
        seen.add((recv, meth))
        if recv == 'self':
            fn = _method_ast(conn_cls, meth)
        elif recv == 'state':
            fn = _method_ast(state_cls, meth)
            if fn is not None and _contains_gate(fn):
                return True
            # inside a state method `self` is the state
            if fn is not None:
                for r2, m2 in _called_methods(fn):
                    if r2 == 'self':
                        work.add(('state', m2))
            continue
        else:
            continue
        if fn is not None:
            work |= _called_methods(fn)
    return False


def _special_branches(conn_cls, state_cls) -> dict[str, bool]:
    """class name -> reaches the gate, for every `isinstance(cmd, X)` branch of
    the command dispatch in IMAPConnection._run_state."""
    fn = _method_ast(conn_cls, '_run_state')
    res: dict[str, bool] = {}
    if fn is None:
        return res
    for node in ast.walk(fn):
        if not isinstance(node, ast.If):
            continue
        t = node.test
        if isinstance(t, ast.Call) and getattr(t.func, 'id', None) == 'isinstance' \
                and len(t.args) == 2 and getattr(t.args[0], 'id', None) == 'cmd' \
                and isinstance(t.args[1], ast.Name):
            # only the dispatch chain: its body assigns `response`
            assigns = {getattr(tg, 'id', None) for n in node.body for s in ast.walk(n)
                       if isinstance(s, ast.Assign) for tg in s.targets}
            if 'response' in assigns:
                res[t.args[1].id] = _reaches_gate(node.body, conn_cls, state_cls)
                # the final `else` of the chain serves every other command
                if node.orelse and not (len(node.orelse) == 1
                                        and isinstance(node.orelse[0], ast.If)):
                    res['*'] = _reaches_gate(node.orelse, conn_cls, state_cls)
    return res


def introspect_commands() -> list[dict]:
    from pymap.imap import IMAPConnection
    from pymap.imap.state import ConnectionState
    from pymap.parsing.command import CommandAny, CommandAuth, CommandNonAuth, CommandSelect
    from pymap.parsing.commands import Commands
    special = _special_branches(IMAPConnection, ConnectionState)
    table = []
    for name, cls in Commands().commands.items():
        root = cls
        while root.delegate:
            root = root.delegate
        handler = root.command.decode('ascii')
        spec = [k for k in special if any(c.__name__ == k for c in cls.__mro__)]
        default_gated = special.get('*', False)
        table.append({
            'name': name.decode('ascii'),
            'cls': cls.__name__,
            'nonauth': issubclass(cls, CommandNonAuth),
            'auth': issubclass(cls, CommandAuth),
            'select': issubclass(cls, CommandSelect),
            'any': issubclass(cls, CommandAny),
            'compound': bool(cls.compound),
            'handler': handler,
            'has_handler': hasattr(ConnectionState, 'do_' + handler.lower()),
            'special': bool(spec),
            'gated': all(special[k] for k in spec) if spec else default_gated,
        })
    table.sort(key=lambda e: e['name'])
    return table


def render_cmd_table(table: list[dict]) -> str:
    def b(x):
        return 'true ' if x else 'false'
    rows = []
    for e in table:
        rows.append(f'  mk_entry "{e["name"]}" {b(e["nonauth"])} {b(e["auth"])} {b(e["select"])} '
                    f'{b(e["any"])} {b(e["compound"])} "{e["handler"]}" {b(e["has_handler"])} '
                    f'{b(e["special"])} {b(e["gated"])}')
    return (
        '(* Conn/CmdTable.v -- GENERATED by harness/conn_common.py from the command classes of\n'
        '   /repo (pymap.parsing.commands.Commands, pymap.imap.state.ConnectionState,\n'
        '   pymap.imap.IMAPConnection._run_state).  Do not edit: it is rewritten whenever the\n'
        '   introspected table differs.  Columns: name, isinstance CommandNonAuth, CommandAuth,\n'
        '   CommandSelect, CommandAny, compound prefix, handler (root of the delegate chain),\n'
        '   ConnectionState.do_<handler> exists, has its own branch in _run_state, that\n'
        '   branch (or do_command for the others) reaches the state gate. *)\n'
        'From Coq Require Import String List.\n'
        'From PV Require Import Conn.CmdEntry.\n'
        'Import ListNotations.\n'
        'Open Scope string_scope.\n\n'
        'Definition cmd_table : list cmd_entry := [\n'
        + ';\n'.join(rows) + '\n].\n')


def write_cmd_table() -> tuple[list[dict], bool]:
    """Regenerate Conn/CmdTable.v; write only when the content changed.
    Returns (table, changed)."""
    table = introspect_commands()
    text = render_cmd_table(table)
    old = open(TABLE_PATH).read() if os.path.exists(TABLE_PATH) else None
    if old != text:
        os.makedirs(os.path.dirname(TABLE_PATH), exist_ok=True)
        tmp = TABLE_PATH + '.tmp%d' % os.getpid()
        with open(tmp, 'w') as f:
            f.write(text)
        os.replace(tmp, TABLE_PATH)
        return table, True
    return table, False


# --------------------------------------------------------------------------
# glass box: backend-call log and connection state capture
# --------------------------------------------------------------------------
class CallLog:
    def __init__(self) -> None:
        self.calls: list[dict] = []

    def take(self) -> list[dict]:
        out, self.calls = self.calls, []
        return out


def _outcome(exc: BaseException) -> str:
    from pymap.exceptions import ResponseError
    if isinstance(exc, ResponseError):
        return 'no:' + type(exc).__name__
    import asyncio
    if isinstance(exc, asyncio.TimeoutError):
        return 'timeout'
    return 'crash:' + type(exc).__name__


class _SessionProxy:
    """Forwards everything to the real session; coroutine methods are logged."""

    _skip = ('cleanup',)

    def __init__(self, session, log: CallLog) -> None:
        object.__setattr__(self, '_s', session)
        object.__setattr__(self, '_log', log)

    def __getattr__(self, name):
        val = getattr(self._s, name)
        if name.startswith('_') or name in self._skip or not inspect.iscoroutinefunction(val):
            return val
        log = self._log

        async def wrapper(*a, **kw):
            rec = {'meth': name}
            log.calls.append(rec)
            try:
                ret = await val(*a, **kw)
            except BaseException as exc:
                rec['out'] = _outcome(exc)
                raise
            rec['out'] = 'ok'
            sel = None
            from pymap.selected import SelectedMailbox
            if isinstance(ret, SelectedMailbox):
                sel = ret
            elif isinstance(ret, tuple):
                for x in ret:
                    if isinstance(x, SelectedMailbox):
                        sel = x
            if sel is not None:
                rec['ro'] = bool(sel.readonly)
                rec['gone'] = bool(sel._is_deleted)
            return ret
        return wrapper

    def __setattr__(self, name, value):
        setattr(self._s, name, value)


class _IdentityProxy:
    def __init__(self, ident, log: CallLog) -> None:
        self._i = ident
        self._log = log

    def __getattr__(self, name):
        return getattr(self._i, name)

    def new_session(self):
        from contextlib import asynccontextmanager
        ident, log = self._i, self._log

        @asynccontextmanager
        async def cm():
            rec = {'meth': 'new_session', 'name': ident.name}
            log.calls.append(rec)
            try:
                inner = ident.new_session()
                session = await inner.__aenter__()
            except BaseException as exc:
                rec['out'] = _outcome(exc)
                raise
            rec['out'] = 'ok'
            rec['owner'] = session.owner
            try:
                yield _SessionProxy(session, log)
            finally:
                await inner.__aexit__(None, None, None)
        return cm()


class _LoginProxy:
    def __init__(self, login, log: CallLog) -> None:
        self._l = login
        self._log = log

    def __getattr__(self, name):
        return getattr(self._l, name)

    async def authenticate(self, credentials):
        rec = {'meth': 'authenticate', 'authcid': credentials.authcid,
               'authzid': credentials.authzid}
        self._log.calls.append(rec)
        try:
            ident = await self._l.authenticate(credentials)
        except BaseException as exc:
            rec['out'] = _outcome(exc)
            raise
        rec['out'] = 'ok'
        rec['name'] = ident.name
        rec['roles'] = sorted(ident.roles)
        return _IdentityProxy(ident, self._log)

    async def authorize(self, authenticated, authzid):
        rec = {'meth': 'authorize', 'authcid': authenticated.name, 'authzid': authzid}
        self._log.calls.append(rec)
        inner = authenticated._i if isinstance(authenticated, _IdentityProxy) else authenticated
        try:
            ident = await self._l.authorize(inner, authzid)
        except BaseException as exc:
            rec['out'] = _outcome(exc)
            raise
        rec['out'] = 'ok'
        rec['name'] = ident.name
        rec['roles'] = sorted(ident.roles)
        return _IdentityProxy(ident, self._log)


class Recorder:
    """Context manager: while active, every IMAP connection created in this
    process records its ConnectionState (`.states`) and its backend calls
    (`.log`).  ManageSieve connections get the login proxy through
    `wrap_login`."""

    def __init__(self) -> None:
        self.log = CallLog()
        self.states: list = []
        self._orig = None

    def __enter__(self) -> 'Recorder':
        import pymap.imap as imap_mod
        from pymap.imap.state import ConnectionState
        rec = self

        class RecordingState(ConnectionState):
            def __init__(self, login, config, *args, **kwargs):
                # (a changed tree may pass more to its ConnectionState)
                super().__init__(_LoginProxy(login, rec.log), config, *args, **kwargs)
                rec.states.append(self)

        self._orig = imap_mod.ConnectionState
        imap_mod.ConnectionState = RecordingState
        return self

    def __exit__(self, *exc) -> None:
        import pymap.imap as imap_mod
        imap_mod.ConnectionState = self._orig

    def wrap_login(self, login):
        return _LoginProxy(login, self.log)

    def snapshot(self, st=None) -> dict:
        """Phase of a connection (default: the most recent one) as the code
        sees it."""
        if st is None:
            st = self.states[-1]
        sess = st._session
        sel = st._selected
        return {
            'owner': None if sess is None else sess.owner,
            'selected': None if sel is None else (sel._lookup if hasattr(sel, '_lookup')
                                                  else getattr(sel, 'lookup', None)),
            'readonly': None if sel is None else bool(sel.readonly),
            'mechs': len(st.auth.server_mechanisms) > 0,
            'starttls': b'STARTTLS' in st._capability,
            'ncaps': len(st._capability),
        }


# --------------------------------------------------------------------------
# driving one command with the client lines it may ask for
# --------------------------------------------------------------------------
_SYNC_LIT = re.compile(rb'\{\d+\}\r\n')


def _n_cont(out: bytes) -> int:
    return sum(1 for ln in out.split(b'\r\n') if ln.startswith(b'+ ') or ln == b'+')


async def run_exchange(conn, line: bytes, client_lines: list[bytes],
                       eol: bytes = b'\r\n') -> tuple[bytes, int]:
    """Send `line` (CRLF added; synchronising literals honoured by Conn.cmd);
    while the server has asked for more continuations than were answered, no
    tagged completion has been written yet and client lines remain, send the
    next one (the request need not be the last thing written: IDLE may push
    untagged updates right after `+ Idling.`).  Returns (all output, lines
    used)."""
    tag = line.split(b' ', 1)[0]
    out = await conn.cmd(line + eol)
    literals = len(_SYNC_LIT.findall(line + eol))
    used = 0
    while used < len(client_lines) and not conn.closed \
            and tagged(out, tag)[0] == 'NONE' and _n_cont(out) - literals > used:
        cl = client_lines[used]
        # a client line that already carries its terminator (e.g. a bare LF) is sent as is
        out += await conn.send(cl if cl.endswith(b'\n') else cl + b'\r\n')
        used += 1
    return out, used


def tagged(out: bytes, tag: bytes) -> tuple[str, bytes]:
    """(condition, text after it) of the tagged completion for `tag` in `out`;
    ('NONE', b'') when there is none."""
    for ln in out.split(b'\r\n'):
        if ln.startswith(tag + b' '):
            rest = ln[len(tag) + 1:]
            cond, _, text = rest.partition(b' ')
            return cond.decode('ascii', 'replace'), text
    return 'NONE', b''


def has_bye(out: bytes) -> bool:
    return any(ln.startswith(b'* BYE') for ln in out.split(b'\r\n'))


async def dict_add_user(env, name: str, password: str, roles=()) -> None:
    """Add a user to a started DictEnv (roles are a frozenset on the
    UserMetadata kept in Login.users_dict)."""
    from pymap.user import Passwords, UserMetadata
    hashed = await Passwords(env.config).hash_password(password)
    env.backend.login.users_dict[name] = UserMetadata(
        env.config, name, password=hashed, roles=frozenset(roles))


def coq_string(s: str) -> str:
    assert '"' not in s
    return '"' + s + '"'


def coq_bytes(b: bytes | str) -> str:
    if isinstance(b, str):
        b = b.encode('utf-8', 'surrogateescape')
    return T.bytes_(b)


# --------------------------------------------------------------------------
# a cheap dict-backend environment (no demo data: a fresh one costs ~1 ms)
# --------------------------------------------------------------------------
_MSG = (b'From: a@example.org\r\nTo: b@example.org\r\nSubject: s%d\r\n'
        b'Date: Mon, 1 Jan 2024 00:00:00 +0000\r\n\r\nbody %d\r\n')


async def populate_user(env, user: str, boxes: dict[str, tuple[int, bool]]) -> None:
    """Give `user` a mailbox set: {name: (message count, backend read-only)};
    INBOX always exists.  Same calls as Identity._load_demo makes."""
    from datetime import datetime, timezone
    from pymap.backend.dict.filter import FilterSet
    from pymap.backend.dict.mailbox import MailboxSet
    from pymap.parsing.message import AppendMessage
    mset = MailboxSet()
    when = datetime(2024, 1, 1, tzinfo=timezone.utc)
    k = 0
    for name, (count, readonly) in boxes.items():
        if name != 'INBOX':
            await mset.add_mailbox(name)
        mbx = await mset.get_mailbox(name)
        for _ in range(count):
            k += 1
            await mbx.append(AppendMessage(_MSG % (k, k), when, frozenset()), recent=True)
        if readonly:
            mbx._readonly = True
    env.config.set_cache[user] = (mset, FilterSet())


STD_BOXES = {'INBOX': (2, False), 'Sent': (1, False), 'Trash': (1, True)}


async def small_dict_env(*, tls: bool = False, boxes=None, **overrides):
    """DictEnv without the demo data: user testuser/testpass with INBOX (2
    messages), Sent (1), Trash (1, backend read-only)."""
    from .pymap_env import DictEnv
    env = await DictEnv(demo_data=None, tls=tls or None).start(**overrides)
    await populate_user(env, 'testuser', boxes or STD_BOXES)
    return env


def cache_sasl_entry_points() -> None:
    """pysasl looks its built-in mechanisms up through importlib.metadata on
    every SASLAuth.defaults() call (several ms, twice per connection).  The
    answer is a function of the installed packages only: memoise it in this
    process.  (pysasl is a dependency, not the code under verification.)"""
    import pysasl
    if getattr(pysasl.entry_points, '_verif_cached', False):
        return
    orig = pysasl.entry_points
    memo: dict = {}

    def cached(**kw):
        key = tuple(sorted(kw.items()))
        if key not in memo:
            memo[key] = tuple(orig(**kw))
        return memo[key]
    cached._verif_cached = True
    pysasl.entry_points = cached
