"""Shared body of the C01 and C02 checks: run seeded multi-session traces on
the real dict backend with the shadow-client monitors attached, evaluate the
Store model on the same labels inside Coq, report."""
from __future__ import annotations

import ast
import itertools

from . import store_env as SE
from .pymap_env import run as run_loop
from .store_monitor import RECENT, Probe, Shadow
from .store_trace import Trace, exec_label, random_trace
from .store_env import StoreRun

C01_CLAUSES = {'expunge_range', 'exists_shrinks', 'expunge_in_nonuid', 'fetch_label', 'view_sync',
               'copy_target'}
C02_CLAUSES = {'converge_uids', 'converge_flags', 'false_expunge'}


class Monitored:
    """Hooks + checkpoints around one trace."""

    def __init__(self, checkpoint_every: int = 0) -> None:
        self.shadows: dict[int, Shadow] = {}
        self.boxnum: dict[int, int | None] = {}
        self.sorted_after: dict[int, list | None] = {}
        self.failures: list[dict] = []
        self.checkpoint_every = checkpoint_every
        self.probe: Probe | None = None
        self.n_checkpoints = 0
        self.n_compared = 0

    def hook(self, run: StoreRun, trace: Trace, idx: int, label, responses, raw) -> None:
        kind = label[0]
        if kind == 'deliver':
            return
        s = label[1]
        sh = self.shadows.setdefault(s, Shadow(s))
        sel = run.selected(s)
        # the mailbox the client had selected while it read this answer
        boxnum_before = self.boxnum.get(s)
        self.boxnum[s] = SE.BOX_NUM.get(sel.lookup, 1) if sel is not None else None
        if kind == 'cmd' and label[2][0] == 'select':
            boxnum_before = None
        server_sorted = list(sel._messages._sorted) if sel is not None else None
        # the model keeps _uids and _sorted as one list, and _cache/_flags_key_set
        # as derived from _flags_key_map: check that abstraction on the real object
        if sel is not None:
            m = sel._messages
            if sorted(m._uids) != list(m._sorted) or sorted(m._cache) != list(m._sorted) or \
                    sorted(m._flags_key_map) != list(m._sorted) or \
                    set(m._flags_key_map.values()) != set(m._flags_key_set) or \
                    sel._session_flags._flags:
                trace.problems.append({'kind': 'view_abstraction', 'label': repr(label),
                                       'obs': repr(SE.sel_obs(sel))[:600]})
        ids_before = self.sorted_after.get(s)
        self.sorted_after[s] = server_sorted
        if kind == 'cmd' and label[2][0] == 'select':
            ids_before = None
        for clause, what, obs in sh.feed(label, responses, server_sorted, ids_before):
            self.failures.append({'clause': clause, 'what': what, 'obs': obs, 'step': idx,
                                  'session': s})
        # "no message that still exists is reported expunged" (glass box: the dict mailbox's
        # messages / the maildir file that carried the uid)
        if sh.expunged and boxnum_before is not None:
            still = sorted(u for u in sh.expunged if run.message_exists(boxnum_before, u))
            if still:
                self.failures.append({
                    'clause': 'false_expunge', 'step': idx, 'session': s,
                    'what': f'EXPUNGE reported for UID {still}, a message that still exists',
                    'obs': {'kind': 'false_expunge', 'cmd': label[2][0] if kind == 'cmd' else kind}})
        # COPY/MOVE: an addressed message that was not among the COPYUID sources must be gone
        if sh.copy_check is not None and sel is not None:
            cname, sset, want_uids, src = sh.copy_check
            alive = run.alive_uids(SE.BOX_NUM.get(sel.lookup, 1))
            skipped = sorted(u for u in want_uids - src if u in alive)
            if skipped:
                self.failures.append({
                    'clause': 'copy_target', 'step': idx, 'session': s,
                    'what': f'{cname.upper()} {sset} left out UID {skipped}, which the client '
                            f'addressed and which still exists',
                    'obs': {'kind': 'message_skipped', 'cmd': cname}})
        # what this client now believes about flags, for the comparison with the model's
        # client (the identity of a position is taken from the server's list)
        # (not at the IDLE step itself: when IDLE reports pending changes at once the server is
        # already one wake-up ahead of what this client has read; the wake step follows)
        if sh.view is not None and server_sorted is not None and len(sh.view) == len(server_sorted) \
                and isinstance(trace.steps[idx][2], dict) \
                and not (kind == 'cmd' and label[2][0] == 'idle'):
            trace.steps[idx][2]['beliefs'] = {
                s: [(u, sorted(t.flags - {RECENT})) for t, u in zip(sh.view, server_sorted)
                    if t.flags is not None]}

    async def checkpoint(self, run: StoreRun, trace: Trace, i: int, *, force: bool = False) -> None:
        if not force and (not self.checkpoint_every or (i + 1) % self.checkpoint_every):
            return
        if self.probe is None:
            self.probe = Probe(run)
        self.n_checkpoints += 1
        for s in sorted(run.conns):
            if s in run.idle or run.selected(s) is None:
                continue
            await exec_label(run, trace, ('cmd', s, ('noop',)), (self.hook,))
            sel = run.selected(s)
            box = SE.BOX_NUM.get(sel.lookup, 1)
            truth = await self.probe.truth(box)
            if truth is None:
                continue
            self.n_compared += 1
            for clause, what, obs in self.shadows[s].compare_truth(truth):
                self.failures.append({'clause': clause, 'what': what, 'obs': obs,
                                      'step': len(trace.steps) - 1, 'session': s})


async def monitored_random_trace(rng, *, nsess, nsteps, boxes=(1,), idle=True,
                                 readonly_sessions=(), weights=None, checkpoint_every=6,
                                 learn=True, flipflop=0.0, group=0.0):
    mon = Monitored(checkpoint_every)
    sessions = list(range(1, nsess + 1))
    run = await StoreRun().start(sessions)
    trace = Trace()
    trace.setup = run.setup_labels()
    from .store_gen import TraceGen
    gen = TraceGen(rng, run, sessions, boxes=boxes, idle=idle,
                   readonly_sessions=readonly_sessions, weights=weights, flipflop=flipflop,
                   group=group)
    hooks = (mon.hook,)
    for s in sessions:
        box = rng.choice(list(boxes))
        await exec_label(run, trace, ('cmd', s, ('select', box, s in readonly_sessions)), hooks)
        if learn:
            await exec_label(run, trace, ('cmd', s, ('fetch', [(1, '*')], False, True, False)), hooks)
    for i in range(nsteps):
        await exec_label(run, trace, gen.next_label(), hooks)
        if not gen.queue:      # never synchronize everybody in the middle of an episode
            await mon.checkpoint(run, trace, i)
    while gen.queue:
        await exec_label(run, trace, gen.queue.pop(0), hooks)
    for s in sorted(run.idle):
        await exec_label(run, trace, ('done', s), hooks)
    await mon.checkpoint(run, trace, 0, force=True)
    for lab, susp in run.atomicity:
        trace.problems.append({'kind': 'atomicity', 'label': repr(lab), 'suspensions': susp})
    await run.close()
    return trace, mon


async def monitored_fixed_trace(labels, *, nsess, final_checkpoint=True):
    """Replay a given label list (oracles are re-observed)."""
    mon = Monitored(0)
    sessions = list(range(1, nsess + 1))
    run = await StoreRun().start(sessions)
    trace = Trace()
    trace.setup = run.setup_labels()
    hooks = (mon.hook,)
    for label in labels:
        if label[0] == 'wake':
            continue            # wake-ups are detected, not scheduled
        if label[0] == 'cmd' and label[1] in run.idle:
            continue
        if label[0] == 'done' and label[1] not in run.idle:
            continue
        await exec_label(run, trace, label, hooks)
    for s in sorted(run.idle):
        await exec_label(run, trace, ('done', s), hooks)
    if final_checkpoint:
        await mon.checkpoint(run, trace, 0, force=True)
    for lab, susp in run.atomicity:
        trace.problems.append({'kind': 'atomicity', 'label': repr(lab), 'suspensions': susp})
    await run.close()
    return trace, mon


def labels_repr(labels) -> str:
    return repr(list(labels))


def labels_parse(text: str):
    return ast.literal_eval(text)


# ------------------------------------------------------- exhaustive schedules
ALPHABETS = {
    # all program pairs x all 20 schedules in the thorough tier
    'core3': [
        ('store', [1], False, 'add', [2], False),        # STORE 1 +FLAGS (\Deleted)
        ('expunge', None),                               # EXPUNGE
        ('fetch', [(1, '*')], False, False, False),      # FETCH 1:* (FLAGS)   (EXPUNGE forbidden)
    ],
    # sampled program pairs x all 20 schedules
    'expunge-vs-fetch': [
        ('store', [1], False, 'add', [2], False),
        ('expunge', None),
        ('fetch', [(1, '*')], False, False, False),
        ('append', 1, [([5], 7)], None),                 # APPEND INBOX
    ],
    # one EXPUNGE removing two messages (one log record with two uids), and a session with a
    # stale view that re-addresses only one of them
    'group-reexpunge': [
        ('store', [(1, 2)], False, 'add', [2], False),   # STORE 1:2 +FLAGS (\\Deleted)
        ('expunge', None),                               # EXPUNGE
        ('expunge', [101]),                              # UID EXPUNGE 101
        ('store', [102], True, 'add', [5], False),       # UID STORE 102 +FLAGS (\\Seen)
    ],
    'uid-and-silent': [
        ('store', ['*'], False, 'add', [2], True),       # STORE * +FLAGS.SILENT (\Deleted)
        ('expunge', [(1, '*')]),                         # UID EXPUNGE 1:*
        ('fetch', [(1, '*')], True, False, True),        # UID FETCH 1:* (FLAGS BODY[TEXT]<0.3>) (sets \Seen)
        ('move', [1], False, 2, None),                   # MOVE 1 Sent
    ],
}
EXHAUSTIVE_ALPHABETS = ('core3',)


def schedules(n1: int, n2: int):
    """All interleavings of n1 steps of session 1 and n2 steps of session 2."""
    for pos in itertools.combinations(range(n1 + n2), n1):
        s = [2] * (n1 + n2)
        for p in pos:
            s[p] = 1
        yield s


def exhaustive_programs(alphabet, n: int = 3):
    for p1 in itertools.product(alphabet, repeat=n):
        for p2 in itertools.product(alphabet, repeat=n):
            yield p1, p2


def interleave(p1, p2, sched):
    i = j = 0
    out = []
    for s in sched:
        if s == 1:
            out.append(('cmd', 1, p1[i]))
            i += 1
        else:
            out.append(('cmd', 2, p2[j]))
            j += 1
    return out


# --------------------------------------------------------------- reporting
def report_trace(ctx, name: str, trace: Trace, mon: Monitored, clauses, meta: dict) -> None:
    labels = trace.labels()
    for f in mon.failures:
        if f['clause'] not in clauses:
            continue
        ctx.failure(f['clause'], f['what'],
                    {'labels': labels_repr(labels[:f['step'] + 1]), 'nsess': meta.get('nsess'),
                     'session': f['session'], 'step': f['step'], 'generator': name, **meta},
                    f['obs'])
    for p in trace.problems:
        ctx.disagreement(name + ':' + p['kind'], {**p, 'labels': labels_repr(labels)[:1500]})


class Packed:
    """A recorded trace reduced to what the evaluation and its diagnosis need
    (the Gallina case term, labels, responses): the per-step observations of
    tens of thousands of schedule traces are not kept in memory."""

    def __init__(self, trace: Trace, light: bool = False) -> None:
        self.case = SE.enc_case(trace.setup, trace.steps, light=light)
        self.steps = [(lab, resp, None) for lab, resp, _ in trace.steps]

    def labels(self):
        return [s[0] for s in self.steps]


class CaseEval:
    """Evaluation of a batch of traces by Coq (chk_trace), started in a
    background thread so that the next batch can run on the server meanwhile;
    `finish` (main thread) books the result into ctx exactly like
    ctx.run_cases and reports disagreements."""

    def __init__(self, ctx, name: str, traces: list[Trace], *, shard: int = 10, jobs: int = 12,
                 light: bool = False) -> None:
        import threading
        from . import coqrun
        self.ctx = ctx
        self.name = name
        self.traces = traces
        self.cases = [t.case if isinstance(t, Packed) else SE.enc_case(t.setup, t.steps, light=light)
                      for t in traces]
        self.res = None
        self.exc = None

        def work():
            try:
                self.res = coqrun.run_cases(ctx.prop, name, SE.HEADER, 'trace_case', self.cases,
                                            'chk_trace', shard=shard, jobs=jobs)
            except BaseException as exc:   # reported in finish
                self.exc = exc
        self.thread = threading.Thread(target=work, daemon=True)
        if self.cases:
            self.thread.start()

    def finish(self) -> list[int]:
        from . import coqrun
        ctx = self.ctx
        if not self.cases:
            return []
        self.thread.join()
        if self.exc is not None:
            ctx.broken.append(f'correspondence {self.name}: evaluation crashed: {self.exc!r}')
            return []
        res = self.res
        ctx.traces_validated += res['n'] - len(res['bad'])
        entry = {'name': self.name, 'cases': res['n'], 'disagreements': len(res['bad']),
                 'wall_s': res['wall_s']}
        ctx.corr.append(entry)
        if res['errors']:
            entry['errors'] = res['errors'][:3]
            ctx.broken.append(f'correspondence {self.name}: case file did not evaluate: '
                              + res['errors'][0][-800:])
        bad = res['bad']
        for b in bad[:4]:
            t = self.traces[b]
            fb = coqrun.eval_term(ctx.prop, 'fb', SE.HEADER, f'first_bad {self.cases[b]}')
            import re
            m = re.search(r'Some (\d+)', fb)
            detail = {'labels': labels_repr(t.labels())[:3000]}
            if m:
                k = int(m.group(1))
                dg = coqrun.eval_term(ctx.prop, 'dg', SE.HEADER, f'diag {self.cases[b]} {k}%nat')
                mo = coqrun.eval_term(ctx.prop, 'mo', SE.HEADER, f'model_out {self.cases[b]} {k}%nat')
                detail.update({'first_bad_step': k, 'label': repr(t.steps[k][0]),
                               'impl_responses': repr(t.steps[k][1]),
                               'which (label_ok, responses, selections, mailboxes, beliefs)': dg[-70:],
                               'model': ' '.join(mo.split())[:1500]})
            ctx.disagreement(self.name, detail)
        return bad


def evaluate_cases(ctx, name: str, traces: list[Trace], *, shard: int = 10) -> list[int]:
    return CaseEval(ctx, name, traces, shard=shard).finish()


def run_sync(coro):
    return run_loop(coro, timeout=300.0)
