"""C08 (and C11's maildir namespace model): the tie between
pymap/backend/maildir/layout.py and the Gallina model by translation.

* `regenerate(ctx)` rewrites coq/theories/Namespace/LayoutGen.v from the
  layout.py of the repo under check (harness/translate_layout.py, fail closed)
  *before* the proofs are built; Namespace/LayoutGenProofs.v then has to
  re-prove that the generated definitions equal the hand model.
* `sec_layout_gen(ctx)` runs the real functions (_valid_part, _split, _join,
  _get_subdir, _get_parts, _get_path, get_path of both layouts) and the CPython
  primitives the translation is written in (str.split, str.join, `in`,
  len(os.fsencode(..))) on generated / swept inputs and lets Coq recompute
  them with the *generated* definitions (Namespace/LayoutGenCheck.v).  It
  validates the translator and Namespace/PyStr.v, independently of the hand
  model.  Disagreeing names are first given to the confinement monitor.
"""
from __future__ import annotations

import contextlib
import itertools
import os
import posixpath
import sys

from . import coqterm as T

HEADER = ('From PV Require Import Base.Prelude Namespace.PyStr Namespace.Glob Namespace.NsBase '
          'Namespace.ListTree Namespace.NsModel Namespace.MdModel Namespace.Paths '
          'Namespace.LayoutGen Namespace.LayoutSpec Namespace.LayoutGenCheck.\n')

ROOT = '/r/u1'
RESERVED = ['new', 'cur', 'tmp', 'maildirfolder', 'dovecot-uidlist', 'dovecot-uidlist.lock',
            'dovecot-keywords', 'dovecot.sieve', 'subscriptions', 'subscriptions.lock']
# code points around every constant of the guard and of the UTF-8 length
EDGE_CP = [0, 1, 9, 10, 13, 0x1e, 0x1f, 0x20, 0x21, 0x2d, 0x2e, 0x2f, 0x30, 0x7e, 0x7f, 0x80, 0x81,
           0x7ff, 0x800, 0xd7ff, 0xd800, 0xd801, 0xdbff, 0xdc00, 0xdc7f, 0xdc80, 0xdc81, 0xdcfe,
           0xdcff, 0xdd00, 0xdffe, 0xdfff, 0xe000, 0xfffd, 0xffff, 0x10000, 0x10ffff]


def regenerate(ctx, repo: str) -> bool:
    from . import coqrun
    from .translate_layout_fx import regenerate as regen
    ok, msg = regen(repo, coqrun.COQ)
    ctx.extra['layout_translator'] = msg
    if not ok:
        ctx.broken.append(msg)
    return ok


@contextlib.contextmanager
def exclusive(repo: str):
    """Namespace/LayoutGen.v is one shared file: runs of ./check C08 against
    different trees (seed sweeps use scratch worktrees, several at a time) are
    serialised for their whole duration, and a run against a scratch tree puts
    the file generated from /repo back when it is done."""
    import fcntl
    from . import coqrun
    from .translate_layout_fx import regenerate as regen
    os.makedirs(coqrun.WORK, exist_ok=True)
    with open(os.path.join(coqrun.WORK, 'layoutgen.lock'), 'w') as lock:
        fcntl.flock(lock, fcntl.LOCK_EX)
        try:
            yield
        finally:
            if os.path.realpath(repo) != '/repo' and os.path.isdir('/repo/pymap'):
                regen('/repo', coqrun.COQ)


def s_(x: str) -> str:
    return T.codepoints(x)


def sl_(xs) -> str:
    xs = list(xs)
    return '(@nil pystr)' if not xs else '[' + '; '.join(s_(x) for x in xs) + ']'


def fs_is_utf8() -> bool:
    return sys.getfilesystemencoding().lower().replace('-', '') == 'utf8' \
        and sys.getfilesystemencodeerrors() == 'surrogateescape'


def gen_part(rng) -> str:
    r = rng.random()
    if r < 0.25:
        return rng.choice(['', '.', '..', 'a', 'b', 'ab', 'a.b', '.a', 'a.', '...', ' ', 'INBOX',
                           'inbox', 'é', '日本', '\U0001f600', 'a\x00', '\x7f', 'a\x1fb', 'a b',
                           '\ud800', 'x\udc80', '\udcff', 'a'])
    if r < 0.40:
        w = rng.choice(RESERVED)
        return rng.choice([w, w + 'x', w[:-1], w.upper(), ' ' + w, w + '.', w + '.lock', '.' + w])
    if r < 0.55:
        return ''.join(chr(rng.choice(EDGE_CP)) for _ in range(rng.randint(1, 3)))
    return ''.join(rng.choice('abcxyz0-_ .&é') for _ in range(rng.randint(1, 6)))


def gen_long_names(rng, n: int):
    """names whose UTF-8 length is around the 250-byte guard, with 1/2/3/4-byte
    characters and several parts"""
    out = []
    alphabet = ['a', 'é', '日', '\U0001f600', '\udc80']
    for target in (248, 249, 250, 251, 252):
        for ch in alphabet:
            w = len(os.fsencode(ch))
            k, rem = divmod(target, w)
            out.append(ch * k + 'b' * rem)
    for _ in range(n):
        target = rng.choice((247, 249, 250, 251, 253, 260, 300))
        s, size = [], 0
        while size < target:
            ch = rng.choice(alphabet + ['/', 'b', 'c'])
            w = len(os.fsencode(ch))
            if size + w > target:
                ch, w = 'b', 1
            s.append(ch)
            size += w
        out.append(''.join(s))
    return out


def probe(ctx, lay: str, name: str) -> None:
    """the confinement monitor on one name: the failing-input search for a
    disagreement of the layout_gen family"""
    from pymap.backend.maildir.layout import DefaultLayout, FilesystemLayout
    from mailbox import Maildir
    cls = DefaultLayout if lay == 'LPlus' else FilesystemLayout
    try:
        got = cls(ROOT, Maildir).get_path(name, '/')
    except Exception:
        return
    if name != 'INBOX' and not posixpath.normpath(got).startswith(ROOT + '/'):
        ctx.failure('confined', f'layout {lay} maps the name {name!r} to {got!r}',
                    {'name': name, 'layout': lay}, {'kind': 'get_path_escape', 'layout': lay})


def sec_layout_gen(ctx, jobs) -> None:
    from pymap.backend.maildir.layout import DefaultLayout, FilesystemLayout
    from pymap.backend.maildir.mailbox import MailboxSet
    from pymap.exceptions import NotSupportedError
    from mailbox import Maildir
    rng = ctx.rng
    utf8 = fs_is_utf8()
    ctx.extra['fsencode'] = {'encoding': sys.getfilesystemencoding(),
                             'errors': sys.getfilesystemencodeerrors(), 'modelled': utf8}
    lays = ((DefaultLayout, 'LPlus'), (FilesystemLayout, 'LFs'))
    cases: list[str] = []
    keep: list[tuple] = []

    def add(term: str, *what) -> None:
        cases.append(term)
        keep.append(what)

    def res(f, enc):
        try:
            return f'(PRet {enc(f())})'
        except NotSupportedError:
            return 'PNotSupported'
        except UnicodeEncodeError:
            return 'PUnicodeError'

    # --- the delimiter constant
    add(f'(GDelim {s_(MailboxSet.delimiter.fget(None))})', 'delimiter')

    # --- _valid_part: every edge code point alone and at each position of "ab"; all strings over
    #     a small alphabet; reserved names and near-misses; random parts
    parts = set()
    for cp in EDGE_CP:
        c = chr(cp)
        parts.update([c, c + 'ab', 'a' + c + 'b', 'ab' + c])
    for cp in range(0, 0x30):
        parts.update([chr(cp), 'x' + chr(cp)])
    for k in range(0, 4):
        for t in itertools.product('a./', repeat=k):
            parts.add(''.join(t))
    for w in RESERVED:
        parts.update([w, w + 'x', w[:-1], w[1:], w.upper(), w + '.', '.' + w, w + '/'])
    for _ in range(ctx.scale(600, 2500)):
        parts.add(gen_part(rng))
    for part in sorted(parts):
        for cls, lay in lays:
            add(f'(GValid {lay} {s_(part)} {T.boolean(cls._valid_part(part))})', 'valid', lay, part)
        ctx.count(('gen_valid', part))

    # --- _split / get_path / _join: names made of such parts, the {a . / &} sweep, long names
    names = set()
    plist = sorted(parts)
    for _ in range(ctx.scale(500, 4000)):
        k = rng.choice((1, 1, 2, 2, 3, 4))
        names.add('/'.join(rng.choice(plist) if rng.random() < 0.5 else gen_part(rng)
                           for _ in range(k)))
    for k in range(0, ctx.scale(5, 6)):
        for t in itertools.product('a./&', repeat=k):
            names.add(''.join(t))
    names.update(['INBOX', 'inbox', 'INBOX/', '/INBOX', 'INBOX/a', 'Inbox'])
    long_names = gen_long_names(rng, ctx.scale(40, 200)) if utf8 else []
    delims = ['/', '/', '/', '.', '//', 'ab', 'a', '\ud800' if utf8 else '.']
    for name in sorted(names) + long_names:
        for cls, lay in lays:
            obj = cls(ROOT, Maildir)
            for d in (['/'] if rng.random() < 0.8 else ['/', rng.choice(delims)]):
                add(f'(GSplit {lay} {s_(name)} {s_(d)} {res(lambda: cls._split(name, d), sl_)})',
                    'split', lay, name, d)
                add(f'(GGetPath {lay} {s_(ROOT)} {s_(name)} {s_(d)} '
                    f'{res(lambda: obj.get_path(name, d), s_)})', 'get_path', lay, name, d)
        ctx.count(('gen_split', name), nontrivial=len(name) > 0)

    # --- _join, _get_subdir, _get_parts, _get_path on part lists (also invalid ones: the
    #     functions are total)
    for _ in range(ctx.scale(250, 2000)):
        ps = [rng.choice(plist) if rng.random() < 0.3 else gen_part(rng)
              for _ in range(rng.choice((0, 1, 1, 2, 2, 3, 4)))]
        d = rng.choice(delims[:-1])
        root = rng.choice([ROOT, ROOT + '/', '/', '', 'rel', '/r//u1'])
        for cls, lay in lays:
            add(f'(GJoin {lay} {sl_(ps)} {s_(d)} {s_(cls._join(ps, d))})', 'join', lay, ps, d)
            add(f'(GPartsPath {lay} {s_(root)} {sl_(ps)} {s_(cls(root, Maildir)._get_path(ps))})',
                'parts_path', lay, root, ps)
        sub = DefaultLayout._get_subdir(ps)
        add(f'(GSubdir {sl_(ps)} {s_(sub)})', 'subdir', ps)
        add(f'(GParts {s_(sub)} {sl_(DefaultLayout._get_parts(sub))})', 'parts', sub)
        raw = ''.join(rng.choice('.ab/') for _ in range(rng.randint(0, 6)))
        add(f'(GParts {s_(raw)} {sl_(DefaultLayout._get_parts(raw))})', 'parts', raw)
        ctx.count(('gen_paths', tuple(ps), d, root))

    # --- the vocabulary against CPython: split / join / in / len(os.fsencode)
    for k in range(0, ctx.scale(5, 7)):
        for t in itertools.product('ab/', repeat=k):
            s = ''.join(t)
            for d in ('/', 'ab', '//', 'a', 'aa', 'aba'):
                add(f'(GPySplit {s_(d)} {s_(s)} {sl_(s.split(d))})', 'py_split', d, s)
                add(f'(GPyIn {s_(d)} {s_(s)} {T.boolean(d in s)})', 'py_in', d, s)
            add(f'(GPyIn {s_("")} {s_(s)} {T.boolean("" in s)})', 'py_in', '', s)
        ctx.count(('gen_py', k))
    for _ in range(ctx.scale(300, 1500)):
        ps = [gen_part(rng) for _ in range(rng.randint(0, 4))]
        d = rng.choice(delims)
        add(f'(GPyJoin {s_(d)} {sl_(ps)} {s_(d.join(ps))})', 'py_join', d, ps)
        s = d.join(ps)
        if utf8:
            try:
                n = T.option(T.N(len(os.fsencode(s))))
            except UnicodeEncodeError:
                n = 'None'
            add(f'(GFsLen {s_(s)} {n})', 'fs_len', s)
    if utf8:
        for cp in EDGE_CP:
            s = 'a' + chr(cp)
            try:
                n = T.option(T.N(len(os.fsencode(s))))
            except UnicodeEncodeError:
                n = 'None'
            add(f'(GFsLen {s_(s)} {n})', 'fs_len', s)

    def on_bad(i: int) -> None:
        what = keep[i]
        if what[0] in ('valid', 'split', 'get_path'):
            probe(ctx, what[1], what[2])          # failing-input search first
        ctx.disagreement('layout_gen', {'case': repr(what)})

    jobs.add('layout_gen', HEADER, 'gcase', cases, 'chk_gen', on_bad, shard=2500)
