"""Deterministic scheduler for *real threads* over the real
pymap.concurrent._ThreadingReadWriteLock (C20, threading twin).

The object under test is created by pymap (`ReadWriteLock.for_threading()`);
in the harness process its two `threading.Lock` attributes are replaced by
`ILock` wrappers (around the very lock objects pymap created) and its class by
a dynamic subclass whose `_counter` is a property, so that every
`acquire()`, `release()`, read of `_counter` and write of `_counter` performed
by a worker thread is a *scheduling point*: the thread announces what it is
about to do and waits; the scheduler (the harness thread) lets exactly one
thread perform exactly one such operation and waits until that thread has
announced its next one (or has ended).  An `acquire()` of a locked lock is
"blocked": the scheduler never releases such a thread, so real blocking never
happens and every schedule is reproducible.  No pymap code is copied.

Thread program, per section (kind, raises):
    point('idle')
    async with lock.read_lock() | lock.write_lock():     # driven by coro.send(None):
        point('body')                                    # the threading variant never suspends
        if raises: raise Boom
and a final point('idle').  A Boom ends the thread with status 'failed' (after
the exit path of the with-statement ran); any other exception (RuntimeError:
release unlocked lock) gives status 'error:<type>'.
"""
from __future__ import annotations

import threading


class Boom(Exception):
    pass


class _Abort(BaseException):
    pass


class _PoolThread:
    """a persistent worker thread (starting a thread per simulated thread and
    run costs milliseconds); runs one job at a time"""

    def __init__(self) -> None:
        self.job = None
        self.wake = threading.Lock()
        self.wake.acquire()
        self.idle = threading.Lock()      # locked while a job runs
        self.thread = threading.Thread(target=self._loop, daemon=True)
        self.thread.start()

    def _loop(self) -> None:
        while True:
            self.wake.acquire()
            job, self.job = self.job, None
            try:
                job()
            finally:
                self.idle.release()

    def submit(self, job) -> None:
        self.idle.acquire()
        self.job = job
        self.wake.release()

    def wait(self, timeout: float) -> bool:
        if self.idle.acquire(timeout=timeout):
            self.idle.release()
            return True
        return False


_POOL: list[_PoolThread] = []


class ILock:
    """instrumented threading.Lock (wraps the real one)"""

    def __init__(self, real, name: str, run: 'ThrRun') -> None:
        self._real = real
        self._name = name
        self._run = run
        # a lock object without .locked() is not a threading.Lock (an RLock, say): its state is
        # then tracked here, and - an owner-based lock lets its owner in again - an acquire by
        # the thread that holds it is *not* blocked, so that the exploration walks into what the
        # real object allows (seeded change C20-8: write mutex made reentrant)
        self._tracked = not hasattr(real, 'locked')
        self._owner = None
        self._depth = 0

    def acquire(self, blocking: bool = True, timeout: float = -1) -> bool:
        self._run.point(('acq', self._name))
        ok = self._real.acquire(False)
        if not ok:      # can not happen: the scheduler only lets an unblocked acquire run
            raise AssertionError('scheduler let a blocked acquire run')
        self._owner = getattr(self._run.local, 'i', None)
        self._depth += 1
        return True

    def release(self) -> None:
        self._run.point(('rel', self._name))
        self._real.release()
        self._depth = max(0, self._depth - 1)
        if not self._depth:
            self._owner = None

    def locked(self) -> bool:
        return self._depth > 0 if self._tracked else self._real.locked()

    def blocked_for(self, i: int) -> bool:
        if self._tracked:
            return self._depth > 0 and self._owner != i
        return self._real.locked()

    __enter__ = acquire

    def __exit__(self, *exc) -> None:
        self.release()


_OP_CODE = {('idle',): 0, ('acq', 'rl'): 1, ('acq', 'wl'): 2, ('rd',): 3, ('rel', 'rl'): 4,
            ('rel', 'wl'): 5, ('body', 'R'): 6, ('body', 'W'): 7}


class ThrRun:
    """progs: one list per thread of (kind 'R'|'W', raises)."""

    TIMEOUT = 20.0

    def __init__(self, progs) -> None:
        from pymap.concurrent import ReadWriteLock
        self.progs = progs
        n = len(progs)
        lock = ReadWriteLock.for_threading()
        self.lock = lock
        run = self
        self.rl = ILock(lock._read_lock, 'rl', self)
        self.wl = ILock(lock._write_lock, 'wl', self)
        lock._read_lock = self.rl
        lock._write_lock = self.wl
        assert '_counter' in lock.__dict__

        def get_counter(obj):
            run.point(('rd',))
            return obj.__dict__['_counter']

        def set_counter(obj, v):
            run.point(('wr', v))
            obj.__dict__['_counter'] = v

        lock.__class__ = type('Instrumented' + type(lock).__name__, (type(lock),),
                              {'_counter': property(get_counter, set_counter)})
        self.local = threading.local()
        self.pending: list = [None] * n
        self.status = ['live'] * n
        self.sec = [0] * n          # index of the current section
        self.pos = [0] * n          # scheduling points passed in the current section
        self.wrs = [0] * n          # counter writes in the current section
        # binary hand-over locks (raw locks: a Semaphore costs milliseconds per hand-over)
        self.go = [threading.Lock() for _ in range(n)]
        for g in self.go:
            g.acquire()
        self.back = threading.Lock()
        self.back.acquire()
        self.abort = False
        self.steps: list[dict] = []
        self.threads = []
        for i in range(n):
            th = _POOL.pop() if _POOL else _PoolThread()
            self.threads.append(th)
            th.submit(lambda i=i: self._worker(i))
            if not self.back.acquire(timeout=self.TIMEOUT):
                raise RuntimeError('thread did not reach its first scheduling point')

    # ------------------------------------------------------------ worker side
    def point(self, op) -> None:
        i = getattr(self.local, 'i', None)
        if i is None:          # not a worker thread (the harness looking at the object)
            return
        if self.abort:
            raise _Abort()
        self.pending[i] = op
        if op == ('idle',):
            self.pos[i] = 0
            self.wrs[i] = 0
        else:
            self.pos[i] += 1
        self.back.release()
        self.go[i].acquire()
        if self.abort:
            raise _Abort()
        if op[0] == 'wr':
            self.wrs[i] += 1

    async def _prog(self, i: int) -> None:
        lock = self.lock
        for k, (kind, raises) in enumerate(self.progs[i]):
            self.sec[i] = k
            self.point(('idle',))
            try:
                async with (lock.read_lock() if kind == 'R' else lock.write_lock()):
                    self.point(('body', kind))
                    if raises:
                        raise Boom()
            except Boom:
                self.status[i] = 'failed'
                return
        self.sec[i] = len(self.progs[i])
        self.point(('idle',))
        self.status[i] = 'done'

    def _worker(self, i: int) -> None:
        self.local.i = i
        try:
            coro = self._prog(i)
            try:
                coro.send(None)
            except StopIteration:
                pass
            else:
                self.status[i] = 'error:suspended'
                coro.close()
        except _Abort:
            self.status[i] = 'aborted'
        except BaseException as exc:     # noqa: BLE001 - RuntimeError of release() etc.
            self.status[i] = f'error:{type(exc).__name__}'
        finally:
            self.local.i = None
            self.pending[i] = ('end',)
            if not self.abort:
                self.back.release()

    # --------------------------------------------------------- scheduler side
    def counter(self):
        return self.lock.__dict__['_counter']

    def blocked(self, i: int) -> bool:
        op = self.pending[i]
        return op[0] == 'acq' and (self.rl if op[1] == 'rl' else self.wl).blocked_for(i)

    def enabled(self) -> list[int]:
        return [i for i in range(len(self.progs))
                if self.pending[i] != ('end',) and not self.blocked(i)]

    def codes(self) -> list[int]:
        res = []
        for i, op in enumerate(self.pending):
            if op == ('end',):
                res.append({'done': 8, 'failed': 9}.get(self.status[i], 99))
            elif op[0] == 'wr':
                v = op[1]
                res.append(11 + v if isinstance(v, int) and -1 <= v < 4000 else 98)
            else:
                res.append(_OP_CODE[op])
        return res

    def view(self) -> dict:
        return {'counter': self.counter(), 'rl': self.rl.locked(), 'wl': self.wl.locked(),
                'codes': self.codes(), 'enabled': self.enabled(), 'status': self.status[:],
                'pending': [tuple(p) for p in self.pending],
                'counted': [i for i in range(len(self.progs))
                            if self.pending[i] != ('end',) and self.wrs[i] == 1]}

    def key(self):
        return (self.counter(), self.rl.locked(), self.wl.locked(),
                tuple((self.sec[i], self.pos[i], self.pending[i], self.status[i])
                      for i in range(len(self.progs))))

    def step(self, i: int, record: bool = True):
        """let thread i perform its pending operation (a stutter if blocked/ended)"""
        if self.pending[i] != ('end',) and not self.blocked(i):
            self.go[i].release()
            if not self.back.acquire(timeout=self.TIMEOUT):
                raise RuntimeError(f'thread {i} did not reach a scheduling point')
        if not record:
            return None
        rec = {'t': i, 'view': self.view()}
        self.steps.append(rec)
        return rec

    def close(self) -> None:
        self.abort = True
        for g in self.go:
            if g.locked():
                g.release()
        for th in self.threads:
            if th.wait(self.TIMEOUT):
                _POOL.append(th)
        self.threads = []


# ------------------------------------------------------------------ monitors
def thr_monitor(view: dict, terminal: bool):
    """property oracles on one state of the real object.  Returns
    (clause, kind, text) or None."""
    pend = view['pending']
    ws = [i for i, p in enumerate(pend) if p == ('body', 'W')]
    rs = [i for i, p in enumerate(pend) if p == ('body', 'R')]
    if len(ws) > 1:
        return ('thr_exclusion', 'two_writers', f'two writers inside their critical sections: {ws}')
    if ws and rs:
        return ('thr_exclusion', 'writer_reader', f'writer {ws} overlaps reader(s) {rs}')
    errs = [(i, s) for i, s in enumerate(view['status']) if s.startswith('error')]
    if errs:
        return ('thr_no_runtime_error', 'exception',
                f'an exception other than the body\'s escaped from the lock code: {errs}')
    if view['counter'] != len(view['counted']):
        return ('thr_counter', 'counter',
                f'_counter = {view["counter"]} but the readers between their increment and '
                f'their decrement are {view["counted"]}')
    if terminal:
        live = [i for i, p in enumerate(pend) if p != ('end',)]
        if live:
            return ('thr_no_deadlock', 'deadlock',
                    f'every unfinished thread is blocked: {[(i, pend[i]) for i in live]}')
        if view['counter'] != 0 or view['rl'] or view['wl']:
            return ('thr_released', 'leftover',
                    f'all threads ended but the lock is not free: counter {view["counter"]}, '
                    f'read mutex locked {view["rl"]}, write mutex locked {view["wl"]}')
    return None


# --------------------------------------------------------------- exploration
def explore(progs, max_transitions: int = 60000):
    """All schedules of the configuration, depth first, pruned at states seen
    before.  Every transition out of every reachable state is executed exactly
    once.  Returns (root_view, tree, states, n_transitions, failures) with
    tree[prefix] = [(t, view_after)] and failures = [(prefix, view, monitor result)]."""
    import sys
    old_interval = sys.getswitchinterval()
    sys.setswitchinterval(1e-5)      # hand-overs between the scheduler and a worker are the cost
    try:
        return _explore(progs, max_transitions)
    finally:
        sys.setswitchinterval(old_interval)


def _explore(progs, max_transitions: int):
    r = ThrRun(progs)
    root = r.view()
    visited = {r.key()}
    failures = []
    bad = thr_monitor(root, not root['enabled'])
    if bad:
        failures.append(((), root, bad))
    work = [((), t) for t in reversed(root['enabled'])]
    r.close()
    tree: dict[tuple, list] = {}
    n_trans = 0
    while work and n_trans < max_transitions:
        prefix, t = work.pop()
        r = ThrRun(progs)
        try:
            for u in prefix:
                r.step(u, record=False)
            while True:
                rec = r.step(t)
                n_trans += 1
                view = rec['view']
                tree.setdefault(prefix, []).append((t, view))
                prefix = prefix + (t,)
                k = r.key()
                if k in visited:
                    break
                visited.add(k)
                en = view['enabled']
                bad = thr_monitor(view, not en)
                if bad:
                    failures.append((prefix, view, bad))
                if not en or bad:
                    break
                for u in reversed(en[1:]):
                    work.append((prefix, u))
                t = en[0]
        finally:
            r.close()
    return root, tree, len(visited), n_trans, failures
