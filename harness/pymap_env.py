"""In-process factory for the real icgood/pymap server, imported from /repo.

A `Conn` is a fake StreamReader/StreamWriter pair.  The harness, not the OS,
decides when bytes arrive: `await conn.send(data)` feeds `data` and returns the
bytes the server wrote until it next blocks on client input with an empty
buffer (or closes).  Optional `drain_gate` lets a test pause the server inside
`writer.drain()` (used by C14/C16).
"""
from __future__ import annotations

import asyncio
import os
import shutil
import socket
import sys
import tempfile
from argparse import Namespace

REPO = os.environ.get('VERIF_REPO', '/repo')


def assert_repo_import() -> None:
    import pymap
    path = os.path.realpath(os.path.dirname(pymap.__file__))
    want = os.path.realpath(os.path.join(REPO, 'pymap'))
    if path != want:
        print(f'HARNESS-ERROR: pymap imported from {path}, expected {want}')
        sys.exit(2)


class FakeArgs(Namespace):
    debug = False
    demo_data = 'pymap.backend.dict'
    demo_user = 'testuser'
    demo_password = 'testpass'

    def __init__(self, **kwargs) -> None:
        super().__init__()
        self.__dict__.update(kwargs)

    def __getattr__(self, key: str):
        return None


class _Socket:
    def __init__(self, fd: int) -> None:
        self.fd = fd
        self.family = socket.AF_INET

    def fileno(self) -> int:
        return self.fd


class Conn:
    """One client connection to an in-process server."""

    _next_fd = 100

    def __init__(self, server, *, local: bool = True) -> None:
        self.server = server
        self.buf = bytearray()
        self.eof = False
        self.out = bytearray()
        self.all_out = bytearray()
        self.closed = False
        self._starved = asyncio.Event()
        self._data = asyncio.Event()
        self.drain_gate: asyncio.Event | None = None
        self.in_drain = asyncio.Event()
        self.drain_count = 0
        self.task: asyncio.Task | None = None
        self.exc: BaseException | None = None
        self.tls_started = False
        Conn._next_fd += 1
        self.socket = _Socket(Conn._next_fd)
        self.local = local

    # ---- StreamReader side
    async def _need(self) -> None:
        if self.eof:
            return
        self._data.clear()
        self._starved.set()
        await self._data.wait()

    async def readline(self) -> bytes:
        while True:
            i = self.buf.find(b'\n')
            if i >= 0:
                ret = bytes(self.buf[:i + 1])
                del self.buf[:i + 1]
                return ret
            if self.eof:
                ret = bytes(self.buf)
                self.buf.clear()
                return ret
            await self._need()

    async def readexactly(self, n: int) -> bytes:
        while len(self.buf) < n:
            if self.eof:
                partial = bytes(self.buf)
                self.buf.clear()
                raise asyncio.IncompleteReadError(partial, n)
            await self._need()
        ret = bytes(self.buf[:n])
        del self.buf[:n]
        return ret

    def at_eof(self) -> bool:
        return self.eof and not self.buf

    # ---- StreamWriter side
    def write(self, data) -> None:
        self.out += bytes(data)
        self.all_out += bytes(data)

    def writelines(self, datas) -> None:
        for d in datas:
            self.write(d)

    async def drain(self) -> None:
        self.drain_count += 1
        if self.drain_gate is not None:
            self.in_drain.set()
            await self.drain_gate.wait()
            self.in_drain.clear()

    def close(self) -> None:
        self.closed = True
        self._starved.set()

    def is_closing(self) -> bool:
        return self.closed

    async def wait_closed(self) -> None:
        return None

    async def start_tls(self, ssl_context) -> None:
        self.tls_started = True

    def get_extra_info(self, name: str, default=None):
        if name == 'socket':
            return self.socket
        if name == 'peername':
            return ('127.0.0.1', 1234) if self.local else ('1.2.3.4', 1234)
        if name == 'sockname':
            return ('127.0.0.1', 143) if self.local else ('5.6.7.8', 143)
        return default

    # ---- driver side
    async def _serve(self) -> None:
        from proxyprotocol.sock import SocketInfoLocal
        try:
            await self.server(self, self, SocketInfoLocal(self))
        except BaseException as exc:  # recorded, reported by monitors
            self.exc = exc
        finally:
            self.closed = True
            self._starved.set()

    async def start(self) -> bytes:
        self.task = asyncio.get_running_loop().create_task(self._serve())
        return await self._until_starved()

    async def _until_starved(self) -> bytes:
        last = None
        while True:
            await self._starved.wait()
            if self.closed or not self.buf or self.eof:
                break
            if last == len(self.buf):
                # the server asked for more than is buffered (e.g. a literal
                # longer than what was fed) and made no progress: it is
                # blocked on client input, hand control back to the driver
                break
            last = len(self.buf)
            # server consumed only part of the buffer and asked for more
            # although data remain: loop again (it will find them).
            self._starved.clear()
            self._data.set()
        self._starved.clear()
        ret = bytes(self.out)
        self.out.clear()
        return ret

    async def send(self, data: bytes) -> bytes:
        """Feed bytes; return what the server wrote until it blocks again."""
        if self.closed:
            return b''
        self.buf += data
        self._starved.clear()
        self._data.set()
        return await self._until_starved()

    def feed_nowait(self, data: bytes) -> None:
        self.buf += data
        self._starved.clear()
        self._data.set()

    def take(self) -> bytes:
        ret = bytes(self.out)
        self.out.clear()
        return ret

    async def send_eof(self) -> bytes:
        if self.closed:
            return b''
        self.eof = True
        self._starved.clear()
        self._data.set()
        if self.task is not None:
            try:
                await asyncio.wait_for(asyncio.shield(self.task), 5)
            except Exception:
                pass
        ret = bytes(self.out)
        self.out.clear()
        return ret

    async def cmd(self, line: bytes) -> bytes:
        """Send one command given as a full byte string that may contain
        synchronizing literals; continuation requests are honoured: after
        each `{n}\\r\\n` the rest is only sent if the server answered `+`."""
        import re
        out = b''
        pos = 0
        for m in re.finditer(rb'\{(\d+)\}\r\n', line):
            chunk = line[pos:m.end()]
            pos = m.end()
            got = await self.send(chunk)
            out += got
            if not got.startswith(b'+') and b'\r\n+' not in got:
                return out
        out += await self.send(line[pos:])
        return out


class DictEnv:
    """The dict backend with demo data, as in test/server/base.py."""

    def __init__(self, **arg_overrides) -> None:
        self.arg_overrides = arg_overrides
        self.backend = None
        self.config = None

    async def start(self, **overrides) -> 'DictEnv':
        from pysasl.hashing import BuiltinHash
        from pymap.backend.dict import DictBackend
        from pymap.concurrent import Subsystem
        args = FakeArgs(**self.arg_overrides)
        self.backend, self.config = await DictBackend.init(
            args,
            hash_context=BuiltinHash(hash_name='sha1', salt_len=0, rounds=1),
            invalid_user_sleep=0.0,
            cpu_subsystem=Subsystem.for_asyncio(),
            **overrides)
        return self

    def imap(self):
        from pymap.imap import IMAPServer
        return IMAPServer(self.backend.login, self.backend.config)

    def sieve(self):
        from pymap.sieve.manage import ManageSieveServer
        return ManageSieveServer(self.backend.login, self.backend.config)

    async def connect(self, *, sieve: bool = False, local: bool = True) -> Conn:
        conn = Conn(self.sieve() if sieve else self.imap(), local=local)
        conn.greeting = await conn.start()
        return conn

    async def login(self, user=b'testuser', password=b'testpass') -> Conn:
        conn = await self.connect()
        r = await conn.send(b'l0 LOGIN ' + user + b' ' + password + b'\r\n')
        assert b'l0 OK' in r, r
        return conn

    async def add_user(self, name: str, password: str,
                       roles=frozenset()) -> None:
        """Add a user (roles are a frozenset on the UserMetadata kept in
        Login.users_dict)."""
        from pymap.user import Passwords, UserMetadata
        hashed = await Passwords(self.config).hash_password(password)
        self.backend.login.users_dict[name] = UserMetadata(
            self.config, name, password=hashed, roles=frozenset(roles))

    def close(self) -> None:
        pass


class MaildirEnv:
    """The maildir backend on a temporary directory (outside /repo, /verif)."""

    def __init__(self, layout: str = '++', users=(('u1', 'pass'),),
                 base_dir: str | None = None) -> None:
        self.layout = layout
        self.users = list(users)
        self.base = base_dir or tempfile.mkdtemp(prefix='pymapverif-')
        self.own = base_dir is None
        self.config = None
        self.login_obj = None

    async def start(self) -> 'MaildirEnv':
        from pysasl.hashing import BuiltinHash
        from pymap.backend.maildir import Config, Login, Identity
        from pymap.concurrent import Subsystem
        from pymap.user import Passwords, UserMetadata
        args = FakeArgs(base_dir=self.base, layout=self.layout,
                        concurrency=None, colon=None,
                        users_file=None, passwords_file=None)
        sub = Subsystem.for_asyncio()
        parsed = dict(Config.parse_args(args))
        parsed['subsystem'] = sub
        self.config = Config(
            args, host=None, port=0, debug=False, tls_enabled=False,
            **parsed, cpu_subsystem=sub,
            hash_context=BuiltinHash(hash_name='sha1', salt_len=0, rounds=1),
            invalid_user_sleep=0.0)
        self.config.apply_context()
        self.login_obj = Login(self.config)
        for name, password in self.users:
            hashed = await Passwords(self.config).hash_password(password)
            ident = Identity(self.config, self.login_obj.tokens, name, None,
                             {'admin'})
            try:
                await ident.get()
            except Exception:
                await ident.set(UserMetadata(
                    self.config, name, password=hashed,
                    params={'mailbox_path': name}))
        return self

    def imap(self):
        from pymap.imap import IMAPServer
        return IMAPServer(self.login_obj, self.config)

    async def connect(self) -> Conn:
        conn = Conn(self.imap())
        conn.greeting = await conn.start()
        return conn

    async def login(self, user=b'u1', password=b'pass') -> Conn:
        conn = await self.connect()
        r = await conn.send(b'l0 LOGIN ' + user + b' ' + password + b'\r\n')
        assert b'l0 OK' in r, r
        return conn

    def close(self) -> None:
        if self.own:
            shutil.rmtree(self.base, ignore_errors=True)


def run(coro, timeout: float = 120.0):
    """Run a coroutine on a fresh loop with a watchdog."""
    async def _wrapped():
        return await asyncio.wait_for(coro, timeout)
    return asyncio.run(_wrapped())
