"""Failing filesystem operations on the maildir backend (C14, package B6).

One *target* = (layout, set-up history, command).  The worker runs the set-up
and the command once without a fault on a fresh directory (the operation list
of the command, the names the backend draws), and then once per fault
position k on another fresh directory with the k-th filesystem operation of
the command raising an OSError while the process keeps running: the exception
travels through pymap's `with`/`try` blocks, the client gets its answer, and
afterwards

  * the operations the command still performed (its clean-up) are recorded,
  * a fresh session of the same server dumps every mailbox (FileLock sleeps
    collapsed: a lock file left behind shows up as NO [TIMEOUT] at once),
  * the directory is mapped onto the model's filesystem,
  * a new backend object is started on the directory and dumps again.

Everything is wrapped inside the worker process (spawned, never the checking
process); nothing in pymap is changed.
"""
from __future__ import annotations

import builtins
import errno
import io
import json
import os
import shutil
import tempfile

from . import maildirfs as M
from . import maildir_model as MM
from . import coqterm as T

EXC = {
    'enospc': lambda: OSError(errno.ENOSPC, 'No space left on device [injected]'),
    'eio': lambda: OSError(errno.EIO, 'Input/output error [injected]'),
    'eacces': lambda: PermissionError(errno.EACCES, 'Permission denied [injected]'),
}


class _FailingFile:
    """Stands in for a file object whose data cannot be written."""

    def __init__(self, real, make_exc) -> None:
        object.__setattr__(self, '_real', real)
        object.__setattr__(self, '_make', make_exc)

    def write(self, *_a, **_k):
        raise self._make()

    def writelines(self, *_a, **_k):
        raise self._make()

    def __getattr__(self, name):
        return getattr(self._real, name)

    def __setattr__(self, name, value):
        setattr(self._real, name, value)

    def __enter__(self):
        return self

    def __exit__(self, *a):
        self._real.close()
        return False

    def __iter__(self):
        return iter(self._real)


class FaultTracer(M.Tracer):
    """Tracer whose `fail_at`-th mutation (counted like Tracer.count) raises
    instead of being executed.  A 'write' pseudo-operation fails by handing the
    caller a file object whose write() raises."""

    def __init__(self, root: str) -> None:
        super().__init__(root)
        self.fail_at: int | None = None
        self.make_exc = EXC['enospc']
        self.failed: tuple | None = None       # the event that was made to fail
        self.failed_index: int | None = None   # its index among the command's events
        self._poison = False

    def _before(self, ev: tuple) -> None:
        if self.enabled and self.fail_at is not None and self.failed is None \
                and self.count >= self.fail_at:
            self.failed = ev
            self.failed_index = len(self.events)
            if ev[0] == 'write':
                self._poison = True
                return
            raise self.make_exc()
        super()._before(ev)

    def install(self) -> None:
        if self.installed:
            return
        super().install()
        tr = self

        def rewrap(openf):
            def open2(file, mode='r', *a, **k):
                ret = openf(file, mode, *a, **k)
                if tr._poison:
                    tr._poison = False
                    return _FailingFile(ret, tr.make_exc)
                return ret
            return open2
        builtins.open = rewrap(builtins.open)
        io.open = rewrap(io.open)


def selection_after(history) -> tuple | None:
    sel = None
    for c in history:
        if c[0] in ('select', 'examine'):
            sel = (list(c[1]), c[0] == 'examine')
        elif c[0] == 'close':
            sel = None
    return sel


def _prune(d: dict, base: str, layout: str) -> dict:
    """A name whose EXAMINE is refused with a plain NO (not NO [TIMEOUT]) is
    either a superior name that is listed without being a mailbox (\\Noselect;
    a RENAME of a hierarchy that failed midway leaves such names): not a
    folder of the store, dropped from the dump; or a directory without
    cur/new/tmp (a CREATE that failed midway): a folder that cannot be opened,
    kept as broken."""
    ghosts = set()
    for e in d['errors']:
        if e['status'] == 'NO' and 'TIMEOUT' not in e['resp']:
            path = M.folder_dir(os.path.join(base, 'u1'), layout, MM.name_parts(e['folder']))
            if os.path.isdir(path):
                e['status'] = 'BROKEN'
            else:
                ghosts.add(e['folder'])
    d['ghosts'] = sorted(ghosts)
    d['list'] = [n for n in d['list'] if n not in ghosts]
    d['errors'] = [e for e in d['errors'] if e['folder'] not in ghosts]
    return d


def _one_run(layout: str, setup, cmd, k: int | None, kind: str) -> dict:
    """Fresh directory; set-up; the command with its k-th operation failing."""
    import random
    import pymap.concurrent as pc
    from .pymap_env import MaildirEnv, run
    base = tempfile.mkdtemp(prefix='pvfault-')
    M.determinize()
    tr = FaultTracer(base)
    tr.make_exc = EXC[kind]
    tr.install()
    pm = M.PathMap(os.path.join(base, 'u1'), layout)
    res: dict = {'k': k, 'kind': kind}

    async def go():
        env = await MaildirEnv(layout, base_dir=base).start()
        conn = await env.login()
        await conn.send(b'w0 STATUS INBOX (MESSAGES)\r\n')
        for i, c in enumerate(setup):
            tr.enabled = True
            r = await conn.send(M.command_bytes(b's%d' % i, c))
            tr.enabled = False
            tr.take()
            if M.status_of(b's%d' % i, r) != 'OK':
                res['setup_failed'] = [i, r.decode('latin-1')[:200]]
                return
        res['fs0'] = M.snapshot(pm)
        state = random.getstate()
        res['dump0'] = _prune(await M.dump_server(env), base, layout)
        random.setstate(state)
        if k is not None:
            tr.fail_at = tr.count + k
        tr.enabled = True
        resp = await conn.send(M.command_bytes(b't1', cmd))
        tr.enabled = False
        tr.fail_at = None
        evs = M.fill_writes(tr.take())
        res['events'] = [M._rel(base, e) for e in evs]
        res['failed'] = M._rel(base, tr.failed) if tr.failed else None
        res['failed_index'] = tr.failed_index
        res['status'] = M.status_of(b't1', resp)
        res['resp'] = resp.decode('latin-1')[-300:]
        res['serverbug'] = b'SERVERBUG' in resp
        res['exc'] = repr(conn.exc) if conn.exc else None
        res['closed'] = bool(conn.closed)
        res['locks'] = [p.replace(base, '/B') for p in M.find_locks(base)]
        res['fs1'] = M.snapshot(pm)
        # the same connection, when it is still there, must go on working
        if not conn.closed:
            r2 = await conn.send(b't2 NOOP\r\n')
            res['noop_after'] = M.status_of(b't2', r2)
        res['dump1'] = _prune(await M.dump_server(env), base, layout)  # fresh probe
        env2 = await MaildirEnv(layout, base_dir=base).start()   # restart
        res['dump2'] = _prune(await M.dump_server(env2), base, layout)
        res['locks_after'] = [p.replace(base, '/B') for p in M.find_locks(base)]

    saved = pc.asyncio
    pc.asyncio = M._FastSleep()
    try:
        run(go(), timeout=300)
    except BaseException as exc:          # reported by the parent
        res['error'] = repr(exc)
    finally:
        pc.asyncio = saved
        tr.enabled = False
        shutil.rmtree(base, ignore_errors=True)
    return res


def fault_experiment(args: dict) -> dict:
    """Worker entry (spawned process): one target, all requested positions.
    args: layout, setup, cmd, kinds {kind: 'all' | [k, ...]}."""
    layout, setup, cmd = args['layout'], args['setup'], args['cmd']
    M._warm_up()
    out: dict = {'layout': layout, 'setup': setup, 'cmd': cmd, 'runs': []}
    clean = _one_run(layout, setup, cmd, None, 'enospc')
    out['clean'] = clean
    if 'events' not in clean:
        return out
    n = len(clean['events'])
    # FileLock._unlock swallows an OSError of the lock file's own removal and
    # the command goes on with the lock left behind: not a fault that
    # propagates; those positions are skipped (counted)
    unlock = [k for k, e in enumerate(clean['events'])
              if e[0] == 'unlink' and e[1].endswith('.lock')]
    out['skipped_unlock'] = len(unlock)
    for kind, ks in args['kinds'].items():
        for k in (range(n) if ks == 'all' else ks):
            if k < n and k not in unlock:
                out['runs'].append(_one_run(layout, setup, cmd, k, kind))
    return out


def run_faults(jobs: list[dict], workers: int = 14) -> list[dict]:
    import multiprocessing as mp
    from concurrent.futures import ProcessPoolExecutor
    if not jobs:
        return []
    ctx = mp.get_context('spawn')
    with ProcessPoolExecutor(max_workers=min(workers, len(jobs)), mp_context=ctx) as ex:
        return list(ex.map(fault_experiment, jobs))


# ----------------------------------------------------------------- Coq terms
HEADER = ('From PV Require Import Base.Prelude MaildirFS.FS MaildirFS.UidList '
          'MaildirFS.Ops MaildirFS.Check Faults.MaildirFaults Faults.MaildirFaultsCheck.\n')

RESP = {'OK': 'FOk', 'NO': 'FNo', 'BAD': 'FBad', 'BYE': 'FBye', 'NONE': 'FNone'}


def sel_term(sel) -> str:
    if sel is None:
        return 'None'
    return f'(Some ({MM.fname(sel[0])}, {T.boolean(sel[1])}))'


def prefix_differs(job: dict, run_: dict) -> bool:
    """The operations before the fault are those of the fault-free run."""
    k = run_['failed_index']
    if k is None:
        return True
    a = [tuple(e)[:2] for e in run_['events'][:k]]
    b = [tuple(e)[:2] for e in job['clean']['events'][:k]]
    return a != b or k != run_['k']


def fault_obs(job: dict, run_: dict) -> tuple[str, list]:
    """(k, operations observed after the fault, observed response, directory
    difference to the start state, dump of a fresh session) of one run."""
    pm = M.PathMap('/B/u1', job['layout'])
    k = run_['failed_index'] or 0
    ops, unknown = MM.ops_term([tuple(e) for e in run_['events'][k:]], pm)
    before = {p: n for p, n in map(tuple, job['clean']['fs0'])}
    after = {p: n for p, n in map(tuple, run_['fs1'])}
    removed = [p for p, n in before.items() if after.get(p) != n]
    added = [(p, n) for p, n in after.items() if before.get(p) != n]
    return (f'({T.nat(run_["k"])}, {ops}, {RESP[run_["status"]]}, {T.lst(removed)}, '
            f'{M.enc_fs(added)}, {MM.dump_term(run_["dump1"])})'), unknown


def fault_case(job: dict, obs: list[str]) -> str:
    """(layout, fs0, selection, command, fault-free operations, observations)."""
    pm = M.PathMap('/B/u1', job['layout'])
    clean_evs = [tuple(e) for e in job['clean']['events']]
    cmd = MM.cmd_term(MM._tup(job['cmd']), clean_evs, pm)
    ops, _unknown = MM.ops_term(clean_evs, pm)
    return (f'({MM.LAYOUT[job["layout"]]}, {M.enc_fs(map(tuple, job["clean"]["fs0"]))}, '
            f'{sel_term(selection_after(job["setup"]))}, ({cmd}), {ops}, {T.lst(obs)})')
