"""C06, "never stops serving other connections", on the maildir backend as
production runs it: ``Config.from_args`` -> ``ThreadPoolExecutor(--concurrency)``
-> threading subsystem; every backend call of every connection (greeting,
commands, the poll of an idling connection) occupies one of N worker threads.

Generator dimension: N workers (1, 2, thorough also 3) x k connections that
*wait for their own client* (IDLE on the same / another mailbox / another
account, APPEND or AUTHENTICATE waiting for continuation data, selected and
silent, greeted and silent; k = N, k > N, mixtures) x one more connection (the
prober) whose greeting and every command line must be answered within a
real-time bound while the others keep waiting.

The scenarios need wall-clock time and real threads, so they run in a child
process (``python -m harness.c06_pool out.json tier seed``), all scenarios
concurrently in one event loop, each on its own backend object and directory;
the parent (props/C06.py) starts the child before its other sections and
judges the observations at the end:

* monitors (property statement): every prober step answered within BOUND;
  every waiting connection answered when its client finally continues; no
  ``[SERVERBUG]``, no close without BYE;
* correspondence (Sync/WorkerPool.v, checker Sync/WorkerPoolCheck.v): the
  executor is instrumented (submit / start / return time of every backend
  call); for every call r the calls not yet returned at its submission are
  handed to the model: each must keep the bound of its class (an idle poll
  returns after one period) and r must start when the FIFO pool model says.
"""
from __future__ import annotations

import asyncio
import json
import os
import random
import shutil
import socket
import subprocess
import sys
import tempfile
import time

TICK = 0.01            # s per model tick
# generous: the check may share 16 cores with a dozen other checks (load 100+)
BOUND = 15.0           # s: a prober step / a released connection must be answered within
POLL_BOUND = 4.0       # s: an idle poll call (1 s period) must return within
CALL_BOUND = 8.0       # s: any other backend call must return within
LO, HI = 20, 300       # ticks: tolerance of the observed start time against the model
CHILD_TIMEOUT = 200.0  # s: the whole child

HOLDER_KINDS = ['idle', 'idle_other_mailbox', 'idle_other_user', 'append_wait', 'auth_wait',
                'selected_silent', 'greeted_silent']
PROBER_STEPS = [b'LIST "" *', b'STATUS INBOX (MESSAGES UIDNEXT)', b'SELECT INBOX', b'NOOP',
                b'APPEND INBOX {23+}\r\nSubject: p\r\n\r\nprobe 1\r\n', b'FETCH 1:* (FLAGS)', b'CREATE probe',
                b'EXAMINE Work', b'IDLE', b'CHECK', b'SEARCH ALL', b'APPEND Work {23+}\r\nSubject: q\r\n\r\nprobe 2\r\n']


# --------------------------------------------------------------------- scenarios
def scenarios(rng: random.Random, quick: bool) -> list[dict]:
    out = []

    def prober(n_steps: int) -> list[str]:
        steps = [rng.choice(PROBER_STEPS) for _ in range(n_steps)]
        if b'SELECT INBOX' not in steps:
            steps.insert(rng.randrange(len(steps) + 1), b'SELECT INBOX')
        return [s.decode('latin-1') for s in steps]

    for n in ((1, 2) if quick else (1, 2, 3)):
        for kind in HOLDER_KINDS:
            out.append({'workers': n, 'holders': [kind] * n, 'prober': prober(4)})
        # more waiting connections than workers
        out.append({'workers': n, 'holders': ['idle'] * (n + 1), 'prober': prober(2)})
        out.append({'workers': n, 'holders': [rng.choice(HOLDER_KINDS[:3]) for _ in range(n + 1)],
                    'prober': prober(2)})
        if n > 1:
            out.append({'workers': n, 'holders': ['idle', 'append_wait', 'idle_other_user'][:n], 'prober': prober(4)})
            out.append({'workers': n, 'holders': [rng.choice(HOLDER_KINDS) for _ in range(n)], 'prober': prober(4)})
            out.append({'workers': n, 'holders': ['idle'] * (n - 1), 'prober': prober(3)})     # control: one free
    for i, s in enumerate(out):
        s['id'] = i
    return out


# ------------------------------------------------------------------ child process
class _Sock:
    family = socket.AF_INET
    type = socket.SOCK_STREAM

    def __init__(self, fd: int) -> None:
        self.fd = fd

    def fileno(self) -> int:
        return self.fd


class MemConn:
    """Reader and writer of one in-memory connection; the client side reads
    what the server wrote with a real-time limit."""

    def __init__(self, ident: int, who: str) -> None:
        self.ident = ident
        self.who = who
        self.to_server = asyncio.StreamReader(limit=2 ** 20)
        self.to_client = asyncio.StreamReader(limit=2 ** 24)
        self.closed = False
        self.sock = _Sock(1000 + ident)
        self.n = 0
        self.transcript: list[dict] = []
        self.task: asyncio.Task | None = None

    # writer API used by the server
    def write(self, data) -> None:
        if not self.closed:
            self.to_client.feed_data(bytes(data))

    async def drain(self) -> None:
        await asyncio.sleep(0)

    def close(self) -> None:
        if not self.closed:
            self.closed = True
            self.to_client.feed_eof()

    def get_extra_info(self, name, default=None):
        if name == 'socket':
            return self.sock
        if name == 'peername':
            return ('127.0.0.1', 40000 + self.ident)
        if name == 'sockname':
            return ('127.0.0.1', 143)
        return default

    # client side
    async def expect(self, what: str, sent: bytes, stop, bound: float) -> dict:
        """Send `sent` (may be empty), read lines until one starts with one
        of the prefixes `stop`; the step record says whether that happened
        within `bound` seconds."""
        t0 = time.monotonic()
        if sent:
            self.to_server.feed_data(sent)
        lines: list[bytes] = []
        rec = {'who': self.who, 'what': what, 'sent': sent.decode('latin-1'), 'answered': False, 'closed': False}
        try:
            while True:
                left = bound - (time.monotonic() - t0)
                if left <= 0:
                    raise asyncio.TimeoutError()
                line = await asyncio.wait_for(self.to_client.readline(), left)
                if not line:
                    rec['closed'] = True
                    break
                lines.append(line)
                if line.startswith(tuple(stop)):
                    rec['answered'] = True
                    break
        except asyncio.TimeoutError:
            pass
        rec['waited_s'] = round(time.monotonic() - t0, 3)
        rec['lines'] = [ln.decode('latin-1') for ln in lines[-6:]]
        rec['serverbug'] = any(b'[SERVERBUG]' in ln for ln in lines)
        rec['bye'] = any(ln.startswith(b'* BYE') for ln in lines)
        self.transcript.append(rec)
        return rec

    async def cmd(self, text: bytes, bound: float, stop=None) -> dict:
        self.n += 1
        tag = self.tag = b'%s%d' % (self.who.encode(), self.n)
        return await self.expect(text.split(b'\r\n')[0].decode('latin-1'), tag + b' ' + text + b'\r\n',
                                 stop or [tag + b' '], bound)


def _instrument(executor, log: list, t0: float) -> None:
    from pymap.context import socket_info
    orig = executor.submit

    def submit(fn, *args, **kw):
        rec = {'i': len(log), 'submit': time.monotonic() - t0, 'start': None, 'end': None,
               'label': getattr(args[0], '__qualname__', '?') if args else '?', 'conn': None}
        try:
            peer = args[1].get(socket_info).peername     # ('127.0.0.1', 40000 + MemConn.ident)
            rec['conn'] = int(peer[1]) - 40000
        except Exception:
            pass
        log.append(rec)

        def run(*a, **k):
            rec['start'] = time.monotonic() - t0
            try:
                return fn(*a, **k)
            finally:
                rec['end'] = time.monotonic() - t0
        return orig(run, *args, **kw)
    executor.submit = submit


async def _make_backend(base: str, workers: int):
    """The two lines of MaildirBackend.init (cheap password hashing is the
    only override) + accounts u1, u2."""
    from pysasl.hashing import BuiltinHash
    from pymap.backend.maildir import Config, Login, Identity
    from pymap.user import Passwords, UserMetadata
    from .pymap_env import FakeArgs
    args = FakeArgs(base_dir=base, layout='++', concurrency=workers, colon=None, tls=False,
                    users_file=None, passwords_file=None)
    config = Config.from_args(args, hash_context=BuiltinHash(hash_name='sha1', salt_len=0, rounds=1),
                              invalid_user_sleep=0.0)
    login = Login(config)
    config.apply_context()
    for name in ('u1', 'u2'):
        hashed = await Passwords(config).hash_password('pass')
        await Identity(config, login.tokens, name, None, {'admin'}).set(
            UserMetadata(config, name, password=hashed, params={'mailbox_path': name}))
    return config, login


async def run_scenario(sc: dict, bound: float = BOUND) -> dict:
    from proxyprotocol.sock import SocketInfoLocal
    from pymap.imap import IMAPServer
    base = tempfile.mkdtemp(prefix='pymapverif-c06pool-')
    res = dict(sc, steps=[], calls=[], error=None, subsystem=None)
    conns: list[MemConn] = []
    t0 = time.monotonic()
    try:
        config, login = await _make_backend(base, sc['workers'])
        res['subsystem'] = config.subsystem.subsystem
        log: list = []
        executor = getattr(config.subsystem, '_executor', None)
        if executor is not None:
            res['max_workers'] = getattr(executor, '_max_workers', None)
            _instrument(executor, log, t0)
        server = IMAPServer(login, config)

        def connect(who: str) -> MemConn:
            c = MemConn(len(conns) + 1, who)
            conns.append(c)
            c.task = asyncio.create_task(server(c.to_server, c, SocketInfoLocal(c)))
            return c

        # set-up connection: the mailbox Work, one message each
        s = connect('s')
        ok = (await s.expect('<greeting>', b'', [b'* OK'], 30.0))['answered']
        for text in (b'LOGIN u1 pass', b'CREATE Work', b'APPEND INBOX {22+}\r\nSubject: a\r\n\r\nfirst 1\r\n',
                     b'APPEND Work {22+}\r\nSubject: b\r\n\r\nfirst 2\r\n', b'LOGOUT'):
            ok = ok and (await s.cmd(text, 30.0))['answered']
        if not ok:
            res['error'] = 'set-up connection not served: %r' % (s.transcript[-1], )
            return res

        # the waiting connections
        holders = []
        for j, kind in enumerate(sc['holders']):
            h = connect('h%d' % j)
            user = b'u2' if kind == 'idle_other_user' else b'u1'
            mbx = b'Work' if kind == 'idle_other_mailbox' else b'INBOX'
            ok = (await h.expect('<greeting>', b'', [b'* OK'], bound))['answered']
            if kind == 'auth_wait':
                ok = ok and (await h.cmd(b'AUTHENTICATE PLAIN', bound, [b'+']))['answered']
            elif kind != 'greeted_silent':
                ok = ok and (await h.cmd(b'LOGIN ' + user + b' pass', bound))['answered']
                if kind == 'append_wait':
                    ok = ok and (await h.cmd(b'APPEND INBOX {10}', bound, [b'+']))['answered']
                else:
                    ok = ok and (await h.cmd(b'SELECT ' + mbx, bound))['answered']
                    if kind.startswith('idle'):
                        ok = ok and (await h.cmd(b'IDLE', bound, [b'+']))['answered']
            if not ok:
                res['error'] = 'waiting connection %d (%s) could not be set up: %r' % (j, kind, h.transcript[-1])
                break
            holders.append((h, kind))
        res['setup_s'] = round(time.monotonic() - t0, 2)

        # the prober, while the others wait
        t_probe = time.monotonic() - t0
        res['probe_from_s'] = round(t_probe, 3)
        if res['error'] is None:
            p = connect('p')
            steps = [('<greeting>', None)] + [('cmd', b'LOGIN u1 pass')] + \
                [('cmd', st.encode('latin-1')) for st in sc['prober']] + [('cmd', b'LOGOUT')]
            for what, text in steps:
                if what == '<greeting>':
                    r = await p.expect(what, b'', [b'* OK', b'* BYE'], bound)
                elif text == b'IDLE':
                    r = await p.cmd(text, bound, [b'+', b'p%d ' % (p.n + 1)])
                    if r['answered'] and r['lines'][-1].startswith('+'):
                        r = await p.expect('DONE', b'DONE\r\n', [b'p%d ' % p.n], bound)
                else:
                    r = await p.cmd(text, bound)
                if not r['answered']:
                    break
        res['probe_until_s'] = round(time.monotonic() - t0, 3)

        # the clients of the waiting connections continue
        async def release(h: MemConn, kind: str) -> None:
            if kind.startswith('idle'):
                await h.expect('DONE', b'DONE\r\n', [h.tag + b' '], bound)
            elif kind == 'append_wait':
                await h.expect('<literal>', b'0123456789\r\n', [h.tag + b' '], bound)
            elif kind == 'auth_wait':
                await h.expect('<cancel>', b'*\r\n', [h.tag + b' '], bound)
            if not h.closed:
                await h.cmd(b'LOGOUT', bound)
        await asyncio.gather(*(release(h, kind) for h, kind in holders))
        for c in conns:
            c.to_server.feed_eof()
        await asyncio.wait([c.task for c in conns], timeout=5.0)
        for c in conns:
            if c.task.done() and not c.task.cancelled() and c.task.exception() is not None:
                res.setdefault('task_exceptions', []).append('%s: %r' % (c.who, c.task.exception()))
        await asyncio.sleep(0.05)
        res['end_s'] = round(time.monotonic() - t0, 3)
        res['calls'] = [dict(r) for r in log]
    except BaseException as exc:  # noqa
        import traceback
        res['error'] = 'harness: ' + ''.join(traceback.format_exception(exc))[-1500:]
    finally:
        res['steps'] = [rec for c in conns for rec in c.transcript if c.who != 's']
        res['wall_s'] = round(time.monotonic() - t0, 2)
        shutil.rmtree(base, ignore_errors=True)
    return res


async def _child_main(scs: list[dict]) -> list[dict]:
    async def one(sc):
        # own task = own context: apply_context() of one backend stays there
        return await run_scenario(sc)
    return list(await asyncio.gather(*(asyncio.create_task(one(sc)) for sc in scs)))


def child(argv: list[str]) -> None:
    import logging
    logging.disable(logging.CRITICAL)
    from .pymap_env import assert_repo_import
    assert_repo_import()
    out, spec = argv[0], json.load(open(argv[1]))
    results = asyncio.run(_child_main(spec))
    with open(out + '.tmp', 'w') as f:
        json.dump(results, f)
    os.replace(out + '.tmp', out)
    sys.stdout.flush()
    os._exit(0)        # never wait for a worker thread that is still pinned


# ------------------------------------------------------------------------ parent
class Run:
    def __init__(self, scs: list[dict]) -> None:
        self.scs = scs
        self.dir = tempfile.mkdtemp(prefix='pymapverif-c06pool-run-')
        self.out = os.path.join(self.dir, 'out.json')
        spec = os.path.join(self.dir, 'spec.json')
        json.dump(scs, open(spec, 'w'))
        self.t0 = time.time()
        here = os.path.dirname(os.path.dirname(os.path.abspath(__file__)))
        self.proc = subprocess.Popen([sys.executable, '-m', 'harness.c06_pool', self.out, spec], cwd=here,
                                     stdout=subprocess.PIPE, stderr=subprocess.STDOUT)

    def wait(self) -> tuple[list[dict] | None, str]:
        try:
            log = self.proc.communicate(timeout=max(5.0, CHILD_TIMEOUT - (time.time() - self.t0)))[0]
        except subprocess.TimeoutExpired:
            self.proc.kill()
            log = self.proc.communicate()[0] + b'\nKILLED after %d s' % CHILD_TIMEOUT
        self.wall = round(time.time() - self.t0, 1)
        res = None
        if os.path.exists(self.out):
            res = json.load(open(self.out))
        shutil.rmtree(self.dir, ignore_errors=True)
        return res, log.decode('utf-8', 'replace')[-2000:]


def start(ctx) -> Run:
    # own PRNG: the streams of the other sections stay what they were
    return Run(scenarios(random.Random(f'C06-pool-{ctx.seed}'), ctx.quick))


def _ticks(seconds: float) -> int:
    return max(0, int(round(seconds / TICK)))


def pool_cases(res: dict) -> list[dict]:
    """One case per backend call r of the scenario (see WorkerPoolCheck.v)."""
    calls = res['calls']
    end_obs = res.get('end_s', res['wall_s'])
    out = []
    for r in calls:
        ts = r['submit']
        ahead_run, ahead_q = [], []
        for c in calls:
            if c['i'] >= r['i'] or c['submit'] > ts:
                continue
            if c['end'] is not None and c['end'] <= ts:
                continue
            bound = POLL_BOUND if c['label'].endswith('receive_updates') else CALL_BOUND
            if c['start'] is not None and c['start'] <= ts:
                rem = None if c['end'] is None else c['end'] - ts
                ahead_run.append((c, bound, rem))
            else:
                rem = None if c['end'] is None or c['start'] is None else c['end'] - c['start']
                ahead_q.append((c, bound, rem))
        ahead = ahead_run + ahead_q
        window = max(0.0, end_obs - ts)
        observed = None if r['start'] is None else r['start'] - ts
        out.append({'scenario': res['id'], 'workers': res['workers'], 'call': r['i'], 'label': r['label'], 'conn': r['conn'],
                    'ahead': [{'label': c['label'], 'conn': c['conn'], 'bound_s': b,
                               'remaining_s': None if rem is None else round(rem, 3)} for c, b, rem in ahead],
                    'window_s': round(window, 3), 'observed_start_s': None if observed is None else round(observed, 3)})
    return out


def enc_case(c: dict) -> str:
    from . import coqterm as T

    def dur(x):
        if x is None or _ticks(x) >= 6000:
            return 'None'
        return f'(Some {T.N(_ticks(x))})'
    ahead = T.lst(T.pair(T.N(_ticks(a['bound_s'])), dur(a['remaining_s'])) for a in c['ahead'])
    obs = dur(c['observed_start_s'])
    return T.pair(T.N(c['workers']), ahead, T.N(min(_ticks(c['window_s']), 6000)), obs,
                  T.pair(T.N(LO), T.N(HI)))


HEADER = 'From PV Require Import Base.Prelude Sync.WorkerPool Sync.WorkerPoolCheck.\n'


def judge(ctx, run: Run) -> None:
    """Monitors of the statement + the pool correspondence on what the child saw."""
    results, log = run.wait()
    ctx.extra['pool_wall_s'] = run.wall
    if results is None:
        ctx.broken.append('C06 worker-pool run produced no result: ' + log[-800:])
        return
    cases, keep = [], []
    per_kind: dict = {}

    def failure(clause, what, replay, obs):
        # a pinned pool fails in every scenario: two witnesses per class are enough
        per_kind[obs['kind']] = per_kind.get(obs['kind'], 0) + 1
        if per_kind[obs['kind']] <= 2:
            ctx.failure(clause, what, replay, obs)
    hist = {'scenarios': len(results), 'prober_steps': 0, 'max_wait_s': 0.0, 'calls': 0}
    for res in results:
        sc = {'kind': 'pool', 'workers': res['workers'], 'holders': res['holders'], 'prober': res['prober']}
        if res.get('error'):
            if res['error'].startswith('harness:'):
                ctx.broken.append(f'C06 worker-pool scenario {sc}: {res["error"][-600:]}')
            elif res['error'].startswith('set-up'):
                ctx.broken.append(f'C06 worker-pool scenario {sc}: {res["error"][-600:]}')
                continue
            else:
                failure('others_served', f'maildir, {res["workers"]} worker(s): {res["error"][:300]}',
                        dict(sc, steps=res['steps'][-8:]), {'kind': 'pool_setup_not_served'})
            if res['error'].startswith('harness:'):
                continue
        if res.get('subsystem') != 'threading' or res.get('max_workers') != res['workers']:
            ctx.broken.append(f'C06 worker-pool: the maildir Config no longer builds a threading subsystem with '
                              f'--concurrency workers ({res.get("subsystem")}, {res.get("max_workers")}): the harness '
                              'does not drive the production configuration')
            continue
        for st in res['steps']:
            ctx.count(('pool', res['id'], st['who'], st['what'], tuple(res['holders'])))
            prober = st['who'] == 'p'
            if prober:
                hist['prober_steps'] += 1
                hist['max_wait_s'] = max(hist['max_wait_s'], st['waited_s'])
            where = (f'maildir backend, --concurrency {res["workers"]}, waiting connections {res["holders"]}: '
                     + ('connection P' if prober else f'waiting connection {st["who"]}'))
            replay = dict(sc, failed_step=st, steps=[s for s in res['steps'] if s['who'] == st['who']][-8:])
            if not st['answered'] and not st['closed']:
                if prober:
                    failure('others_served', f'{where} got no answer to {st["what"]!r} within {BOUND:.0f} s while the '
                                'others were waiting for their clients: the server stopped serving other connections',
                                replay, {'kind': 'pool_others_blocked', 'step': st['what']})
                else:
                    failure('answered', f'{where}: no answer to {st["what"]!r} within {BOUND:.0f} s', replay,
                                {'kind': 'pool_stalled', 'step': st['what']})
            if st['serverbug']:
                failure('no_internal_error', f'{where}: {st["what"]!r} answered with BYE [SERVERBUG]', replay,
                            {'kind': 'pool_serverbug', 'step': st['what']})
            elif st['closed'] and not st['bye']:
                failure('bye_before_close', f'{where}: closed without BYE after {st["what"]!r}', replay,
                            {'kind': 'pool_close_without_bye', 'step': st['what']})
        for te in res.get('task_exceptions', []):
            failure('no_internal_error', f'maildir, {res["workers"]} worker(s): an exception escaped a connection '
                        f'task: {te[:200]}', sc, {'kind': 'pool_escaped_exception'})
        for c in pool_cases(res):
            hist['calls'] += 1
            cases.append(enc_case(c))
            keep.append((sc, c))
    ctx.extra['pool_outcomes'] = hist
    if keep:
        ctx.sample({'pool_case': keep[len(keep) // 2][1]})
    bad = ctx.run_cases('worker_pool', HEADER, 'pool_case', cases, 'chk_pool', shard=1000)
    shown = set()
    for i in bad:
        sc, c = keep[i]
        over = [a for a in c['ahead'] if a['remaining_s'] is None or a['remaining_s'] > a['bound_s']]
        key = (c['scenario'], bool(over))
        if key in shown or len(shown) >= 4:
            continue
        shown.add(key)
        detail = dict(sc, call=c['label'], conn=c['conn'], ahead=c['ahead'], window_s=c['window_s'],
                      observed_start_s=c['observed_start_s'])
        if over:
            a = over[0]
            failure('others_served', f'maildir backend, --concurrency {c["workers"]}, waiting connections '
                        f'{sc["holders"]}: the backend call {a["label"]} of connection {a["conn"]} kept its worker thread for '
                        f'{a["remaining_s"] if a["remaining_s"] is not None else "more than 40"} s (its class returns within '
                        f'{a["bound_s"]} s: an idle poll is one period) while {c["label"]} of connection {c["conn"]} was queued '
                        'behind it: a connection that waits for its own client holds a worker',
                        detail, {'kind': 'pool_worker_held', 'label': a['label']})
        else:
            ctx.disagreement('worker_pool', detail)


def replay(obj: dict) -> int:
    sc = {'id': 0, 'workers': obj['workers'], 'holders': obj['holders'], 'prober': obj['prober']}
    run = Run([sc])
    results, log = run.wait()
    if not results:
        print(log)
        return 2
    for st in results[0]['steps']:
        print(st['who'], repr(st['what']), '->', 'answered' if st['answered'] else 'NO ANSWER', f'after {st["waited_s"]} s',
              st['lines'][-1:] if st['lines'] else '')
    for c in results[0]['calls']:
        print('  call', c['i'], c['label'], 'conn', c['conn'], 'submit %.2f start %s end %s' % (
            c['submit'], c['start'] and round(c['start'], 2), c['end'] and round(c['end'], 2)))
    return 0


if __name__ == '__main__':
    child(sys.argv[1:])
