"""Monitors for C01/C02 that do not use the model: a shadow IMAP client per
connection, fed the canonical responses in the order they were written
(RFC 3501: EXPUNGE n removes the n-th message and renumbers, EXISTS n grows
the mailbox to n, FETCH n tells the flags/UID of the n-th message), compared
with the server's own view and with a fresh probe session.

Failure tuples are (clause, what, obs) for ctx.failure; clauses:
  expunge_range      an EXPUNGE number outside 1..current count
  exists_shrinks     EXISTS n with n below the current count
  expunge_in_nonuid  EXPUNGE in the answer to a non-UID FETCH/STORE/SEARCH
  fetch_label        a FETCH/SEARCH result labelled with a number that denotes
                     another message in the client's view at that point of the stream
  view_sync          after the tagged response the client's list differs from
                     the list the server will use for the next command
  converge_uids      after NOOP at a quiescent point the client's message list differs
                     from the mailbox as a fresh session sees it
  converge_flags     ... or the flags the client was told differ from the stored ones
"""
from __future__ import annotations

from .store_env import parse_responses

PERMANENT = {1, 2, 3, 4, 5}
RECENT = 6


def seq_denotes(sset, mx: int) -> set[int]:
    """RFC 3501 meaning of a sequence set with `*` = mx (independent of pymap)."""
    out: set[int] = set()
    for e in sset:
        if isinstance(e, tuple):
            a = mx if e[0] == '*' else e[0]
            b = mx if e[1] == '*' else e[1]
            lo, hi = min(a, b), max(a, b)
            out.update(range(lo, min(hi, mx) + 1))
        else:
            v = mx if e == '*' else e
            if v <= mx:
                out.add(v)
    return out


class Tok:
    __slots__ = ('uid', 'flags')

    def __init__(self, uid=None, flags=None) -> None:
        self.uid = uid
        self.flags = flags

    def __repr__(self) -> str:
        return f'<{self.uid} {sorted(self.flags) if self.flags is not None else "?"}>'


class Shadow:
    """What a client of one connection knows."""

    def __init__(self, sid: int) -> None:
        self.sid = sid
        self.view: list[Tok] | None = None
        self.readonly = False
        self.idle = False
        self.copy_check = None
        self.expunged: list[int] = []

    def snapshot(self):
        return None if self.view is None else [(t.uid, None if t.flags is None else sorted(t.flags))
                                               for t in self.view]

    def feed(self, label, responses, server_sorted, ids_before=None) -> list[tuple]:
        """Process the responses to one label of this connection.
        server_sorted: the server's _sorted after the step (glass box) or None."""
        fails: list[tuple] = []
        self.copy_check = None     # (cmd, sset, addressed uids, COPYUID sources) of a COPY/MOVE
        self.expunged = []         # uids of the messages this answer reported expunged
        kind = label[0]
        c = label[2] if kind == 'cmd' else (kind,)
        name = c[0]
        nonuid_data_cmd = name in ('fetch', 'store', 'search') and not \
            (c[2] if name in ('fetch', 'store') else c[1])
        tagged = next((r for r in responses if r[0] == 'tagged'), None)
        ok = tagged is not None and tagged[1] == 'OK'
        if name == 'select':
            self.view = None
            self.idle = False
            if ok:
                n = next((r[1] for r in responses if r[0] == 'exists'), 0)
                self.view = [Tok() for _ in range(n)]
                self.readonly = tagged[2] == ('readonly',)
            return fails
        if name == 'idle':
            self.idle = any(r[0] == 'cont' for r in responses)
            return fails
        if name == 'done':
            self.idle = False
        if self.view is None:
            return fails
        start_view = list(self.view)
        # who the positions are (glass box: the server's list before this step), to name the
        # messages an EXPUNGE removes even when the client was never told their UID
        ids = list(ids_before) if ids_before is not None and len(ids_before) == len(self.view) \
            else [t.uid for t in self.view]
        saw_expunge_after = [False] * len(responses)
        seen = False
        for i in range(len(responses) - 1, -1, -1):
            saw_expunge_after[i] = seen
            if responses[i][0] == 'expunge':
                seen = True
        fetched: set[int] = set()
        for i, r in enumerate(responses):
            k = r[0]
            if k == 'expunge':
                n = r[1]
                if nonuid_data_cmd:
                    fails.append(('expunge_in_nonuid', f'EXPUNGE {n} in the answer to {name}',
                                  {'kind': 'expunge_in_nonuid', 'cmd': name}))
                if not 1 <= n <= len(self.view):
                    fails.append(('expunge_range', f'EXPUNGE {n} with {len(self.view)} messages',
                                  {'kind': 'expunge_range', 'n': n, 'count': len(self.view)}))
                else:
                    who = self.view[n - 1].uid if self.view[n - 1].uid is not None else ids[n - 1]
                    if who is not None:
                        self.expunged.append(who)
                    del self.view[n - 1]
                    del ids[n - 1]
            elif k == 'exists':
                n = r[1]
                if n < len(self.view):
                    fails.append(('exists_shrinks', f'EXISTS {n} with {len(self.view)} messages',
                                  {'kind': 'exists_shrinks', 'n': n, 'count': len(self.view)}))
                else:
                    ids.extend(None for _ in range(n - len(self.view)))
                    self.view.extend(Tok() for _ in range(n - len(self.view)))
            elif k == 'fetch':
                _, seq, uid, flags = r
                if not 1 <= seq <= len(self.view):
                    fails.append(('fetch_label', f'FETCH {seq} with {len(self.view)} messages',
                                  {'kind': 'fetch_out_of_range'}))
                    continue
                tok = self.view[seq - 1]
                if uid is not None:
                    if tok.uid is not None and tok.uid != uid:
                        fails.append(('fetch_label',
                                      f'FETCH {seq} says UID {uid} but message {seq} is UID {tok.uid}',
                                      {'kind': 'merged_across_expunge' if saw_expunge_after[i]
                                       else 'wrong_uid', 'cmd': name}))
                        continue
                    tok.uid = uid
                if flags is not None:
                    tok.flags = set(flags)
                    fetched.add(id(tok))
            elif k == 'search' and not r[1]:
                for n in r[2]:
                    if not 1 <= n <= len(self.view):
                        fails.append(('fetch_label', f'SEARCH returns {n} with {len(self.view)} messages',
                                      {'kind': 'search_out_of_range'}))
        if name == 'close' and ok:
            self.view = None
            return fails
        # COPY / MOVE: the COPYUID code names the source messages the server acted on; they
        # must be messages the client addressed (what it holds under those numbers / UIDs)
        if name in ('copy', 'move') and ok:
            _, sset, by_uid = c[:3]
            pairs = None
            for r in responses:
                code = r[2] if r[0] == 'tagged' else (r[1] if r[0] == 'okcode' else None)
                if code and code[0] == 'copyuid':
                    pairs = code[1]
            if pairs:
                if by_uid:
                    known = [t.uid for t in start_view if t.uid is not None]
                    want_uids = None if any(t.uid is None for t in start_view) else \
                        seq_denotes(sset, max(known) if known else 0) & set(known)
                else:
                    want = seq_denotes(sset, len(start_view))
                    addressed = [t for i, t in enumerate(start_view, 1) if i in want]
                    want_uids = None if any(t.uid is None for t in addressed) else \
                        {t.uid for t in addressed}
                if want_uids is not None:
                    self.copy_check = (name, sset, want_uids, {a for a, _ in pairs})
                    wrong = sorted({a for a, _ in pairs} - want_uids)
                    if wrong:
                        fails.append(('copy_target',
                                      f'{name.upper()} {sset} acted on UID {wrong}; the client holds '
                                      f'UID {sorted(want_uids)} under that set',
                                      {'kind': 'wrong_message', 'cmd': name}))
        # a .SILENT STORE that succeeded: the client computes the new flags itself
        if name == 'store' and ok and c[5]:
            _, sset, by_uid, op, fl, _silent = c
            operand = set(fl) & PERMANENT
            if by_uid:
                known = [t.uid for t in start_view if t.uid is not None]
                mx = max(known) if known else 0
                if any(t.uid is None for t in start_view):
                    targets = None
                else:
                    want = seq_denotes(sset, mx)
                    targets = [t for t in start_view if t.uid in want]
            else:
                want = seq_denotes(sset, len(start_view))
                targets = [t for i, t in enumerate(start_view, 1) if i in want]
            if targets is None:
                for t in start_view:
                    t.flags = None
            else:
                for t in targets:
                    if t.flags is None:
                        continue
                    keep_recent = t.flags & {RECENT}
                    base = t.flags - {RECENT}
                    if op == 'add':
                        base = base | operand
                    elif op == 'delete':
                        base = base - operand
                    else:
                        base = set(operand)
                    # a FETCH for it in this very response overrides (already applied)
                    if id(t) in fetched:
                        continue
                    t.flags = base | keep_recent
        if server_sorted is not None:
            mine = [t.uid for t in self.view]
            if len(mine) != len(server_sorted) or any(
                    u is not None and u != v for u, v in zip(mine, server_sorted)):
                fails.append(('view_sync',
                              f'client holds {mine}, server will interpret the next command over '
                              f'{list(server_sorted)}',
                              {'kind': 'diverged', 'cmd': name}))
        return fails

    def compare_truth(self, truth, *, adopt=True) -> list[tuple]:
        """truth = [(uid, flags)] as a fresh session reports the mailbox."""
        fails: list[tuple] = []
        if self.view is None:
            return fails
        mine = [t.uid for t in self.view]
        tuids = [u for u, _ in truth]
        if len(mine) != len(tuids):
            kind = 'phantom' if len(mine) > len(tuids) else 'missing'
            fails.append(('converge_uids',
                          f'after NOOP the client holds {len(mine)} messages {mine}, the mailbox has '
                          f'{tuids}', {'kind': kind}))
            return fails
        if any(u is not None and u != v for u, v in zip(mine, tuids)):
            fails.append(('converge_uids', f'after NOOP the client holds {mine}, the mailbox has {tuids}',
                          {'kind': 'wrong_identity'}))
            return fails
        for t, (u, fl) in zip(self.view, truth):
            if adopt:
                t.uid = u
            if t.flags is not None and (t.flags - {RECENT}) != (set(fl) - {RECENT}):
                fails.append(('converge_flags',
                              f'after NOOP the client believes UID {u} has flags '
                              f'{sorted(t.flags - {RECENT})}, the mailbox stores {sorted(set(fl) - {RECENT})}',
                              {'kind': 'stale_flags'}))
        return fails


class Probe:
    """A separate connection that reports the mailbox as a fresh session sees it."""

    def __init__(self, run) -> None:
        self.run = run
        self.conn = None
        self.n = 0

    async def truth(self, box: int):
        from .store_env import BOX_NAME
        if self.conn is None:
            self.conn = await self.run.env.login()
        self.n += 1
        name = BOX_NAME[box].encode()
        r = await self.conn.send(b'p%d EXAMINE ' % self.n + name + b'\r\n')
        if b' OK ' not in r.split(b'\r\n')[-2]:
            return None
        r = await self.conn.send(b'q%d UID FETCH 1:* (UID FLAGS)\r\n' % self.n)
        out = []
        for x in parse_responses(r):
            if x[0] == 'fetch':
                out.append((x[2], x[3] or []))
        return out
