"""The maildir backend under the Store model (mailboxes with mb_md = true:
coq/theories/Store/Mailbox.v) and under the shadow-client / convergence
monitors.

MaildirRun drives a MaildirEnv with N connections like StoreRun drives the
dict backend.  Glass box: the connections' SynchronizedMessages as for dict;
the mailbox is read from the files (dovecot-uidlist records whose file exists
in cur/ or new/, flags from the file name, recent = the file is in new/).
What the generator needs to know about the mailbox comes from the same
reading."""
from __future__ import annotations

from .pymap_env import MaildirEnv
from .store_env import AConn, BOX_NAME, StoreRun, _patch_pick, find_state, parse_responses
from .store_monitor import Probe


class _LogShim:
    def __init__(self) -> None:
        self._expunges: dict[int, list[int]] = {}


class _BoxShim:
    """The few attributes harness/store_gen.py reads from a dict MailboxData."""

    def __init__(self) -> None:
        self._messages: dict[int, None] = {}
        self._mod_sequences = _LogShim()
        self._max_uid = 0
        self._readonly = False


class MaildirRun(StoreRun):

    def __init__(self, layout: str = '++') -> None:
        super().__init__()
        self.layout = layout
        self.shims: dict[int, _BoxShim] = {1: _BoxShim(), 2: _BoxShim()}
        self.probe: Probe | None = None
        self.paths: dict[int, str] = {}
        self.ndelivered = 0
        self.key_of: dict[tuple[int, int], str] = {}   # (mailbox, uid) -> maildir key, as last seen

    async def start(self, sessions) -> 'MaildirRun':
        _patch_pick()
        self.env = await MaildirEnv(self.layout).start()
        setup = await self.env.login()
        r = await setup.send(b's1 CREATE Sent\r\n')
        assert b's1 OK' in r, r
        for i, fl in enumerate([b'(\\Seen)', b'(\\Seen \\Answered)', b'(\\Flagged)', b'()']):
            data = b'Subject: init%d\r\n\r\nbody\r\n' % i
            r = await setup.send(b's2 APPEND INBOX ' + fl + b' {%d+}\r\n' % len(data) + data + b'\r\n')
            assert b's2 OK' in r, r
        await setup.send(b's3 LOGOUT\r\n')
        for s in sessions:
            await self.connect(s)
        self.probe = Probe(self)
        await self.refresh()
        # where the mailboxes live on disk (through the probe connection's own MailboxSet)
        mset = find_state(self.probe.conn)._session.mailbox_set
        self.paths = {1: (await mset.get_mailbox('INBOX'))._path,
                      2: (await mset.get_mailbox('Sent'))._path}
        return self

    async def connect(self, s: int) -> None:
        conn = AConn(self.env.imap())
        conn.greeting = await conn.start()
        r = await conn.send(b'l0 LOGIN u1 pass\r\n')
        assert b'l0 OK' in r, r
        self.conns[s] = conn
        self.states[s] = find_state(conn)
        assert self.states[s] is not None
        self.raw[s] = []

    async def refresh(self) -> None:
        """Ask the probe connection what exists now (for the generator only)."""
        for num, shim in self.shims.items():
            truth = await self.probe.truth(num)
            if truth is None:
                continue
            now = {u for u, _ in truth}
            gone = [u for u in shim._messages if u not in now]
            if gone:
                shim._mod_sequences._expunges[len(shim._mod_sequences._expunges)] = gone
            shim._messages = {u: None for u in sorted(now)}
            shim._max_uid = max([shim._max_uid] + list(now))

    def box(self, num: int):
        return self.shims.get(num, self.shims[1])

    async def do(self, label):
        """As StoreRun.do; a delivery is an MDA dropping a file into new/ (or cur/) whose name
        has no info part, after which some session (the probe) looks at the mailbox, which
        gives the file its UID."""
        if label[0] == 'deliver':
            import os
            from .store_env import content_bytes
            _, box, fl, recent, content = label
            assert not fl, 'an external maildir delivery carries no flags'
            path = self.paths[box]
            self.ndelivered += 1
            name = f'1700000000.H{self.ndelivered}P{content}.harness'
            tmp = os.path.join(path, 'tmp', name)
            with open(tmp, 'wb') as f:
                f.write(content_bytes(content))
            os.rename(tmp, os.path.join(path, 'new' if recent else 'cur', name))
            await self.refresh()
            return label, [], b''
        try:
            return await super().do(label)
        finally:
            self._note_departures()

    def _folder_keys(self, num: int) -> set:
        import os
        keys = set()
        for sub in ('new', 'cur'):
            try:
                names = os.listdir(os.path.join(self.paths[num], sub))
            except OSError:
                continue
            keys.update(name.partition(':')[0] for name in names)
        return keys

    def _note_departures(self) -> None:
        """A uid whose file has left the folder (expunged, or moved to another folder) is dead
        for good: if a file of the same name comes back later (MOVE there and back keeps the
        maildir key) it is a new message with a new uid, and an EXPUNGE reported for the old
        uid is right.  Looked at after every label, so a file that never left its folder keeps
        its entry - a uid record dropped under an existing file stays a false expunge."""
        if not self.key_of:
            return
        present = {num: self._folder_keys(num) for num in self.paths}
        for (num, uid), key in list(self.key_of.items()):
            if num in present and key not in present[num]:
                del self.key_of[(num, uid)]

    def message_exists(self, num: int, uid: int) -> bool:
        """Is the file that carried this uid still there, never having left the folder since
        the harness saw it under that uid."""
        import os
        key = self.key_of.get((num, uid))
        if key is None or num not in self.paths:
            return False
        for sub in ('new', 'cur'):
            for name in os.listdir(os.path.join(self.paths[num], sub)):
                if name.partition(':')[0] == key:
                    return True
        return False

    def boxes(self):
        return {}

    def alive_uids(self, num: int) -> set[int]:
        return {u for u, _, _ in self.md_box_obs(num)['msgs']} if num in self.paths else set()

    def md_box_obs(self, num: int) -> dict:
        """The mailbox as the files say (synchronous, reads only)."""
        import os
        from pymap.backend.maildir.uidlist import UidList
        path = self.paths[num]
        uidl = UidList.file_read(path)
        files = {}
        for sub in ('new', 'cur'):
            for name in os.listdir(os.path.join(path, sub)):
                key, _, info = name.partition(':')
                letters = info[2:] if info.startswith('2,') else ''
                files[key] = (sub, letters)
        code = {'R': 1, 'T': 2, 'D': 3, 'F': 4, 'S': 5}
        msgs = []
        for rec in uidl.records:
            self.key_of[(num, rec.uid)] = rec.key
            if rec.key in files:
                sub, letters = files[rec.key]
                msgs.append((rec.uid, sorted({code[c] for c in letters if c in code}), sub == 'new'))
        return {'max_uid': uidl.next_uid - 1, 'msgs': msgs, 'highest': None, 'uids': None,
                'readonly': False}

    def setup_labels(self):
        labels = []
        content = 1
        for num in sorted(self.paths):
            labels.append(('createmaildir', num))
            for uid, fl, recent in self.md_box_obs(num)['msgs']:
                labels.append(('deliver', num, fl, recent, content))
                content += 1
        return labels

    def observe(self, exclude=()):
        from .store_env import sel_obs
        return {'sels': {s: sel_obs(self.selected(s)) for s in sorted(self.conns)
                         if s not in exclude},
                'boxes': {n: self.md_box_obs(n) for n in sorted(self.paths)}}

    async def close(self) -> None:
        await super().close()
        if self.probe is not None and self.probe.conn is not None:
            try:
                await self.probe.conn.send_eof()
            except Exception:
                pass
        self.env.close()


async def monitored_maildir_trace(rng, *, nsess: int, nsteps: int, checkpoint_every: int = 4,
                                  layout: str = '++', group: float = 0.0, flipflop: float = 0.0):
    from .store_check import Monitored
    from .store_gen import TraceGen
    from .store_trace import Trace, exec_label
    mon = Monitored(checkpoint_every)
    sessions = list(range(1, nsess + 1))
    run = await MaildirRun(layout).start(sessions)
    mon.probe = run.probe
    trace = Trace()
    trace.setup = run.setup_labels()
    weights = {'idle': 0, 'deliver': 2, 'check': 4}
    gen = TraceGen(rng, run, sessions, boxes=(1,), idle=False, weights=weights, group=group,
                   flipflop=flipflop, deliveries=True, plain_deliveries=True)
    hooks = (mon.hook,)
    try:
        for s in sessions:
            await exec_label(run, trace, ('cmd', s, ('select', 1, False)), hooks)
            await exec_label(run, trace, ('cmd', s, ('fetch', [(1, '*')], False, True, False)), hooks)
        for i in range(nsteps):
            if not gen.queue:
                await run.refresh()
            await exec_label(run, trace, gen.next_label(), hooks)
            if not gen.queue:
                await mon.checkpoint(run, trace, i)
        while gen.queue:
            await exec_label(run, trace, gen.queue.pop(0), hooks)
        await mon.checkpoint(run, trace, 0, force=True)
        for lab, susp in run.atomicity:    # the model's atomic steps, measured here as for dict
            trace.problems.append({'kind': 'atomicity', 'label': repr(lab), 'suspensions': susp})
    finally:
        await run.close()
    return trace, mon, run


async def monitored_maildir_fixed(labels, *, nsess: int, layout: str = '++'):
    """Replay a label list on the maildir backend with the monitors attached."""
    from .store_check import Monitored
    from .store_trace import Trace, exec_label
    mon = Monitored(0)
    run = await MaildirRun(layout).start(list(range(1, nsess + 1)))
    mon.probe = run.probe
    trace = Trace()
    trace.setup = run.setup_labels()
    hooks = (mon.hook,)
    try:
        for label in labels:
            if label[0] in ('wake', 'done'):
                continue
            await exec_label(run, trace, label, hooks)
        await mon.checkpoint(run, trace, 0, force=True)
        for lab, susp in run.atomicity:
            trace.problems.append({'kind': 'atomicity', 'label': repr(lab), 'suspensions': susp})
    finally:
        await run.close()
    return trace, mon
