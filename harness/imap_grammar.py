"""Strict, independent recogniser for what an IMAP4rev1 *server* may write.

Written from the formal syntax of RFC 3501 section 9 (`response`, `greeting`,
`continue-req` and everything below them) plus the response-side syntax of the
extensions pymap advertises: LITERAL+ (nothing on the response side), ID
(RFC 2971), BINARY (RFC 3516), UIDPLUS (RFC 4315), MULTIAPPEND (RFC 3502),
MOVE (RFC 6851), CHILDREN (RFC 3348), IDLE (RFC 2177), OBJECTID (RFC 8474),
and the response codes of RFC 5530.  It knows nothing about pymap's printer.

The grammar is read as a PEG (ordered choice, greedy repetition, exactly one
SP where the RFC says SP, ABNF strings case-insensitive).  The same PEG is
implemented in Gallina (coq/theories/Resp/Grammar.v, `wf_response`); the two
are cross-checked on every run of `./check C07`.  Decisions where the RFC text
leaves room (all on the strict side unless noted):

  * `text` that is not preceded by a response code must not begin with "["
    (RFC 3501 7.1 SHOULD NOT; RFC 9051 MUST NOT);
  * a response code whose name is one of the codes with a defined argument
    syntax (UIDNEXT, PERMANENTFLAGS, APPENDUID, ...) must have that syntax; any
    other name is `atom [SP 1*<TEXT-CHAR except "]">]`;
  * `number` is 1*DIGIT; the 32-bit range is a semantic comment, not checked;
  * literal payloads are *OCTET (RFC 3501 says CHAR8, which would forbid NUL
    in a non-binary literal; the property speaks about lengths only) -- relaxed;
  * a body whose media type is the quoted string "TEXT" must carry the line
    count, one that is "MESSAGE" "RFC822" must carry envelope, body and lines;
    every other `string SP string` is body-type-basic;
  * mbx-list-flags: any number of `\\atom` flags, at most one of
    \\Noselect / \\Marked / \\Unmarked;
  * BINARY[...]: an optional "<" number ">" origin is accepted (RFC 3516
    erratum / RFC 9051).

Public interface (reusable by every check that has a server transcript):

    wf_response(data)            -> bool         whole stream well-formed
    parse_stream(data)           -> (responses, violations)
    check_transcript(data)       -> list of violation dicts (empty = fine)
    split_responses(data)        -> list of byte chunks, one per response
                                    (literals kept inside their response)

A violation dict has: offset (of the response in the stream), at (offset of
the furthest byte the grammar could not accept), kind (short class name used
to match known findings), expected (production that failed), line (the
offending response, literal payloads included).
"""
from __future__ import annotations

import re
import sys

__all__ = ['wf_response', 'parse_stream', 'check_transcript', 'split_responses',
           'Violation', 'classify']

SP = 0x20
CR = 0x0D
LF = 0x0A
DQ = 0x22
BS = 0x5C

_ATOM_SPECIALS = frozenset(b'(){ %*"\\]')


def is_atom_char(c: int) -> bool:
    return 0x21 <= c <= 0x7E and c not in _ATOM_SPECIALS


def is_astring_char(c: int) -> bool:
    return is_atom_char(c) or c == 0x5D


def is_tag_char(c: int) -> bool:
    return is_astring_char(c) and c != 0x2B


def is_text_char(c: int) -> bool:
    return 0x01 <= c <= 0x7F and c != CR and c != LF


def is_digit(c: int) -> bool:
    return 0x30 <= c <= 0x39


def _upper(c: int) -> int:
    return c - 32 if 0x61 <= c <= 0x7A else c


class _P:
    """Recursive-descent recogniser over a byte string.  Every production
    `x(i)` returns the index after the match or -1.  `fail` remembers the
    furthest position at which something was expected (for diagnostics)."""

    def __init__(self, buf: bytes) -> None:
        self.b = buf
        self.n = len(buf)
        self.far = -1
        self.far_what = ''
        self.far_strong = False

    def fail(self, i: int, what: str, strong: bool = False) -> int:
        """remember the furthest failure; at the same position a production
        name (strong) replaces a terminal's name"""
        if i > self.far or (i == self.far and strong and not self.far_strong):
            self.far = i
            self.far_what = what
            self.far_strong = strong
        return -1

    # ------------------------------------------------------------ terminals
    def ch(self, i: int, c: int, what: str = '') -> int:
        if i < self.n and self.b[i] == c:
            return i + 1
        return self.fail(i, what or 'byte %r' % bytes([c]))

    def kw(self, i: int, word: bytes) -> int:
        """ABNF literal string, case-insensitive."""
        j = i
        for w in word:
            if j < self.n and _upper(self.b[j]) == _upper(w):
                j += 1
            else:
                return self.fail(j, 'keyword ' + word.decode())
        return j

    def crlf(self, i: int) -> int:
        if i + 1 < self.n and self.b[i] == CR and self.b[i + 1] == LF:
            return i + 2
        return self.fail(i, 'CRLF')

    def sp(self, i: int) -> int:
        return self.ch(i, SP, 'SP')

    def many1(self, i: int, pred, what: str) -> int:
        j = i
        while j < self.n and pred(self.b[j]):
            j += 1
        if j == i:
            return self.fail(i, what)
        return j

    def number(self, i: int) -> int:
        return self.many1(i, is_digit, 'number')

    def nz_number(self, i: int) -> int:
        if i < self.n and self.b[i] == 0x30:
            return self.fail(i, 'nz-number')
        return self.many1(i, is_digit, 'nz-number')

    def atom(self, i: int) -> int:
        return self.many1(i, is_atom_char, 'atom')

    def tag(self, i: int) -> int:
        return self.many1(i, is_tag_char, 'tag')

    def text(self, i: int) -> int:
        return self.many1(i, is_text_char, 'text')

    def quoted(self, i: int) -> int:
        j = self.ch(i, DQ, 'quoted')
        if j < 0:
            return -1
        while True:
            if j >= self.n:
                return self.fail(j, 'quoted:unterminated', True)
            c = self.b[j]
            if c == DQ:
                return j + 1
            if c == BS:
                if j + 1 < self.n and self.b[j + 1] in (DQ, BS):
                    j += 2
                    continue
                return self.fail(j, 'quoted:bad-escape', True)
            if not is_text_char(c):
                return self.fail(j, 'quoted:char', True)
            j += 1

    def _literal_at(self, i: int) -> int:
        j = self.ch(i, 0x7B, 'literal')
        if j < 0:
            return -1
        k = self.number(j)
        if k < 0:
            return -1
        size = int(self.b[j:k])
        k = self.ch(k, 0x7D, 'literal:}')
        if k < 0:
            return -1
        k = self.crlf(k)
        if k < 0:
            return -1
        if k + size > self.n:
            return self.fail(self.n, 'literal:short', True)
        return k + size

    def literal(self, i: int) -> int:
        return self._literal_at(i)

    def literal8(self, i: int) -> int:
        j = self.ch(i, 0x7E, 'literal8')
        if j < 0:
            return -1
        return self._literal_at(j)

    def string(self, i: int) -> int:
        j = self.quoted(i)
        if j >= 0:
            return j
        return self.literal(i)

    def nil(self, i: int) -> int:
        return self.kw(i, b'NIL')

    def nstring(self, i: int) -> int:
        j = self.string(i)
        if j >= 0:
            return j
        return self.nil(i)

    def astring(self, i: int) -> int:
        j = self.many1(i, is_astring_char, 'astring')
        if j >= 0:
            return j
        return self.string(i)

    # --------------------------------------------------------- combinators
    def sp_list(self, i: int, item, what: str) -> int:
        """"(" [item *(SP item)] ")" """
        j = self.ch(i, 0x28, what)
        if j < 0:
            return -1
        k = self.ch(j, 0x29)
        if k >= 0:
            return k
        return self.sp_list1_tail(j, item)

    def sp_list1(self, i: int, item, what: str) -> int:
        """"(" item *(SP item) ")" """
        j = self.ch(i, 0x28, what)
        if j < 0:
            return -1
        return self.sp_list1_tail(j, item)

    def sp_list1_tail(self, j: int, item) -> int:
        j = item(j)
        if j < 0:
            return -1
        while True:
            k = self.sp(j)
            if k < 0:
                break
            k = item(k)
            if k < 0:
                return -1
            j = k
        return self.ch(j, 0x29, 'list:)')

    # ------------------------------------------------------- flags, mailbox
    def flag(self, i: int) -> int:
        """flag / flag-fetch: ["\\"] atom"""
        j = self.ch(i, BS)
        return self.atom(j if j >= 0 else i)

    def flag_perm(self, i: int) -> int:
        if i + 1 < self.n and self.b[i] == BS and self.b[i + 1] == 0x2A:
            return i + 2
        return self.flag(i)

    def flag_list(self, i: int) -> int:
        return self.sp_list(i, self.flag, 'flag-list')

    def mailbox(self, i: int) -> int:
        return self.astring(i)

    def objectid_parens(self, i: int) -> int:
        j = self.ch(i, 0x28, 'objectid')
        if j < 0:
            return -1
        k = j
        while k < self.n and (is_digit(self.b[k]) or 0x41 <= _upper(self.b[k]) <= 0x5A
                              or self.b[k] in (0x5F, 0x2D)):
            k += 1
        if k == j or k - j > 255:
            return self.fail(k, 'objectid', True)
        return self.ch(k, 0x29, 'objectid:)')

    # ----------------------------------------------------------- uid-set
    def uid_set(self, i: int) -> int:
        j = self.uid_elem(i)
        if j < 0:
            return -1
        while True:
            k = self.ch(j, 0x2C)
            if k < 0:
                return j
            k = self.uid_elem(k)
            if k < 0:
                return -1
            j = k

    def uid_elem(self, i: int) -> int:
        j = self.nz_number(i)
        if j < 0:
            return -1
        k = self.ch(j, 0x3A)
        if k < 0:
            return j
        return self.nz_number(k)

    # -------------------------------------------------------- resp-text
    def capability_args(self, i: int) -> int:
        """*(SP capability) with IMAP4rev1 among them; i is just after
        the word CAPABILITY."""
        j = i
        seen = False
        while True:
            k = self.sp(j)
            if k < 0:
                break
            e = self.atom(k)
            if e < 0:
                return -1
            if self.b[k:e].upper() == b'IMAP4REV1':
                seen = True
            j = e
        if not seen:
            return self.fail(j, 'capability:IMAP4rev1', True)
        return j

    def resp_text_code(self, i: int) -> int:
        """after "[": the code, up to but excluding "]" """
        j = self.atom(i)
        if j < 0:
            return -1
        name = self.b[i:j].upper()
        if name in (b'ALERT', b'PARSE', b'READ-ONLY', b'READ-WRITE', b'TRYCREATE',
                    b'UIDNOTSTICKY'):
            return j
        if name == b'BADCHARSET':
            k = self.sp(j)
            if k < 0:
                return j
            return self.sp_list1(k, self.astring, 'badcharset')
        if name == b'CAPABILITY':
            return self.capability_args(j)
        if name == b'PERMANENTFLAGS':
            k = self.sp(j)
            if k < 0:
                return -1
            return self.sp_list(k, self.flag_perm, 'permanentflags')
        if name in (b'UIDNEXT', b'UIDVALIDITY', b'UNSEEN'):
            k = self.sp(j)
            if k < 0:
                return -1
            return self.nz_number(k)
        if name == b'APPENDUID':
            k = self.sp(j)
            if k < 0:
                return -1
            k = self.nz_number(k)
            if k < 0:
                return -1
            k = self.sp(k)
            if k < 0:
                return -1
            return self.uid_set(k)
        if name == b'COPYUID':
            k = self.sp(j)
            if k < 0:
                return -1
            k = self.nz_number(k)
            if k < 0:
                return -1
            k = self.sp(k)
            if k < 0:
                return -1
            k = self.uid_set(k)
            if k < 0:
                return -1
            k = self.sp(k)
            if k < 0:
                return -1
            return self.uid_set(k)
        if name == b'MAILBOXID':
            k = self.sp(j)
            if k < 0:
                return -1
            return self.objectid_parens(k)
        # atom [SP 1*<any TEXT-CHAR except "]">]
        k = self.sp(j)
        if k < 0:
            return j
        return self.many1(k, lambda c: is_text_char(c) and c != 0x5D, 'resp-text-code:arg')

    def has_rbracket(self, i: int) -> bool:
        """does a "]" occur in the TEXT-CHARs that follow?"""
        j = i
        while j < self.n and is_text_char(self.b[j]):
            if self.b[j] == 0x5D:
                return True
            j += 1
        return False

    def resp_text(self, i: int) -> int:
        """resp-text = ["[" resp-text-code "]" SP] text; a text that begins
        with "[" and contains "]" must begin with a well-formed code"""
        if i < self.n and self.b[i] == 0x5B and self.has_rbracket(i + 1):
            j = self.resp_text_code(i + 1)
            if j < 0:
                return -1
            j = self.ch(j, 0x5D, 'resp-text-code:]')
            if j < 0:
                return -1
            j = self.sp(j)
            if j < 0:
                return -1
            return self.text(j)
        return self.text(i)

    # --------------------------------------------------- envelope, body
    def address(self, i: int) -> int:
        j = self.ch(i, 0x28, 'address')
        if j < 0:
            return -1
        for k in range(4):
            if k:
                j = self.sp(j)
                if j < 0:
                    return -1
            j = self.nstring(j)
            if j < 0:
                return -1
        return self.ch(j, 0x29, 'address:)')

    def address_list(self, i: int) -> int:
        """"(" 1*address ")" / nil"""
        j = self.ch(i, 0x28)
        if j < 0:
            return self.nil(i)
        j = self.address(j)
        if j < 0:
            return -1
        while True:
            k = self.address(j)
            if k < 0:
                break
            j = k
        return self.ch(j, 0x29, 'address-list:)')

    def envelope(self, i: int) -> int:
        j = self.ch(i, 0x28, 'envelope')
        if j < 0:
            return -1
        fields = [self.nstring, self.nstring] + [self.address_list] * 6 + \
            [self.nstring, self.nstring]
        for k, f in enumerate(fields):
            if k:
                j = self.sp(j)
                if j < 0:
                    return -1
            j = f(j)
            if j < 0:
                return -1
        return self.ch(j, 0x29, 'envelope:)')

    def body_fld_param(self, i: int) -> int:
        j = self.ch(i, 0x28)
        if j < 0:
            return self.nil(i)
        while True:
            j = self.string(j)
            if j < 0:
                return -1
            j = self.sp(j)
            if j < 0:
                return -1
            j = self.string(j)
            if j < 0:
                return -1
            k = self.sp(j)
            if k < 0:
                break
            j = k
        return self.ch(j, 0x29, 'body-fld-param:)')

    def body_fld_dsp(self, i: int) -> int:
        j = self.ch(i, 0x28)
        if j < 0:
            k = self.nil(i)
            if k < 0:
                return self.fail(i, 'body-fld-dsp', True)
            return k
        j = self.string(j)
        if j < 0:
            return -1
        j = self.sp(j)
        if j < 0:
            return -1
        j = self.body_fld_param(j)
        if j < 0:
            return -1
        return self.ch(j, 0x29, 'body-fld-dsp:)')

    def body_fld_lang(self, i: int) -> int:
        j = self.nstring(i)
        if j >= 0:
            return j
        return self.sp_list1(i, self.string, 'body-fld-lang')

    def body_extension(self, i: int, depth: int) -> int:
        j = self.nstring(i)
        if j >= 0:
            return j
        j = self.number(i)
        if j >= 0:
            return j
        if depth <= 0:
            return self.fail(i, 'body-extension:depth', True)
        return self.sp_list1(i, lambda p: self.body_extension(p, depth - 1),
                             'body-extension')

    def body_ext_tail(self, i: int, depth: int) -> int:
        """[SP body-fld-dsp [SP body-fld-lang [SP body-fld-loc
        *(SP body-extension)]]] -- greedy, never fails after a SP is taken
        unless the field is malformed."""
        k = self.sp(i)
        if k < 0:
            return i
        j = self.body_fld_dsp(k)
        if j < 0:
            return -1
        k = self.sp(j)
        if k < 0:
            return j
        j = self.body_fld_lang(k)
        if j < 0:
            return -1
        k = self.sp(j)
        if k < 0:
            return j
        j = self.nstring(k)
        if j < 0:
            return -1
        while True:
            k = self.sp(j)
            if k < 0:
                return j
            k = self.body_extension(k, depth)
            if k < 0:
                return -1
            j = k

    def _is_quoted_word(self, i: int, j: int, word: bytes) -> bool:
        return self.b[i:j].upper() == b'"' + word + b'"'

    def body(self, i: int, depth: int) -> int:
        if depth <= 0:
            return self.fail(i, 'body:depth', True)
        j = self.ch(i, 0x28, 'body')
        if j < 0:
            return -1
        if j < self.n and self.b[j] == 0x28:
            # body-type-mpart = 1*body SP media-subtype [SP body-ext-mpart]
            while j < self.n and self.b[j] == 0x28:
                j = self.body(j, depth - 1)
                if j < 0:
                    return -1
            j = self.sp(j)
            if j < 0:
                return -1
            j = self.string(j)
            if j < 0:
                return -1
            k = self.sp(j)
            if k >= 0:
                j = self.body_fld_param(k)
                if j < 0:
                    return -1
                j = self.body_ext_tail(j, depth)
                if j < 0:
                    return -1
            return self.ch(j, 0x29, 'body:)')
        # body-type-1part
        t0 = j
        j = self.string(j)
        if j < 0:
            return self.fail(t0, 'body:media-type', True)
        t1 = j
        j = self.sp(j)
        if j < 0:
            return -1
        s0 = j
        j = self.string(j)
        if j < 0:
            return -1
        s1 = j
        # body-fields
        j = self.sp(j)
        if j < 0:
            return -1
        j = self.body_fld_param(j)
        if j < 0:
            return -1
        for f in (self.nstring, self.nstring, self.string, self.number):
            j = self.sp(j)
            if j < 0:
                return -1
            j = f(j)
            if j < 0:
                return -1
        if self._is_quoted_word(t0, t1, b'MESSAGE') and \
                self._is_quoted_word(s0, s1, b'RFC822'):
            j = self.sp(j)
            if j < 0:
                return -1
            j = self.envelope(j)
            if j < 0:
                return -1
            j = self.sp(j)
            if j < 0:
                return -1
            j = self.body(j, depth - 1)
            if j < 0:
                return -1
            j = self.sp(j)
            if j < 0:
                return -1
            j = self.number(j)
            if j < 0:
                return -1
        elif self._is_quoted_word(t0, t1, b'TEXT'):
            j = self.sp(j)
            if j < 0:
                return -1
            j = self.number(j)
            if j < 0:
                return -1
        # [SP body-ext-1part]
        k = self.sp(j)
        if k >= 0:
            j = self.nstring(k)          # body-fld-md5
            if j < 0:
                return -1
            j = self.body_ext_tail(j, depth)
            if j < 0:
                return -1
        return self.ch(j, 0x29, 'body:)')

    # -------------------------------------------------------- date-time
    _MONTHS = (b'JAN', b'FEB', b'MAR', b'APR', b'MAY', b'JUN', b'JUL', b'AUG',
               b'SEP', b'OCT', b'NOV', b'DEC')

    def date_time(self, i: int) -> int:
        b = self.b
        # DQUOTE date-day-fixed "-" date-month "-" date-year SP time SP zone DQUOTE
        if i + 28 > self.n:
            return self.fail(i, 'date-time', True)
        s = b[i:i + 28]

        def d(k: int) -> bool:
            return is_digit(s[k])
        ok = (s[0] == DQ and (s[1] == SP or d(1)) and d(2) and s[3] == 0x2D
              and s[4:7].upper() in self._MONTHS and s[7] == 0x2D
              and d(8) and d(9) and d(10) and d(11) and s[12] == SP
              and d(13) and d(14) and s[15] == 0x3A and d(16) and d(17)
              and s[18] == 0x3A and d(19) and d(20) and s[21] == SP
              and s[22] in (0x2B, 0x2D) and d(23) and d(24) and d(25) and d(26)
              and s[27] == DQ)
        if not ok:
            return self.fail(i, 'date-time', True)
        return i + 28

    # ------------------------------------------------------------ fetch
    def section(self, i: int) -> int:
        """section = "[" [section-spec] "]" """
        j = self.ch(i, 0x5B, 'section')
        if j < 0:
            return -1
        k = self.ch(j, 0x5D)
        if k >= 0:
            return k
        if j < self.n and is_digit(self.b[j]):
            # section-part ["." section-text]
            j = self.nz_number(j)
            if j < 0:
                return -1
            while True:
                k = self.ch(j, 0x2E)
                if k < 0:
                    break
                if k < self.n and is_digit(self.b[k]):
                    j = self.nz_number(k)
                    if j < 0:
                        return -1
                    continue
                m = self.kw(k, b'MIME')
                if m >= 0:
                    j = m
                else:
                    j = self.section_msgtext(k)
                    if j < 0:
                        return -1
                break
        else:
            j = self.section_msgtext(j)
            if j < 0:
                return -1
        return self.ch(j, 0x5D, 'section:]')

    def section_msgtext(self, i: int) -> int:
        j = self.kw(i, b'HEADER.FIELDS')
        if j >= 0:
            k = self.kw(j, b'.NOT')
            if k >= 0:
                j = k
            j = self.sp(j)
            if j < 0:
                return -1
            return self.sp_list1(j, self.astring, 'header-list')
        j = self.kw(i, b'HEADER')
        if j >= 0:
            return j
        j = self.kw(i, b'TEXT')
        if j >= 0:
            return j
        return self.fail(i, 'section-msgtext', True)

    def section_binary(self, i: int) -> int:
        j = self.ch(i, 0x5B, 'section-binary')
        if j < 0:
            return -1
        k = self.ch(j, 0x5D)
        if k >= 0:
            return k
        j = self.nz_number(j)
        if j < 0:
            return -1
        while True:
            k = self.ch(j, 0x2E)
            if k < 0:
                break
            j = self.nz_number(k)
            if j < 0:
                return -1
        return self.ch(j, 0x5D, 'section-binary:]')

    def origin(self, i: int) -> int:
        """["<" number ">"]"""
        j = self.ch(i, 0x3C)
        if j < 0:
            return i
        j = self.number(j)
        if j < 0:
            return -1
        return self.ch(j, 0x3E, 'origin:>')

    def msg_att_item(self, i: int, depth: int) -> int:
        j = self.atom_like_name(i)
        if j < 0:
            return -1
        name = self.b[i:j].upper()
        if name == b'FLAGS':
            j = self.sp(j)
            return self.flag_list(j) if j >= 0 else -1
        if name == b'ENVELOPE':
            j = self.sp(j)
            return self.envelope(j) if j >= 0 else -1
        if name == b'INTERNALDATE':
            j = self.sp(j)
            return self.date_time(j) if j >= 0 else -1
        if name in (b'RFC822', b'RFC822.HEADER', b'RFC822.TEXT'):
            j = self.sp(j)
            return self.nstring(j) if j >= 0 else -1
        if name in (b'RFC822.SIZE',):
            j = self.sp(j)
            return self.number(j) if j >= 0 else -1
        if name == b'UID':
            j = self.sp(j)
            return self.nz_number(j) if j >= 0 else -1
        if name == b'BODYSTRUCTURE':
            j = self.sp(j)
            return self.body(j, depth) if j >= 0 else -1
        if name == b'BODY':
            if j < self.n and self.b[j] == 0x5B:
                j = self.section(j)
                if j < 0:
                    return -1
                j = self.origin(j)
                if j < 0:
                    return -1
                j = self.sp(j)
                return self.nstring(j) if j >= 0 else -1
            j = self.sp(j)
            return self.body(j, depth) if j >= 0 else -1
        if name == b'BINARY':
            j = self.section_binary(j)
            if j < 0:
                return -1
            j = self.origin(j)
            if j < 0:
                return -1
            j = self.sp(j)
            if j < 0:
                return -1
            k = self.nstring(j)
            if k >= 0:
                return k
            return self.literal8(j)
        if name == b'BINARY.SIZE':
            j = self.section_binary(j)
            if j < 0:
                return -1
            j = self.sp(j)
            return self.number(j) if j >= 0 else -1
        if name == b'EMAILID':
            j = self.sp(j)
            return self.objectid_parens(j) if j >= 0 else -1
        if name == b'THREADID':
            j = self.sp(j)
            if j < 0:
                return -1
            k = self.objectid_parens(j)
            if k >= 0:
                return k
            return self.nil(j)
        return self.fail(i, 'msg-att:name', True)

    def atom_like_name(self, i: int) -> int:
        """a fetch item name: letters, digits and "." (stops at "[" / SP)"""
        return self.many1(i, lambda c: is_digit(c) or c == 0x2E
                          or 0x41 <= _upper(c) <= 0x5A, 'msg-att:name')

    def msg_att(self, i: int, depth: int) -> int:
        return self.sp_list1(i, lambda p: self.msg_att_item(p, depth), 'msg-att')

    # ---------------------------------------------------- mailbox-data
    _SFLAGS = (b'\\NOSELECT', b'\\MARKED', b'\\UNMARKED')

    def mailbox_list(self, i: int) -> int:
        j = self.ch(i, 0x28, 'mbx-list-flags')
        if j < 0:
            return -1
        k = self.ch(j, 0x29)
        if k >= 0:
            j = k
        else:
            sflags = 0
            while True:
                s = j
                j = self.ch(j, BS, 'mbx-list-flag')
                if j < 0:
                    return -1
                j = self.atom(j)
                if j < 0:
                    return -1
                if self.b[s:j].upper() in self._SFLAGS:
                    sflags += 1
                k = self.sp(j)
                if k < 0:
                    break
                j = k
            if sflags > 1:
                return self.fail(j, 'mbx-list-flags:sflag', True)
            j = self.ch(j, 0x29, 'mbx-list-flags:)')
            if j < 0:
                return -1
        j = self.sp(j)
        if j < 0:
            return -1
        # DQUOTE QUOTED-CHAR DQUOTE / nil
        if j < self.n and self.b[j] == DQ:
            k = self.quoted(j)
            if k < 0:
                return -1
            inner = self.b[j + 1:k - 1]
            if not (len(inner) == 1 or (len(inner) == 2 and inner[0] == BS)):
                return self.fail(j, 'mailbox-list:delimiter', True)
            j = k
        else:
            j = self.nil(j)
            if j < 0:
                return -1
        j = self.sp(j)
        if j < 0:
            return -1
        return self.mailbox(j)

    def status_att_list(self, i: int) -> int:
        """"(" [status-att SP value *(SP status-att SP value)] ")" """
        def item(p: int) -> int:
            q = self.atom(p)
            if q < 0:
                return -1
            name = self.b[p:q].upper()
            q2 = self.sp(q)
            if q2 < 0:
                return -1
            if name in (b'MESSAGES', b'RECENT', b'UIDNEXT', b'UIDVALIDITY', b'UNSEEN'):
                return self.number(q2)
            if name == b'MAILBOXID':
                return self.objectid_parens(q2)
            return self.fail(p, 'status-att', True)
        return self.sp_list(i, item, 'status-att-list')

    def id_params(self, i: int) -> int:
        j = self.ch(i, 0x28)
        if j < 0:
            return self.nil(i)
        k = self.ch(j, 0x29)
        if k >= 0:
            return k
        while True:
            j = self.string(j)
            if j < 0:
                return -1
            j = self.sp(j)
            if j < 0:
                return -1
            j = self.nstring(j)
            if j < 0:
                return -1
            k = self.sp(j)
            if k < 0:
                break
            j = k
        return self.ch(j, 0x29, 'id-params:)')

    # -------------------------------------------------------- responses
    def cond(self, i: int, words) -> int:
        """one of the condition words, then SP resp-text"""
        j = self.atom(i)
        if j < 0 or self.b[i:j].upper() not in words:
            return self.fail(i, 'resp-cond', True)
        j = self.sp(j)
        if j < 0:
            return -1
        return self.resp_text(j)

    def untagged_body(self, i: int, depth: int) -> int:
        """what follows "* " up to, excluding, CRLF"""
        b = self.b
        if i < self.n and is_digit(b[i]):
            j = self.number(i)
            k = self.sp(j)
            if k < 0:
                return -1
            m = self.kw(k, b'EXISTS')
            if m >= 0:
                return m
            m = self.kw(k, b'RECENT')
            if m >= 0:
                return m
            if b[i] == 0x30:
                return self.fail(i, 'nz-number')
            m = self.kw(k, b'EXPUNGE')
            if m >= 0:
                return m
            m = self.kw(k, b'FETCH')
            if m < 0:
                return self.fail(k, 'message-data', True)
            m = self.sp(m)
            if m < 0:
                return -1
            return self.msg_att(m, depth)
        j = self.atom(i)
        if j < 0:
            return -1
        name = b[i:j].upper()
        if name in (b'OK', b'NO', b'BAD', b'BYE', b'PREAUTH'):
            k = self.sp(j)
            if k < 0:
                return -1
            return self.resp_text(k)
        if name == b'FLAGS':
            k = self.sp(j)
            return self.flag_list(k) if k >= 0 else -1
        if name in (b'LIST', b'LSUB'):
            k = self.sp(j)
            return self.mailbox_list(k) if k >= 0 else -1
        if name == b'SEARCH':
            while True:
                k = self.sp(j)
                if k < 0:
                    return j
                j = self.nz_number(k)
                if j < 0:
                    return -1
        if name == b'STATUS':
            k = self.sp(j)
            if k < 0:
                return -1
            k = self.mailbox(k)
            if k < 0:
                return -1
            k = self.sp(k)
            if k < 0:
                return -1
            return self.status_att_list(k)
        if name == b'CAPABILITY':
            return self.capability_args(j)
        if name == b'ID':
            k = self.sp(j)
            return self.id_params(k) if k >= 0 else -1
        return self.fail(i, 'response-data', True)

    def response(self, i: int, depth: int) -> int:
        """one response (continue-req / response-data / response-fatal /
        greeting / response-tagged) including its CRLF"""
        b = self.b
        if i >= self.n:
            return self.fail(i, 'response', True)
        c = b[i]
        if c == 0x2B:                       # continue-req
            j = self.sp(i + 1)
            if j < 0:
                return -1
            k = self.resp_text(j)
            if k >= 0:
                m = self.crlf(k)
                if m >= 0:
                    return m
            k = self.base64(j)
            return self.crlf(k)
        if c == 0x2A:                       # untagged
            j = self.sp(i + 1)
            if j < 0:
                return -1
            j = self.untagged_body(j, depth)
            if j < 0:
                return -1
            return self.crlf(j)
        j = self.tag(i)
        if j < 0:
            return -1
        j = self.sp(j)
        if j < 0:
            return -1
        j = self.cond(j, (b'OK', b'NO', b'BAD'))
        if j < 0:
            return -1
        return self.crlf(j)

    def base64(self, i: int) -> int:
        """*(4base64-char) [base64-terminal]; always succeeds"""
        def b64c(c: int) -> bool:
            return is_digit(c) or 0x41 <= _upper(c) <= 0x5A or c in (0x2B, 0x2F)
        j = i
        while True:
            run = 0
            while run < 4 and j + run < self.n and b64c(self.b[j + run]):
                run += 1
            if run == 4:
                j += 4
                continue
            if run == 2 and self.b[j + 2:j + 4] == b'==':
                return j + 4
            if run == 3 and self.b[j + 3:j + 4] == b'=':
                return j + 4
            return j


class Violation(dict):
    pass


def classify(what: str, line: bytes, at: int) -> str:
    """Map the furthest-failure expectation to a short class name."""
    w = what
    if w.startswith('quoted:char'):
        c = line[at] if at < len(line) else -1
        return {CR: 'quoted_cr', LF: 'quoted_lf', 0: 'quoted_nul'}.get(
            c, 'quoted_8bit' if c >= 0x80 else 'quoted_char')
    if w.startswith('quoted:'):
        return 'quoted_' + w.split(':')[1].replace('-', '_')
    if w == 'literal:short':
        return 'literal_short'
    if w == 'text':
        return 'empty_text' if at < len(line) and line[at] in (CR, LF) or at >= len(line) \
            else 'text_char'
    if w == 'CRLF':
        return 'incomplete_line' if at >= len(line) else 'line_char'
    return w.replace(':', '_').replace('-', '_').replace(' ', '_')


_DEPTH = 4000
_LIT_END = re.compile(rb'\{(\d+)\}\r\n$')


def _next_line_start(buf: bytes, i: int) -> int:
    """resynchronise after a malformed response: the lexical extent of the
    response starting at i -- lines are glued while they end in a literal
    marker `{n}` CRLF, whose n bytes are skipped -- or the end"""
    n = len(buf)
    while True:
        j = buf.find(b'\n', i)
        if j < 0:
            return n
        line = buf[i:j + 1]
        m = _LIT_END.search(line)
        if not m:
            return j + 1
        i = j + 1 + int(m.group(1))
        if i >= n:
            return n


def parse_stream(data: bytes):
    """-> (responses, violations).  `responses` is the list of (start, end)
    of every well-formed response; a malformed one is skipped to the next
    line start."""
    data = bytes(data)
    old = sys.getrecursionlimit()
    if old < 20000:
        sys.setrecursionlimit(20000)
    try:
        p = _P(data)
        i = 0
        good, bad = [], []
        while i < p.n:
            p.far, p.far_what, p.far_strong = -1, '', False
            j = p.response(i, _DEPTH)
            if j >= 0:
                good.append((i, j))
                i = j
                continue
            at = max(p.far, i)
            nxt = _next_line_start(data, i)
            if nxt <= i:
                nxt = p.n
            line = data[i:nxt]
            bad.append(Violation(offset=i, at=at, expected=p.far_what,
                                 kind=classify(p.far_what, data, at), line=line))
            i = nxt
        return good, bad
    finally:
        sys.setrecursionlimit(old)


def wf_response(data: bytes) -> bool:
    """the whole byte string is a sequence of complete well-formed responses"""
    good, bad = parse_stream(data)
    return not bad


def check_transcript(data: bytes) -> list:
    return parse_stream(data)[1]


def split_responses(data: bytes) -> list:
    good, bad = parse_stream(data)
    spans = sorted(good + [(v['offset'], v['offset'] + len(v['line'])) for v in bad])
    return [bytes(data[a:b]) for a, b in spans]
