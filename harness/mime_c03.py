"""Helpers of the C03 check (message bytes verbatim): observation of
pymap.mime / pymap.message on a byte string, Gallina encoders, generators,
an independent FETCH response reader, the end-to-end driver and the
byte-exact monitor.  Nothing of pymap is copied here: the implementation is
imported from /repo and called."""
from __future__ import annotations

import itertools
import re

from . import coqterm as T

HEADER = ('From PV Require Import Base.Prelude Base.Decimal Mime.Lines Mime.Parts '
          'Mime.MimeCheck.\nFrom Coq Require Import Init.Byte.\n')


# ===================================================================== encoders
# Coq reads constructor applications far faster than numerals (and unary nat
# numerals are hopeless): bytes are written with the constructors of
# Init.Byte, offsets as two such bytes; see Mime/MimeCheck.v.
_BX = ['x%02x' % i for i in range(256)]


def enc_bytes(b: bytes) -> str:
    if not b:
        return '(@nil N)'
    return '(B [' + ';'.join(_BX[x] for x in b) + '])'


def enc_off(n: int) -> str:
    assert 0 <= n < 65536, n
    if n < 256:
        return f'(q {_BX[n]})'
    return f'(o {_BX[n >> 8]} {_BX[n & 255]})'


def enc_line(l) -> str:
    a, b, c = l
    assert 0 <= a < 65536 and 0 <= b < 65536 and 0 <= c < 65536
    if a < 256 and b < 256 and c < 256:
        return f'(l {_BX[a]} {_BX[b]} {_BX[c]})'
    return (f'(L {_BX[a >> 8]} {_BX[a & 255]} {_BX[b >> 8]} {_BX[b & 255]} '
            f'{_BX[c >> 8]} {_BX[c & 255]})')


def enc_lines(ls) -> str:
    if not ls:
        return '(@nil line)'
    return '[' + ';'.join(enc_line(l) for l in ls) + ']'


def enc_expect(d: bytes, got: bytes) -> str:
    """observed bytes, written as a span of d when they occur in d"""
    if len(got) <= len(d):
        k = d.find(got)
        if k >= 0:
            return f'(Sp {enc_off(k)} {enc_off(len(got))})'
    return f'(Ex {enc_bytes(got)})'


def enc_kind(k) -> str:
    if k[0] == 'multi':
        return f'(CtMulti {enc_bytes(k[1])})'
    return {'text': 'CtText', 'other': 'CtOther', 'rfc822': 'CtRfc822'}[k[0]]


def enc_table(tab) -> str:
    if not tab:
        return '(@nil (nat * ctype))'
    return '[' + ';'.join(f'({enc_off(a)}, {enc_kind(k)})' for a, k in tab) + ']'


def enc_otree(d: bytes, o) -> str:
    subs = '(@nil otree)' if not o['subs'] else \
        '[' + ';'.join(enc_otree(d, s) for s in o['subs']) + ']'
    return (f'(ONode {enc_lines(o["hl"])} {enc_lines(o["bl"])} {enc_expect(d, o["raw"])} '
            f'{enc_expect(d, o["hdr"])} {enc_expect(d, o["body"])} {subs})')


def enc_z(n: int) -> str:
    if n < 0:
        return f'({n})%Z'
    assert n < 65536
    if n < 256:
        return f'(zq {_BX[n]})'
    return f'(zo {_BX[n >> 8]} {_BX[n & 255]})'


def enc_bs(b) -> str:
    if b[0] == 'multi':
        subs = '(@nil bstruct)' if not b[1] else '[' + ';'.join(enc_bs(s) for s in b[1]) + ']'
        return f'(BsMulti {subs})'
    if b[0] == 'msg':
        return f'(BsMsg {enc_off(b[1])} {enc_z(b[2])} {enc_bs(b[3])})'
    if b[0] == 'text':
        return f'(BsText {enc_off(b[1])} {enc_z(b[2])})'
    return f'(BsOther {enc_off(b[1])})'


def enc_sec(sec) -> str:
    if not sec:
        return '(@nil nat)'
    assert all(0 < i < 256 for i in sec)
    return '(P [' + ';'.join(_BX[i] for i in sec) + '])'


def enc_query(d: bytes, q) -> str:
    """kind: 'QBody' | 'QMime' | 'QHeader' | 'QText' | 'QBinary' |
    'QBinarySize' (data = int) | ('QFields', inverse, [names])"""
    kind, sec, partial, data = q
    p = 'None' if partial is None else f'(Some ({enc_off(partial[0])}, {enc_off(partial[1])}))'
    if isinstance(kind, tuple):
        names = '(@nil bytes)' if not kind[2] else '[' + ';'.join(enc_bytes(n) for n in kind[2]) + ']'
        k = f'(QFields {"true" if kind[1] else "false"} {names})'
    else:
        k = kind
    if kind == 'QBinarySize':
        exp = f'(Sp (q x00) {enc_off(data)})'
    else:
        exp = enc_expect(d, data)
    return f'({k}, {enc_sec(sec)}, {p}, {exp})'


def enc_parse_case(d: bytes, obs) -> str:
    return f'({enc_bytes(d)}, {enc_table(obs["table"])}, {enc_otree(d, obs["tree"])})'


def enc_lines_case(d: bytes, lines) -> str:
    return f'({enc_bytes(d)}, {enc_lines(lines)})'


def enc_fetch_case(d: bytes, table, size: int, bs, queries, nonid=()) -> str:
    qs = '(@nil query)' if not queries else \
        '[' + ';'.join(enc_query(d, q) for q in queries) + ']'
    b = 'None' if bs is None else f'(Some {enc_bs(bs)})'
    ni = '(@nil nat)' if not nonid else '[' + ';'.join(enc_off(a) for a in nonid) + ']'
    return f'({enc_bytes(d)}, {enc_table(table)}, {ni}, {enc_off(size)}, {b}, {qs})'


def enc_parts_case(d: bytes, boundary: bytes, lines, parts) -> str:
    ps = '(@nil (list line))' if not parts else '[' + ';'.join(enc_lines(p) for p in parts) + ']'
    return f'({enc_bytes(d)}, {enc_bytes(boundary)}, {enc_lines(lines)}, {ps})'


# ================================================================ observation
def node_kind(node):
    """The Content-Type decision the implementation took for this node, read
    from the objects it built (stdlib email is the oracle)."""
    from pymap.mime import MessageBody
    ctype = node.body.content_type
    if ctype.maintype == 'multipart':
        b = MessageBody._get_boundary(ctype)
        return ('multi', bytes(b) if b else b'')
    if ctype.maintype == 'message' and ctype.subtype == 'rfc822':
        return ('rfc822',)
    if ctype.maintype == 'text':
        return ('text',)
    return ('other',)


def node_identity(node) -> bool:
    """does the implementation serve BINARY[..] of this node undecoded?
    (MessageDecoder.of -> _NoopDecoder; stdlib email reads the header)"""
    from pymap.mime.cte import MessageDecoder, _NoopDecoder
    try:
        return isinstance(MessageDecoder.of(node.header), _NoopDecoder)
    except Exception:
        return False


def observe_tree(node, table, nonid=None):
    hl = [tuple(l) for l in node.header._lines]
    bl = [tuple(l) for l in node.body._lines]
    k = node_kind(node)
    if hl and k != ('text',):
        table.append((hl[0][0], k))
    ident = node_identity(node)
    if nonid is not None and hl and not ident:
        nonid.append(hl[0][0])
    return {'hl': hl, 'bl': bl, 'raw': bytes(node), 'hdr': bytes(node.header),
            'body': bytes(node.body), 'kind': k, 'identity': ident,
            'subs': [observe_tree(s, table, nonid) for s in node.body.nested]}


def observe_parse(d: bytes):
    """MessageContent.parse(d) -> everything the model is compared with."""
    from pymap.mime import MessageContent
    content = MessageContent.parse(d)
    table: list = []
    nonid: list = []
    tree = observe_tree(content, table, nonid)
    lines = [tuple(l) for l in MessageContent._find_lines(d)]
    return {'content': content, 'table': table, 'tree': tree, 'lines': lines, 'nonid': nonid}


def observe_bs(bs):
    """BodyStructure object -> ('multi', [..]) | ('msg', size, lines, sub) |
    ('text', size, lines) | ('other', size)"""
    from pymap.parsing.response.fetch import MultipartBodyStructure, \
        MessageBodyStructure, TextBodyStructure
    if isinstance(bs, MultipartBodyStructure):
        return ('multi', [observe_bs(p) for p in bs.parts])
    if isinstance(bs, MessageBodyStructure):
        return ('msg', bs.size, bs.lines, observe_bs(bs.body_structure))
    if isinstance(bs, TextBodyStructure):
        return ('text', bs.size, bs.lines)
    return ('other', bs.size)


def loaded_of(content):
    """A BaseLoadedMessage around parsed content (what every backend hands
    to the FETCH code)."""
    from datetime import datetime
    from pymap.message import BaseMessage, BaseLoadedMessage
    from pymap.parsing.specials import FetchRequirement

    class _Msg(BaseMessage):
        async def load_content(self, requirement):
            raise NotImplementedError

    class _Loaded(BaseLoadedMessage):
        pass
    return _Loaded(_Msg(1, datetime(2020, 1, 1), []), FetchRequirement.CONTENT, content)


def direct_query(loaded, kind, sec, partial):
    """The same call chain FETCH uses: FetchAttribute.Section ->
    DynamicLoadedFetchValue._get_data (-> _get_partial) -> bytes (int for
    'QBinarySize')."""
    from pymap.fetch import DynamicLoadedFetchValue
    from pymap.parsing.specials.fetchattr import FetchAttribute, FetchPartial
    fp = None if partial is None else FetchPartial(partial[0], partial[1])
    if isinstance(kind, tuple):
        spec = b'HEADER.FIELDS.NOT' if kind[1] else b'HEADER.FIELDS'
        section = FetchAttribute.Section(list(sec), spec, frozenset(kind[2]))
        return bytes(DynamicLoadedFetchValue._get_data(section, fp, loaded))
    if kind in ('QBinary', 'QBinarySize'):
        section = FetchAttribute.Section(list(sec), None, None)
        data = DynamicLoadedFetchValue._get_data(section, fp, loaded, binary=True)
        return len(data) if kind == 'QBinarySize' else bytes(data)
    spec = {'QBody': None, 'QMime': b'MIME', 'QHeader': b'HEADER', 'QText': b'TEXT'}[kind]
    section = FetchAttribute.Section(list(sec), spec, None)
    return bytes(DynamicLoadedFetchValue._get_data(section, fp, loaded))


_WS = b' \t\n\r\x0b\x0c'
FIELD_NAMES = [b'Subject', b'From', b'To', b'X-Test', b'Date', b'Message-ID', b'MIME-Version',
               b'Content-Type', b'Content-Transfer-Encoding', b'X-A', b'a', b'zzz', b'X']


def gen_field_names(rng):
    names = rng.sample(FIELD_NAMES, rng.randint(1, 3))
    return [n.lower() if rng.random() < 0.3 else n.upper() if rng.random() < 0.3 else n
            for n in names]


def spec_groups(header: bytes):
    """the header fields, RFC 2822: the lines before the first blank line, a
    line that starts with white space continuing the field before it"""
    pieces = header.split(b'\n')
    lines = [l + b'\n' for l in pieces[:-1]] + ([pieces[-1]] if pieces[-1] else [])
    groups: list = []
    for l in lines:
        if not l.strip(_WS):        # the header fields end at the first blank line
            break
        text = l.rstrip(b'\n')
        if text.endswith(b'\r'):
            text = text[:-1]
        if text[:1] and text[:1] in _WS:
            if groups:
                groups[-1].append(l)
        else:
            groups.append([l])
    out = []
    for g in groups:
        first = g[0].rstrip(b'\n')
        if first.endswith(b'\r'):
            first = first[:-1]
        k = first.find(b':')
        if k >= 0:                  # lines without a colon are no fields
            out.append((first[:k].strip(_WS).upper(), first[k + 1:], g))
    return out


def spec_fields(header: bytes, names, inverse: bool) -> bytes:
    """HEADER.FIELDS / HEADER.FIELDS.NOT written from RFC 3501 6.4.5: the fields
    whose name is (is not) in the list, verbatim, then CR LF."""
    want = {n.upper() for n in names}
    return b''.join(b''.join(g) for name, _v, g in spec_groups(header)
                    if (name in want) != inverse) + b'\r\n'


def spec_identity_cte(header: bytes):
    """Content-Transfer-Encoding of a header, read naively: True when absent
    or 7bit/8bit/binary, False for another plain token, None when the field
    is folded or is not a plain token (then the monitor does not judge)"""
    for name, value, g in spec_groups(header):
        if name == b'CONTENT-TRANSFER-ENCODING':
            if len(g) > 1 or not re.fullmatch(rb'[ \t]*[A-Za-z0-9-]+[ \t]*', value):
                return None
            return value.strip(b' \t').lower() in (b'7bit', b'8bit', b'binary')
    return True


def count_lines(b: bytes) -> int:
    return b.count(b'\n')


def tree_paths(tree, limit=40):
    """Section part numbers worth asking for: every node, plus one index
    past the end at every level, plus the `1` alias of a leaf."""
    out = []

    def walk(node, path, depth):
        if len(out) >= limit:
            return
        subs = node['subs']
        if not subs:
            out.append(path + [1])
            if depth < 2:
                out.append(path + [1, 1])
                out.append(path + [1, 2])
            out.append(path + [2])
            return
        for i, s in enumerate(subs, 1):
            out.append(path + [i])
            walk(s, path + [i], depth + 1)
        out.append(path + [len(subs) + 1])
    walk(tree, [], 0)
    seen, res = set(), []
    for p in out:
        if tuple(p) not in seen and len(res) < limit:
            seen.add(tuple(p))
            res.append(p)
    return res


def gen_partials(rng, n: int, k: int):
    """Partial ranges around the interesting offsets of an n-byte value."""
    out = [(0, n), (0, 0), (n, 1), (max(n - 1, 0), 5), (1, max(n - 1, 0))]
    for _ in range(k):
        o = rng.choice([0, 1, 2, n // 2, max(n - 2, 0), n, n + 1, rng.randint(0, n + 3)])
        ln = rng.choice([0, 1, 2, n, n + 7, rng.randint(0, n + 3)])
        out.append((o, ln))
    rng.shuffle(out)
    return out[:k]


# ================================================================= generators
SMALL_ALPHABET = b'a \r\n:-'


def small_strings(alphabet: bytes, maxlen: int):
    for ln in range(maxlen + 1):
        for t in itertools.product(alphabet, repeat=ln):
            yield bytes(t)


_EOLS = [b'\r\n', b'\n', b'\r\n', b'\r', b'\n\r', b'\r\r\n']
_WORDS = [b'a', b'hello', b'x y', b'\x00', b'\xff\xfe', b'caf\xc3\xa9', b'--', b'-', b':',
          b' ', b'\t', b'From ', b'>From x', b'.', b'..', b'\x0b', b'\x0c', b'=20', b'\x1a']


def gen_eol(rng, style) -> bytes:
    if style == 'crlf':
        return b'\r\n'
    if style == 'lf':
        return b'\n'
    return rng.choice(_EOLS)


def gen_text_lines(rng, style, nmax=6) -> bytes:
    out = b''
    for _ in range(rng.randint(0, nmax)):
        out += b' '.join(rng.choice(_WORDS) for _ in range(rng.randint(0, 4)))
        out += gen_eol(rng, style)
    if rng.random() < 0.4:       # no final newline / whitespace-only last line
        out += rng.choice([b'end', b' ', b'\t ', b'x', b'\r', b'--'])
    return out


def gen_header(rng, style, ctype: bytes | None) -> bytes:
    out = b''
    names = [b'Subject', b'From', b'To', b'X-Test', b'Date', b'Message-ID', b'MIME-Version',
             b'Content-Transfer-Encoding', b'Content-Transfer-Encoding', b'Content-Disposition']
    fields = []
    for _ in range(rng.randint(0, 4)):
        name = rng.choice(names)
        val = b' '.join(rng.choice([b'a', b'hello', b'x@y.z', b'<a@b>', b'1.0', b'7bit',
                                    b'\xe9', b'"q"', b'(c)', b'=?utf-8?q?x?='])
                        for _ in range(rng.randint(0, 3)))
        if name == b'Content-Transfer-Encoding' and rng.random() < 0.8:
            val = rng.choice([b'7bit', b'8bit', b'binary', b'BINARY', b'8BIT', b'7bit',
                              b'base64', b'quoted-printable', b'x-unknown'])
        fold = b''
        if rng.random() < 0.3:   # folded continuation line(s)
            for _ in range(rng.randint(1, 2)):
                fold += gen_eol(rng, style) + rng.choice([b' ', b'\t', b'  ']) + \
                    rng.choice([b'more', b'', b'x y', b' '])
        sep = rng.choice([b': '] * 12 + [b':'] * 4 + [b':\t'] * 2 + [b' : '])
        fields.append(name + sep + val + fold)
    if ctype is not None:
        fields.insert(rng.randint(0, len(fields)), b'Content-Type: ' + ctype)
    if rng.random() < 0.08:
        fields.insert(rng.randint(0, len(fields)), rng.choice(
            [b'no colon line', b' leading space', b':', b'a:', b'\x00: nul']))
    for f in fields:
        out += f + gen_eol(rng, style)
    return out


_BOUNDARIES = [b'b', b'XX', b'=_bnd', b'a-b', b'--', b'B1', b'q q']


def gen_entity(rng, style, depth: int, used: list) -> bytes:
    """header + separator + body; nested multipart / message/rfc822 while
    depth lasts."""
    r = rng.random()
    sep_kind = rng.random()
    if depth > 0 and r < 0.55:
        bnd = rng.choice(_BOUNDARIES)
        if bnd in used and rng.random() < 0.8:
            bnd = bnd + b'%d' % depth
        used = used + [bnd]
        quoted = b'"' + bnd + b'"' if (b' ' in bnd or rng.random() < 0.5) else bnd
        sub = rng.choice([b'mixed', b'alternative', b'related'])
        ctype = b'multipart/' + sub + b'; boundary=' + quoted
        if rng.random() < 0.06:
            ctype = b'multipart/' + sub           # boundary parameter missing
        body = b''
        if rng.random() < 0.4:
            body += gen_text_lines(rng, style, 2)  # preamble
            if body and not body.endswith(b'\n'):
                body += gen_eol(rng, style)
        nparts = rng.choice([0, 1, 1, 2, 2, 3])
        for _ in range(nparts):
            body += b'--' + bnd + (rng.choice([b' ', b'\t', b'-']) if rng.random() < 0.04 else b'') \
                + gen_eol(rng, style)
            part = gen_entity(rng, style, depth - 1, used)
            body += part
            if not part.endswith(b'\n') and rng.random() < 0.9:
                body += gen_eol(rng, style)
        close = rng.random()
        if close < 0.8:
            if rng.random() < 0.08:       # not a close delimiter: trailing blank
                body += b'--' + bnd + b'--' + rng.choice([b' ', b'\t', b' \t']) + \
                    gen_eol(rng, style) + gen_text_lines(rng, style, 2)
                if not body.endswith(b'\n'):
                    body += gen_eol(rng, style)
            body += b'--' + bnd + b'--' + (gen_eol(rng, style) if rng.random() < 0.8 else b'')
            if rng.random() < 0.3:
                body += gen_text_lines(rng, style, 2)  # epilogue
        elif close < 0.9:
            body += b'--' + bnd + rng.choice([b' ', b'-', b'--x']) + gen_eol(rng, style)
    elif depth > 0 and r < 0.8:
        ctype = rng.choice([b'message/rfc822', b'message/rfc822', b'Message/RFC822',
                            b'message/rfc822; x=y'])
        body = gen_entity(rng, style, depth - 1, used)
    else:
        ctype = rng.choice([None, None, b'text/plain', b'text/html; charset=utf-8',
                            b'application/octet-stream', b'image/png', b'text/plain; charset="x"',
                            b'audio/x', b'message/partial', b'multipart', b'garbage',
                            b'text/\xe9', b''])
        body = gen_text_lines(rng, style)
    hdr = gen_header(rng, style, ctype)
    if sep_kind < 0.85:
        sep = gen_eol(rng, style)
    elif sep_kind < 0.92:
        sep = rng.choice([b' ', b'\t', b' \t ']) + gen_eol(rng, style)  # whitespace-only line
    else:
        sep = b''                                                     # separator missing
    return hdr + sep + body


def gen_message(rng, max_depth=4, style=None) -> bytes:
    style = style or rng.choice(['crlf', 'crlf', 'lf', 'mix'])
    depth = rng.choice([0, 0, 1, 1, 2, 3, max_depth])
    m = gen_entity(rng, style, depth, [])
    r = rng.random()
    if style == 'lf' and not m.endswith(b'\n'):
        m += b'\n'
    if r < 0.15 and m:           # a point mutation
        k = rng.randrange(len(m))
        c = rng.choice([b'\r', b'\n', b' ', b'-', b'\x00', b'\xff', b''])
        m = m[:k] + c + m[k + (rng.random() < 0.5):]
    return m


def gen_clean_lf(rng, depth=1) -> bytes:
    """well-formed LF-only messages (simple fields, 8-bit allowed, flat or one
    level of multipart): the kind stdlib mailbox gives back unchanged, so that
    the maildir monitor judges pymap and not stdlib"""
    hdr = b''.join(rng.choice([b'Subject', b'From', b'To', b'X-A']) + b': ' +
                   rng.choice([b'a', b'hello world', b'x@y.z', b'caf\xc3\xa9']) + b'\n'
                   for _ in range(rng.randint(1, 4)))
    if depth and rng.random() < 0.4:
        parts = b''.join(b'--b%d\n' % depth + gen_clean_lf(rng, depth - 1)
                         for _ in range(rng.randint(1, 3)))
        return (hdr + b'Content-Type: multipart/mixed; boundary=b%d\n\n' % depth + parts +
                b'--b%d--\n' % depth)
    body = b''.join(b' '.join(rng.choice([b'a', b'hello', b'\xff\xfe', b'x y', b'--', b'From x',
                                          b'.', b'\x00']) for _ in range(rng.randint(1, 4))) + b'\n'
                    for _ in range(rng.randint(1, 5)))
    return hdr + b'\n' + body


def gen_raw(rng, maxlen: int) -> bytes:
    n = rng.choice([0, 1, 2, 3, rng.randint(0, 40), rng.randint(0, maxlen)])
    r = rng.random()
    if r < 0.4:
        return bytes(rng.choice(b'a \r\n:-\t\x00\xff') for _ in range(n))
    if r < 0.7:
        return bytes(rng.randrange(256) for _ in range(n))
    return bytes(rng.choice(b'ab\r\n') for _ in range(n))


def adler_siblings(d: bytes, rng, k: int = 2):
    """Different byte strings of the same length with the same zlib.adler32
    (and hence the same 32-bit content hash / object id in any store that keys
    content by it): +1,-2,+1 (or -1,+2,-1) on three consecutive bytes keeps
    both Adler sums."""
    import zlib
    cands = []
    for i in range(len(d) - 2):
        if d[i] < 255 and d[i + 1] >= 2 and d[i + 2] < 255:
            cands.append((i, (1, -2, 1)))
        if d[i] >= 1 and d[i + 1] <= 253 and d[i + 2] >= 1:
            cands.append((i, (-1, 2, -1)))
    out = []
    for i, delta in rng.sample(cands, min(k, len(cands))):
        s = bytearray(d)
        for j, x in enumerate(delta):
            s[i + j] += x
        s = bytes(s)
        assert s != d and zlib.adler32(s) == zlib.adler32(d)
        out.append(s)
    return out


def near_siblings(d: bytes, rng):
    """(kind, literal) to be stored next to d: checksum-colliding variants, the
    same bytes once more, d with one byte changed, d with two bytes swapped
    (same byte sum), d plus / minus its last byte"""
    out = [('adler_collision', s) for s in adler_siblings(d, rng)]
    out.append(('same_bytes', d))
    if d:
        k = rng.randrange(len(d))
        out.append(('one_byte_changed', d[:k] + bytes([(d[k] + rng.choice([1, 32, 128])) % 256]) + d[k + 1:]))
        if len(d) > 1:
            a, b = sorted(rng.sample(range(len(d)), 2))
            if d[a] != d[b]:
                t = bytearray(d)
                t[a], t[b] = t[b], t[a]
                out.append(('two_bytes_swapped', bytes(t)))
            out.append(('last_byte_dropped', d[:-1]))
        out.append(('last_byte_doubled', d + d[-1:]))
    return [(kind, s) for kind, s in out if s]


def byte_sweep(bases, values=range(256)):
    """every byte value substituted / inserted at every position of a few
    base messages"""
    for base in bases:
        for k in range(len(base) + 1):
            for c in values:
                yield base[:k] + bytes([c]) + base[k:]
                if k < len(base):
                    yield base[:k] + bytes([c]) + base[k + 1:]


# ===================================================== FETCH response reader
class RespError(Exception):
    pass


def read_sexp(buf: bytes, pos: int):
    """One IMAP data item at buf[pos:] -> (value, pos).  Lists are Python
    lists, strings are bytes, NIL is None, atoms/numbers are ('atom', b'..')."""
    n = len(buf)
    while pos < n and buf[pos:pos + 1] == b' ':
        pos += 1
    if pos >= n:
        raise RespError('eof')
    c = buf[pos:pos + 1]
    if c == b'(':
        items = []
        pos += 1
        while True:
            while pos < n and buf[pos:pos + 1] == b' ':
                pos += 1
            if pos >= n:
                raise RespError('unterminated list')
            if buf[pos:pos + 1] == b')':
                return items, pos + 1
            v, pos = read_sexp(buf, pos)
            items.append(v)
    if c == b'"':
        out = bytearray()
        pos += 1
        while True:
            if pos >= n:
                raise RespError('unterminated quoted')
            ch = buf[pos]
            if ch == 0x5c:
                out.append(buf[pos + 1])
                pos += 2
            elif ch == 0x22:
                return bytes(out), pos + 1
            else:
                out.append(ch)
                pos += 1
    m = re.compile(rb'~?\{(\d+)\}\r\n').match(buf, pos)
    if m:
        ln = int(m.group(1))
        start = m.end()
        if start + ln > n:
            raise RespError('literal longer than the response')
        return ('lit', buf[start:start + ln], ln), start + ln
    m = re.compile(rb'[^\s()"{\[]+(?:\[[^\]]*\])?(?:<\d+>)?').match(buf, pos)
    if not m:
        raise RespError(f'unexpected byte at {pos}: {buf[pos:pos + 20]!r}')
    return ('atom', m.group(0)), m.end()


def _val(x):
    if isinstance(x, tuple) and x[0] == 'lit':
        return x[1]
    return x


def parse_fetch(resp: bytes):
    """`* n FETCH (...)` line(s) at the start of resp -> list of dicts
    item-name -> value; raises RespError when it is not well formed."""
    out = []
    pos = 0
    while resp[pos:pos + 2] == b'* ':
        m = re.compile(rb'\* (\d+) FETCH ').match(resp, pos)
        if not m:
            eol = resp.find(b'\r\n', pos)
            if eol < 0:
                raise RespError('no CRLF')
            pos = eol + 2
            continue
        lst, pos2 = read_sexp(resp, m.end())
        if resp[pos2:pos2 + 2] != b'\r\n':
            raise RespError(f'garbage after FETCH list: {resp[pos2:pos2 + 30]!r}')
        items = {}
        if len(lst) % 2:
            raise RespError('odd FETCH list')
        for k, v in zip(lst[0::2], lst[1::2]):
            if not (isinstance(k, tuple) and k[0] == 'atom'):
                raise RespError('item name is not an atom')
            items[k[1]] = v
        out.append((int(m.group(1)), items))
        pos = pos2 + 2
    return out, resp[pos:]


def bs_of_sexp(x):
    """body / bodystructure list -> the shape used by observe_bs"""
    if not isinstance(x, list) or not x:
        raise RespError('body structure is not a list')
    if isinstance(x[0], list):
        subs = []
        i = 0
        while i < len(x) and isinstance(x[i], list):
            subs.append(bs_of_sexp(x[i]))
            i += 1
        return ('multi', subs)
    mt = (_val(x[0]) or b'').lower() if not isinstance(x[0], tuple) or x[0][0] == 'lit' else b''
    st = (_val(x[1]) or b'').lower() if len(x) > 1 and (not isinstance(x[1], tuple) or x[1][0] == 'lit') else b''
    if len(x) < 7 or not isinstance(x[1], (bytes, tuple)) or \
            (isinstance(x[1], tuple) and x[1][0] != 'lit'):
        # ("mixed" ("boundary" ..) NIL NIL NIL): pymap prints a multipart without
        # parts as its subtype followed by the extension data (not RFC 3501
        # grammar, which wants at least one part: a matter for C07)
        return ('multi', [])

    def num(v, signed=False):
        if isinstance(v, tuple) and v[0] == 'atom':
            if v[1].isdigit():
                return int(v[1])
            # pymap prints the line count of a part without lines as -1 (not
            # an IMAP number: a matter for C07); line counts are not a clause
            # of C03, so the reader lets it pass and the model must agree
            if signed and v[1][:1] == b'-' and v[1][1:].isdigit():
                return int(v[1])
        raise RespError(f'number expected in body structure: {v!r}')
    size = num(x[6])
    if mt == b'message' and st == b'rfc822':
        return ('msg', size, num(x[9], True), bs_of_sexp(x[8]))
    if mt == b'text':
        return ('text', size, num(x[7], True))
    return ('other', size)


def rfc_parts(bs):
    """RFC 3501 6.4.5 part numbering of an announced structure, written from
    the RFC: [(part specifier, announced octets)]."""
    out = []

    def part(p, b):
        if b[0] == 'multi':
            for i, s in enumerate(b[1], 1):
                part(p + [i], s)
        elif b[0] == 'msg':
            out.append((p, b[1]))
            if b[3][0] == 'multi':
                part(p, b[3])
            else:
                part(p + [1], b[3])
        else:
            out.append((p, b[1]))
    if bs[0] == 'multi':
        part([], bs)
    else:
        part([1], bs)
    return out


def bs_has_msg(bs) -> bool:
    if bs[0] == 'multi':
        return any(bs_has_msg(s) for s in bs[1])
    return bs[0] == 'msg'


def msg_on_path(bs, path) -> bool:
    """does the RFC part `path` lie at or below a message/rfc822 node?"""
    found = []

    def part(p, b, below):
        if b[0] == 'multi':
            for i, s in enumerate(b[1], 1):
                part(p + [i], s, below)
        elif b[0] == 'msg':
            found.append((p, True))
            if b[3][0] == 'multi':
                part(p, b[3], True)
            else:
                part(p + [1], b[3], True)
        else:
            found.append((p, below))
    if bs[0] == 'multi':
        part([], bs, False)
    else:
        part([1], bs, False)
    for p, below in found:
        if p == path:
            return below
    return False


# ============================================================ pure monitor
def pure_monitor(ctx, d: bytes, obs, rng, *, backend='pure') -> dict:
    """The clauses of the statement on the objects FETCH works with
    (MessageContent + BaseLoadedMessage + _get_data), for any size of d.
    Returns the observations reused by the correspondence."""
    content = obs['content']
    loaded = loaded_of(content)
    rep = {'data': d.hex() if len(d) <= 4096 else d[:4096].hex() + '...', 'len': len(d),
           'level': 'direct'}
    full = direct_query(loaded, 'QBody', [], None)
    if full != d:
        ctx.failure('body_verbatim', f'bytes(MessageContent.parse(d)) differs from d '
                    f'({len(full)} vs {len(d)} octets)', rep,
                    {'kind': 'content_not_verbatim', 'level': 'direct'})
    size = loaded.get_size()
    if size != len(d):
        ctx.failure('rfc822_size', f'get_size() = {size}, len(d) = {len(d)}', rep,
                    {'kind': 'size_wrong', 'level': 'direct'})
    hdr = direct_query(loaded, 'QHeader', [], None)
    txt = direct_query(loaded, 'QText', [], None)
    if hdr + txt != d:
        ctx.failure('header_text_split', f'HEADER ({len(hdr)}) ++ TEXT ({len(txt)}) differs '
                    f'from d ({len(d)})', rep, {'kind': 'split_wrong', 'level': 'direct'})
    partials = gen_partials(rng, len(d), 4)
    pres = []
    for o, n in partials:
        got = direct_query(loaded, 'QBody', [], (o, n))
        pres.append(('QBody', [], (o, n), got))
        if got != d[o:o + n]:
            ctx.failure('partial_slice', f'BODY[]<{o}.{n}> returned {len(got)} octets, '
                        f'expected {len(d[o:o + n])}', dict(rep, partial=[o, n]),
                        {'kind': 'partial_wrong', 'level': 'direct'})
    fields = []
    for _ in range(2):
        names = gen_field_names(rng)
        for inv in (False, True):
            got = direct_query(loaded, ('QFields', inv, names), [], None)
            fields.append((('QFields', inv, names), [], None, got))
            want = spec_fields(hdr, names, inv)
            if got != want:
                ctx.failure('header_fields', f'HEADER.FIELDS{".NOT" if inv else ""} '
                            f'{[n.decode("latin-1") for n in names]} returned {got[:80]!r}, '
                            f'expected {want[:80]!r}', dict(rep, names=[n.hex() for n in names]),
                            {'kind': 'fields_wrong', 'level': 'direct'})
    binary = []
    if spec_identity_cte(hdr) is True and not obs['tree']['identity']:
        ctx.failure('binary_identity', 'the Content-Transfer-Encoding is absent/7bit/8bit/binary '
                    'but the implementation has no identity decoder for it (BINARY[] fails or '
                    'is decoded)', rep, {'kind': 'identity_not_served', 'level': 'direct'})
    if obs['tree']['identity']:
        got = direct_query(loaded, 'QBinary', [], None)
        gsz = direct_query(loaded, 'QBinarySize', [], None)
        binary += [('QBinary', [], None, got), ('QBinarySize', [], None, gsz)]
        if spec_identity_cte(hdr) and (got != d or gsz != len(d)):
            ctx.failure('binary_identity', f'BINARY[] returned {len(got)} octets / BINARY.SIZE '
                        f'{gsz} for a {len(d)}-octet literal with an identity encoding', rep,
                        {'kind': 'binary_wrong', 'level': 'direct'})
    bs = None
    try:
        bs = observe_bs(loaded.get_body_structure())
    except Exception as exc:   # stdlib email refusing a header: not this property
        ctx.extra.setdefault('bodystructure_raised', []).append(
            {'exc': repr(exc)[:120], 'data': d[:200].hex()})
    if bs is not None:
        part_octets_monitor(ctx, bs, rep,
                            lambda p: direct_query(loaded, 'QBody', p, None),
                            lambda p: direct_query(loaded, 'QMime', p, None), 'direct')
    return {'loaded': loaded, 'full': full, 'size': size, 'hdr': hdr, 'txt': txt,
            'partials': pres, 'bs': bs, 'fields': fields, 'binary': binary}


def part_octets_monitor(ctx, bs, rep, get_body, get_mime, level) -> None:
    """octets (and line counts) announced for every part of the structure, in
    RFC 3501 numbering, against what BODY[part] returns"""
    for p, n in rfc_parts(bs):
        body = get_body(p)
        if n == len(body):
            continue
        mime = get_mime(p)
        if mime and n == len(mime) + len(body):
            kind = 'size_includes_header'
        else:
            kind = 'other'
        ctx.failure('part_octets',
                    f'part {".".join(map(str, p))}: {n} octets announced, BODY[part] has '
                    f'{len(body)} (BODY[part.MIME] has {len(mime)})',
                    dict(rep, part=p, announced=n, body_len=len(body), mime_len=len(mime)),
                    {'kind': kind, 'level': level})
    for p, lines in rfc_part_lines(bs):
        body = get_body(p)
        if lines != count_lines(body):
            ctx.failure('part_lines',
                        f'part {".".join(map(str, p))}: {lines} lines announced, BODY[part] has '
                        f'{count_lines(body)} line ends', dict(rep, part=p, announced_lines=lines),
                        {'kind': 'line_count', 'level': level})


def rfc_part_lines(bs):
    """[(part specifier, announced lines)] for text and message parts"""
    out = []

    def part(p, b):
        if b[0] == 'multi':
            for i, s in enumerate(b[1], 1):
                part(p + [i], s)
        elif b[0] == 'msg':
            out.append((p, b[2]))
            part(p if b[3][0] == 'multi' else p + [1], b[3])
        elif b[0] == 'text':
            out.append((p, b[2]))
    part([] if bs[0] == 'multi' else [1], bs)
    return out


# ======================================================== end-to-end driver
def stdlib_roundtrip(d: bytes) -> dict:
    """What stdlib mailbox alone makes of d (no pymap code involved) — the
    measured value of the model's [ser] hypothesis:
      'append': Maildir.add(MaildirMessage(d)) then bytes(get_message(key));
      'move'  : the same (the file is renamed);
      'copy'  : add(MaildirMessage(get_message(key))) then bytes(get_message(key2))."""
    import mailbox
    import shutil
    import tempfile
    tmp = tempfile.mkdtemp(prefix='pymapverif-ser-')
    try:
        md = mailbox.Maildir(tmp + '/m', create=True)
        key = md.add(mailbox.MaildirMessage(d))
        loaded = bytes(md.get_message(key))
        key2 = md.add(mailbox.MaildirMessage(md.get_message(key)))
        copied = bytes(md.get_message(key2))
        return {'append': loaded, 'move': loaded, 'copy': copied}
    finally:
        shutil.rmtree(tmp, ignore_errors=True)


class E2E:
    """One logged-in connection with INBOX selected and two destination
    mailboxes; `roundtrip(d)` appends d and returns everything fetched from
    the original, the COPY and the MOVEd message."""

    def __init__(self, backend: str, layout: str = '++') -> None:
        self.backend = backend
        self.layout = layout
        self.env = None
        self.conn = None
        self.tag = 0
        self.copy_ok = True

    async def start(self):
        from .pymap_env import DictEnv, MaildirEnv
        if self.backend == 'dict':
            self.env = await DictEnv().start()
        else:
            self.env = await MaildirEnv(self.layout).start()
        self.conn = await self.env.login()
        for box in (b'CpDst', b'MvDst'):
            r = await self.cmd(b'CREATE ' + box)
            assert b' OK' in r, r
        r = await self.cmd(b'SELECT INBOX')
        assert b' OK' in r, r
        # empty the demo data so that sequence numbers stay small
        await self.cmd(b'STORE 1:* +FLAGS.SILENT (\\Deleted)')
        await self.cmd(b'EXPUNGE')
        return self

    def close(self):
        if self.env is not None:
            self.env.close()

    async def cmd(self, line: bytes) -> bytes:
        self.tag += 1
        tag = b't%d' % self.tag
        r = await self.conn.cmd(tag + b' ' + line + b'\r\n')
        self.last_tag = tag
        return r

    @staticmethod
    def tagged_ok(resp: bytes, tag: bytes) -> bool:
        return (b'\r\n' + tag + b' OK') in (b'\r\n' + resp)

    async def fetch_items(self, seq: bytes, attrs: list[bytes]):
        """FETCH -> dict name -> value for message `seq` ('*'), or a string
        describing why the response could not be read."""
        r = await self.cmd(b'FETCH ' + seq + b' (' + b' '.join(attrs) + b')')
        if self.conn.closed or self.conn.exc is not None:
            return f'connection lost: {self.conn.exc!r} {r[-200:]!r}', r
        try:
            fetches, rest = parse_fetch(r)
        except RespError as exc:
            return f'unreadable FETCH response: {exc}', r
        if not self.tagged_ok(rest, self.last_tag) and not rest.startswith(self.last_tag + b' OK'):
            return f'FETCH not OK: {rest[:200]!r}', r
        if not fetches:
            return 'no FETCH data', r
        items = {}
        for _seq, it in fetches:
            items.update(it)
        return items, r

    async def fetch_spec(self, seq: bytes, spec: bytes):
        """FETCH seq <spec> with the spec sent as it is (a macro, one
        attribute, or a parenthesised list) -> items dict or error string"""
        r = await self.cmd(b'FETCH ' + seq + b' ' + spec)
        if self.conn.closed or self.conn.exc is not None:
            return f'connection lost: {self.conn.exc!r} {r[-200:]!r}'
        try:
            fetches, rest = parse_fetch(r)
        except RespError as exc:
            return f'unreadable FETCH response: {exc}'
        if not self.tagged_ok(rest, self.last_tag) and not rest.startswith(self.last_tag + b' OK'):
            return f'FETCH not OK: {rest[:200]!r}'
        items = {}
        for _seq, it in fetches:
            items.update(it)
        return items

    async def fetch_all(self, seq: bytes, parts, partials, fields=None, binary=None):
        """the data items of the statement for one message; fields =
        (names for HEADER.FIELDS, names for HEADER.FIELDS.NOT); binary = list of
        sections ([] = whole message) to ask BINARY.PEEK / BINARY.SIZE for"""
        attrs = [b'RFC822.SIZE', b'RFC822', b'BODY.PEEK[]', b'BODY.PEEK[HEADER]',
                 b'BODY.PEEK[TEXT]', b'RFC822.HEADER', b'RFC822.TEXT']
        if fields is not None:
            attrs.append(b'BODY.PEEK[HEADER.FIELDS (' + b' '.join(fields[0]) + b')]')
            attrs.append(b'BODY.PEEK[HEADER.FIELDS.NOT (' + b' '.join(fields[1]) + b')]')
        for p in binary or ():
            ps = b'.'.join(b'%d' % i for i in p)
            attrs.append(b'BINARY.PEEK[' + ps + b']')
            attrs.append(b'BINARY.SIZE[' + ps + b']')
        for o, n in partials:
            attrs.append(b'BODY.PEEK[]<%d.%d>' % (o, n))
        for p in parts:
            ps = b'.'.join(b'%d' % i for i in p)
            attrs.append(b'BODY.PEEK[' + ps + b']')
            attrs.append(b'BODY.PEEK[' + ps + b'.MIME]')
        items, raw = await self.fetch_all_split(seq, attrs)
        return items, raw

    async def fetch_all_split(self, seq: bytes, attrs):
        items, raw = await self.fetch_items(seq, attrs)
        return items, raw

    async def structure(self, seq: bytes):
        items, raw = await self.fetch_items(seq, [b'BODYSTRUCTURE', b'BODY'])
        return items, raw

    async def append(self, d: bytes) -> bytes:
        return await self.cmd(b'APPEND INBOX {%d}\r\n' % len(d) + d)

    async def cleanup(self, box: bytes | None) -> None:
        if box is not None:
            await self.cmd(b'SELECT ' + box)
        await self.cmd(b'STORE 1:* +FLAGS.SILENT (\\Deleted)')
        await self.cmd(b'EXPUNGE')


def lit(v):
    """literal/quoted payload of a FETCH item, None for NIL / not a string"""
    if isinstance(v, tuple) and v[0] == 'lit':
        return v[1]
    if isinstance(v, bytes):
        return v
    return None


def item_with_prefix(items, prefix: bytes):
    for k, v in items.items():
        if k.startswith(prefix):
            return v
    return None


def identity_paths(tree, limit=3):
    """[(RFC 3501 part number, node)] of the leaves and message parts whose
    encoding the implementation treats as identity"""
    out = []

    def msg(p, node):
        if node['kind'][0] == 'multi' and node['subs']:
            for i, s in enumerate(node['subs'], 1):
                part(p + [i], s)
        else:
            part(p + [1], node)

    def part(p, node):
        if node['kind'][0] == 'multi' and node['subs']:
            for i, s in enumerate(node['subs'], 1):
                part(p + [i], s)
            return
        if node['identity']:
            out.append((p, node))
        if node['kind'][0] == 'rfc822' and node['subs']:
            msg(p, node['subs'][0])
    msg([], tree)
    return out[:limit]


def check_items(ctx, d: bytes, items, partials, rep, where: str, backend: str,
                expect: dict | None, fields=None, binary=None) -> bytes | None:
    """Byte-exact monitor on the data items of one message (the original,
    its COPY or its MOVE).  Returns the bytes BODY[] delivered."""
    def fail(clause, what, kind, **more):
        obs = {'kind': kind, 'where': where, 'backend': backend, 'level': 'imap'}
        ctx.failure(clause, f'[{backend}/{where}] {what}', dict(rep, where=where, **more), obs)

    full = lit(items.get(b'BODY[]'))
    if full is None:
        fail('body_verbatim', 'no BODY[] literal in the response', 'missing')
        return None
    eff = d
    expect_loaded = None if expect is None else expect[
        {'sibling': 'append', 'sibling_copy': 'copy', 'original_again': 'append'}.get(where, where)]
    if full != d:
        if expect_loaded is not None and expect_loaded != d:
            # stdlib mailbox does not give d back: hypothesis [ser d = d] is false here
            kind = 'maildir_reserialised' if full == expect_loaded else 'maildir_other'
            fail('maildir_verbatim', f'BODY[] returns {len(full)} octets for a {len(d)}-octet '
                 f'literal (stdlib mailbox round trip gives {len(expect_loaded)})', kind)
            eff = full
        else:
            clause = 'copy_verbatim' if where in ('copy', 'move', 'sibling_copy') \
                else 'body_verbatim'
            k = next((i for i, (x, y) in enumerate(zip(full, d)) if x != y), min(len(full), len(d)))
            fail(clause, f'BODY[] returns {len(full)} octets that differ from the {len(d)}-octet '
                 f'literal at offset {k}: {full[max(k - 8, 0):k + 8]!r} vs '
                 f'{d[max(k - 8, 0):k + 8]!r}', 'content_not_verbatim')
            eff = full
    r822 = lit(items.get(b'RFC822'))
    if r822 != full:
        fail('body_verbatim', 'RFC822 differs from BODY[]', 'rfc822_differs')
    size = items.get(b'RFC822.SIZE')
    if not (isinstance(size, tuple) and size[0] == 'atom' and size[1].isdigit()
            and int(size[1]) == len(eff)):
        fail('rfc822_size', f'RFC822.SIZE {size!r} for {len(eff)} octets', 'size_wrong')
    hdr, txt = lit(items.get(b'BODY[HEADER]')), lit(items.get(b'BODY[TEXT]'))
    if hdr is None or txt is None or hdr + txt != eff:
        fail('header_text_split', f'BODY[HEADER] ({hdr and len(hdr)}) ++ BODY[TEXT] '
             f'({txt and len(txt)}) differs from the message ({len(eff)})', 'split_wrong')
    if lit(items.get(b'RFC822.HEADER')) != hdr or lit(items.get(b'RFC822.TEXT')) != txt:
        fail('header_text_split', 'RFC822.HEADER / RFC822.TEXT differ from BODY[HEADER] / '
             'BODY[TEXT]', 'rfc822_split_differs')
    for o, n in partials:
        got = lit(items.get(b'BODY[]<%d>' % o))
        if got != eff[o:o + n]:
            fail('partial_slice', f'BODY[]<{o}.{n}> returned {got and len(got)} octets, expected '
                 f'{len(eff[o:o + n])}', 'partial_wrong', partial=[o, n])
    if fields is not None and hdr is not None:
        for inv, names, prefix in ((False, fields[0], b'BODY[HEADER.FIELDS ('),
                                   (True, fields[1], b'BODY[HEADER.FIELDS.NOT (')):
            got = lit(item_with_prefix(items, prefix))
            want = spec_fields(hdr, names, inv)
            if got != want:
                fail('header_fields', f'HEADER.FIELDS{".NOT" if inv else ""} '
                     f'{[n.decode("latin-1") for n in names]} returned {got and got[:80]!r}, '
                     f'expected {want[:80]!r}', 'fields_wrong', names=[n.hex() for n in names])
    for p in binary or ():
        ps = b'.'.join(b'%d' % i for i in p)
        mime = hdr if not p else lit(items.get(b'BODY[' + ps + b'.MIME]'))
        want = eff if not p else lit(items.get(b'BODY[' + ps + b']'))
        if mime is None or want is None or not spec_identity_cte(mime):
            continue
        got = lit(items.get(b'BINARY[' + ps + b']'))
        size = items.get(b'BINARY.SIZE[' + ps + b']')
        if got != want or not (isinstance(size, tuple) and size[0] == 'atom'
                               and size[1].isdigit() and int(size[1]) == len(want)):
            fail('binary_identity', f'BINARY[{ps.decode()}] returned {got and len(got)} octets, '
                 f'BINARY.SIZE {size!r}; BODY[{ps.decode()}] has {len(want)} and the encoding '
                 'is an identity', 'binary_wrong', part=list(p))
    return eff


# attributes asked for on their own / in metadata-only company: a backend may
# load less of the message when nothing in the FETCH needs its content
SEPARATE_SPECS = [
    (b'RFC822.SIZE', [b'RFC822.SIZE']),
    (b'FAST', [b'RFC822.SIZE']),
    (b'(UID RFC822.SIZE FLAGS)', [b'RFC822.SIZE']),
    (b'(FLAGS INTERNALDATE RFC822.SIZE)', [b'RFC822.SIZE']),
    (b'(RFC822.SIZE EMAILID THREADID)', [b'RFC822.SIZE']),
    (b'BODYSTRUCTURE', [b'BODYSTRUCTURE']),
    (b'BODY', [b'BODY']),
    (b'(UID BODYSTRUCTURE)', [b'BODYSTRUCTURE']),
    (b'RFC822.HEADER', [b'RFC822.HEADER']),
    (b'(RFC822.SIZE RFC822.HEADER)', [b'RFC822.SIZE', b'RFC822.HEADER']),
    (b'BODY.PEEK[HEADER]', [b'BODY[HEADER]']),
    (b'BODY.PEEK[TEXT]', [b'BODY[TEXT]']),
    (b'RFC822.TEXT', [b'RFC822.TEXT']),
    (b'BODY.PEEK[]', [b'BODY[]']),
    (b'BODY.PEEK[1]', [b'BODY[1]']),
    (b'BODY.PEEK[1.MIME]', [b'BODY[1.MIME]']),
    (b'ALL', [b'RFC822.SIZE']),
    (b'FULL', [b'RFC822.SIZE', b'BODY']),
]


async def check_separately(ctx, e, seq: bytes, items, structure, eff: bytes, rep, where: str,
                           binary_ok: bool) -> None:
    """every attribute fetched alone and in metadata-only combinations must
    give what the combined FETCH gave (and RFC822.SIZE = the length of the
    message) — on the original and on its copies"""
    backend = e.backend
    specs = list(SEPARATE_SPECS)
    if binary_ok:
        specs += [(b'BINARY.SIZE[]', [b'BINARY.SIZE[]']), (b'BINARY.PEEK[]', [b'BINARY[]']),
                  (b'(UID BINARY.SIZE[])', [b'BINARY.SIZE[]'])]
    ref = dict(items)
    if isinstance(structure, dict):
        ref.update(structure)
    for spec, keys in specs:
        got = await e.fetch_spec(seq, spec)
        if isinstance(got, str):
            if e.conn.closed or e.conn.exc is not None:
                ctx.extra.setdefault('separate_fetch_lost_connection', []).append(
                    {'spec': spec.decode(), 'why': got[:160], 'data': rep['data'][:400]})
                return
            ctx.failure('rfc822_size' if b'SIZE' in spec else 'body_verbatim',
                        f'[{backend}/{where}] FETCH {spec.decode()} alone: {got}',
                        dict(rep, where=where, fetch=spec.decode()),
                        {'kind': 'separate_fetch_failed', 'where': where, 'backend': backend})
            continue
        for k in keys:
            if k not in ref:
                continue
            a, b = got.get(k), ref[k]
            same = (lit(a) == lit(b)) if lit(b) is not None else (a == b)
            if k in (b'RFC822.SIZE', b'BINARY.SIZE[]'):
                same = same and isinstance(a, tuple) and a[1].isdigit() and int(a[1]) == len(eff)
            if not same:
                clause = 'rfc822_size' if k == b'RFC822.SIZE' else \
                    'part_octets' if k in (b'BODYSTRUCTURE', b'BODY') else \
                    'binary_identity' if k.startswith(b'BINARY') else 'body_verbatim'
                shown = (a[1] if isinstance(a, tuple) and a[0] == 'atom' else lit(a) and lit(a)[:60])
                ctx.failure(clause, f'[{backend}/{where}] FETCH {spec.decode()} gives '
                            f'{k.decode()} = {shown!r}, the combined FETCH (and the '
                            f'{len(eff)}-octet message) says otherwise',
                            dict(rep, where=where, fetch=spec.decode()),
                            {'kind': 'attribute_alone_differs', 'where': where,
                             'backend': backend})
