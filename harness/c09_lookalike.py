"""C09 - look-alike credentials (round 5): the decoding of credential octets.

Near misses of the genuine credentials of the provisioned accounts, sent through
every transport that carries them (IMAP LOGIN as quoted string and as literal,
AUTHENTICATE PLAIN, AUTHENTICATE LOGIN; ManageSieve AUTHENTICATE PLAIN / LOGIN):

  * octets that are not UTF-8 inserted at the start / in the middle / at the end
    (0xff, 0xfe, 0x80, a truncated 2- and 3-byte sequence, 0xc0 0xaf, an OVERLONG
    encoding of the very character at that position, a CESU surrogate, a code
    point above U+10FFFF),
  * NUL, CR, LF, TAB, DEL, leading / trailing / doubled white space,
  * case variants, doubled / dropped characters,
  * Unicode look-alikes: fullwidth letters and ligatures (NFKC-equal), combining
    forms, soft hyphen / word joiner / BOM (SASLprep maps them to nothing),
    NO-BREAK SPACE (SASLprep maps it to a space).

Ground truth for the monitor (`secret_eq`): RFC 4013 equality - two secrets are
the same iff their SASLprep forms are equal; a string SASLprep prohibits equals
nothing; octets that are not UTF-8 equal nothing.  `ref_saslprep` is written
from RFC 4013 / RFC 3454 with the stdlib `stringprep` tables, independently of
pysasl.

The sequences are checked by `chk_auth_strict` / `chk_sieve_strict`
(Conn/AuthDbCheck.v): the model wraps the pysasl oracle table by its own UTF-8
validator (`strict_verify`), so a lossy decoding anywhere is a disagreement.
Family `utf8_decode` compares that validator with CPython's strict decoder.
"""
from __future__ import annotations

import stringprep
import unicodedata

from . import coqterm as T

HEADER = ('From Coq Require Import String.\n'
          'From PV Require Import Base.Prelude Conn.CmdEntry Conn.CmdTable Conn.ConnFSM '
          'Conn.ConnCheck Conn.Auth Conn.SieveAuth Conn.AuthCheck Conn.AuthDb Conn.AuthDbCheck.\n'
          'Open Scope string_scope.\n')


def _C09():
    from .props import C09
    return C09


# ------------------------------------------------------------ RFC 4013
def ref_saslprep(s: str) -> str:
    """SASLprep (RFC 4013) of a query string; ValueError when prohibited."""
    mapped = []
    for ch in s:
        # U+200B is in both tables of RFC 3454 (B.1 and C.1.2) and RFC 4013 does not
        # say which mapping wins: it is not generated, and B.1 is tried first here
        if stringprep.in_table_b1(ch):
            continue
        mapped.append(' ' if stringprep.in_table_c12(ch) else ch)
    t = unicodedata.normalize('NFKC', ''.join(mapped))
    for ch in t:
        if (stringprep.in_table_c12(ch) or stringprep.in_table_c21(ch) or stringprep.in_table_c22(ch)
                or stringprep.in_table_c3(ch) or stringprep.in_table_c4(ch) or stringprep.in_table_c5(ch)
                or stringprep.in_table_c6(ch) or stringprep.in_table_c7(ch) or stringprep.in_table_c8(ch)
                or stringprep.in_table_c9(ch)):
            raise ValueError('prohibited')
    if any(stringprep.in_table_d1(ch) for ch in t):
        if any(stringprep.in_table_d2(ch) for ch in t) or not (
                stringprep.in_table_d1(t[0]) and stringprep.in_table_d1(t[-1])):
            raise ValueError('bidi')
    return t


def secret_eq(stored_plain: str, presented: str) -> bool:
    try:
        return ref_saslprep(stored_plain) == ref_saslprep(presented)
    except ValueError:
        return False


# ------------------------------------------------------------- mutations
def overlong(c: int) -> list[bytes]:
    """overlong 2- and 3-byte encodings of an ASCII character"""
    return [bytes([0xc0 | (c >> 6), 0x80 | (c & 0x3f)]),
            bytes([0xe0, 0x80 | (c >> 6), 0x80 | (c & 0x3f)])]


INVALID = [b'\xff', b'\xfe', b'\x80', b'\xbf', b'\xc3', b'\xe2\x82', b'\xf0\x9f\x98', b'\xc0\xaf',
           b'\xc1\xbf', b'\xed\xa0\x80', b'\xed\xbf\xbf', b'\xf4\x90\x80\x80', b'\xf8\x88\x80\x80\x80',
           b'\xe0\x80\x80', b'\xf0\x80\x80\x80']
CONTROL = [b'\0', b'\r', b'\n', b'\t', b'\x7f', b'\x01', b' ', b'  ', b'\x1b']
UNI = ['\u00ad', '\u00a0', '\u2060', '\ufeff', '\u0301', '\u3000', '\u200d', '\u2003']
FOLD = {'a': ['\uff41', '\u00aa', '\u0430'], 'b': ['\uff42'], 'e': ['\uff45', '\u0435'],
        'o': ['\uff4f', '\u00ba', '\u043e'], 's': ['\uff53', '\u017f'], 't': ['\uff54'],
        'p': ['\uff50', '\u0440'], 'x': ['\uff58', '\u00d7'], 'r': ['\uff52'], 'u': ['\uff55']}


def near_misses(rng, genuine: bytes, n: int) -> list[tuple[str, bytes]]:
    """n labelled look-alikes of `genuine` (never `genuine` itself)."""
    out = []
    g = genuine
    pos_choices = sorted({0, len(g) // 2, len(g)})
    while len(out) < n:
        k = rng.randrange(10)
        pos = rng.choice(pos_choices)
        if k < 4:
            ins = rng.choice(INVALID)
            v, lab = g[:pos] + ins + g[pos:], 'invalid-octets'
        elif k == 4 and g:
            i = rng.randrange(len(g))
            if g[i] < 0x80:
                v, lab = g[:i] + rng.choice(overlong(g[i])) + g[i + 1:], 'overlong'
            else:
                continue
        elif k == 5:
            ins = rng.choice(CONTROL)
            v, lab = g[:pos] + ins + g[pos:], 'control-or-space'
        elif k == 6:
            try:
                t = g.decode('utf-8')
            except UnicodeDecodeError:
                continue
            v = rng.choice([t.upper(), t.lower(), t.swapcase(), t.capitalize(), t + t[-1:], t[:-1],
                            t[1:], t[::-1]]).encode('utf-8')
            lab = 'case-or-length'
        elif k == 7:
            v, lab = g[:pos] + rng.choice(UNI).encode('utf-8') + g[pos:], 'unicode-insert'
        elif k == 8 and g:
            try:
                t = g.decode('utf-8')
            except UnicodeDecodeError:
                continue
            idx = [i for i, ch in enumerate(t) if ch in FOLD]
            if not idx:
                continue
            i = rng.choice(idx)
            v, lab = (t[:i] + rng.choice(FOLD[t[i]]) + t[i + 1:]).encode('utf-8'), 'nfkc-or-homoglyph'
        else:
            # a valid sequence cut short at the very end / a genuine multi-byte char damaged
            v, lab = g + rng.choice(['\u00e9', '\u20ac', '\U0001f600']).encode('utf-8')[:-1], 'truncated'
        if v != g:
            out.append((lab, v))
    return out


def sweep(genuine_user: bytes, genuine_pw: bytes) -> list[tuple[str, bytes, bytes]]:
    """deterministic core: every invalid-octet class at the end of / inside the
    password and the user id, plus the overlong form of each first character"""
    out = []
    for ins in INVALID[:9]:
        out.append(('invalid-octets', genuine_user, genuine_pw + ins))
        out.append(('invalid-octets', genuine_user + ins, genuine_pw))
    for ins in (b'\xff', b'\xc3', b'\xe2\x82'):
        h = len(genuine_pw) // 2
        out.append(('invalid-octets', genuine_user, genuine_pw[:h] + ins + genuine_pw[h:]))
        out.append(('invalid-octets', ins + genuine_user, genuine_pw))
    if genuine_pw:
        for ol in overlong(genuine_pw[0]):
            out.append(('overlong', genuine_user, ol + genuine_pw[1:]))
    for ol in overlong(genuine_user[0]):
        out.append(('overlong', ol + genuine_user[1:], genuine_pw))
    return out


# -------------------------------------------------------------- transports
def _astring(b: bytes, literal: bool) -> bytes:
    C = _C09()
    if literal or any(c in b for c in b'"\\\r\n\0'):
        return b'{%d+}\r\n%s' % (len(b), b)
    return C.quote(b)


def imap_attempt(rng, lab: str, u: bytes, p: bytes, how: int | None = None):
    C = _C09()
    how = rng.randrange(6) if how is None else how
    if how <= 1:
        return C.Attempt('login', b'LOGIN ' + _astring(u, False) + b' ' + _astring(p, False),
                         creds=(u, p, u), label='LOOKALIKE-LOGIN-quoted:' + lab)
    if how == 2:
        return C.Attempt('login', b'LOGIN ' + _astring(u, True) + b' ' + _astring(p, True),
                         creds=(u, p, u), label='LOOKALIKE-LOGIN-literal:' + lab)
    if how <= 4:
        authz = b'' if rng.random() < 0.7 else u
        return C.Attempt('plain', b'AUTHENTICATE PLAIN', [C.b64(authz + b'\0' + u + b'\0' + p)], None,
                         'LOOKALIKE-PLAIN:' + lab)
    return C.Attempt('sasl_login', b'AUTHENTICATE LOGIN', [C.b64(u), C.b64(p)], None,
                     'LOOKALIKE-SASL-LOGIN:' + lab)


def sieve_attempt(rng, lab: str, u: bytes, p: bytes):
    C = _C09()
    how = rng.randrange(3)
    val = C.b64(b'\0' + u + b'\0' + p)
    if how == 0:
        return C.SAttempt('auth', b'AUTHENTICATE "PLAIN" "%s"' % val, [], None, val, b'PLAIN',
                          'LOOKALIKE-SV-PLAIN-initial:' + lab)
    if how == 1:
        return C.SAttempt('auth', b'AUTHENTICATE "PLAIN"', [val], None, None, b'PLAIN',
                          'LOOKALIKE-SV-PLAIN:' + lab)
    return C.SAttempt('auth', b'AUTHENTICATE "LOGIN"', [C.b64(u), C.b64(p)], None, None, b'LOGIN',
                      'LOOKALIKE-SV-LOGIN:' + lab)


GENUINE = ['testuser', 'bob', 'root', 'Bob', 'one', 'empty', 'carol']


def pairs(rng, n: int) -> list[tuple[str, bytes, bytes]]:
    C = _C09()
    out = []
    for _ in range(n):
        name = rng.choice(GENUINE)
        u, p = name.encode(), C.USERS[name][0].encode()
        if rng.random() < 0.6:
            lab, p2 = near_misses(rng, p, 1)[0]
            out.append((lab + '/secret', u, p2))
        else:
            lab, u2 = near_misses(rng, u, 1)[0]
            out.append((lab + '/user', u2, p))
    return out


def imap_plan(rng, n_seq: int) -> list[tuple[str, list]]:
    """sequences for props/C09.run_imap_sequence: 5 near misses, then the
    genuine LOGIN (must still work on that connection)."""
    C = _C09()
    plan = []
    core = sweep(b'testuser', b'testpass') + sweep(b'bob', b'bobpass')[:12]
    k = 0
    for envname in ('dict_plain', 'maildir'):
        for i in range(0, len(core), 6):
            chunk = core[i:i + 6]
            atts = [imap_attempt(rng, lab, u, p, how=(k + j) % 3) for j, (lab, u, p) in enumerate(chunk)]
            k += 1
            plan.append((envname, atts))
    for i in range(n_seq):
        envname = ('dict_plain', 'maildir', 'dict_limit', 'dict_local_tls')[i % 4]
        atts = [imap_attempt(rng, lab, u, p) for lab, u, p in pairs(rng, 4 if envname == 'dict_limit' else 5)]
        name = rng.choice(GENUINE)
        atts.append(C.Attempt('login', b'LOGIN ' + C.quote(name.encode()) + b' '
                              + C.quote(C.USERS[name][0].encode()),
                              creds=(name.encode(), C.USERS[name][0].encode(), name.encode()),
                              label='LOOKALIKE-genuine'))
        plan.append((envname, atts))
    return plan


def sieve_plan(rng, n_seq: int) -> list[tuple[str, list]]:
    plan = []
    core = sweep(b'testuser', b'testpass')[:18]
    for j in range(0, len(core), 6):
        plan.append((('dict_plain', 'maildir')[(j // 6) % 2],
                     [sieve_attempt(rng, lab, u, p) for lab, u, p in core[j:j + 6]]))
    for i in range(n_seq):
        envname = ('dict_plain', 'maildir')[i % 2]
        plan.append((envname, [sieve_attempt(rng, lab, u, p) for lab, u, p in pairs(rng, 5)]))
    return plan


# ------------------------------------------------------------ utf8 family
def utf8_cases(rng, n_random: int) -> list[bytes]:
    cases = [b'', b'a', b'\x7f', b'\x80', b'\xbf', b'\xc0\x80', b'\xc1\xbf', b'\xc2\x80', b'\xc2', b'\xc2\x7f',
             b'\xc2\xc0', b'\xdf\xbf', b'\xe0\x9f\xbf', b'\xe0\xa0\x80', b'\xe0\xa0', b'\xe1\x80\x80',
             b'\xec\xbf\xbf', b'\xed\x9f\xbf', b'\xed\xa0\x80', b'\xed\xbf\xbf', b'\xee\x80\x80',
             b'\xef\xbf\xbf', b'\xf0\x8f\xbf\xbf', b'\xf0\x90\x80\x80', b'\xf0\x90\x80', b'\xf3\xbf\xbf\xbf',
             b'\xf4\x8f\xbf\xbf', b'\xf4\x90\x80\x80', b'\xf5\x80\x80\x80', b'\xf8\x88\x80\x80\x80',
             b'\xff', b'\xfe', b'a\xe2\x82', b'a\xe2\x82\xac', b'\xe2\x82\xacb', b'a\xf0\x9f\x98\x80b']
    # every lead byte followed by every class of second byte
    for lead in range(0x80, 0x100):
        for second in (0x00, 0x7f, 0x80, 0x8f, 0x90, 0x9f, 0xa0, 0xbf, 0xc0):
            cases.append(bytes([lead, second, 0x80, 0x80]))
            cases.append(bytes([lead, second, 0x80]))
    alphabet = [0x61, 0x80, 0xbf, 0xc2, 0xe0, 0xa0, 0xed, 0x9f, 0xf0, 0x90, 0xf4, 0x8f, 0xff]
    for _ in range(n_random):
        cases.append(bytes(rng.choice(alphabet) for _ in range(rng.randint(1, 7))))
    return cases


def utf8_terms(ctx, n_random: int) -> tuple[list[bytes], list[str]]:
    C = _C09()
    cases = utf8_cases(ctx.rng, n_random)
    terms = []
    for b in cases:
        try:
            b.decode('utf-8')
            ok = True
        except UnicodeDecodeError:
            ok = False
        terms.append(f'({C.ib(b)}, {T.boolean(ok)})')
    return cases, terms
