"""Seeded, state-aware generator of multi-session store traces (labels of
harness/store_env.py).  The next label is drawn knowing the real server's
current views, so that sequence sets hit the interesting positions: the last
message, `*`, one past the end, messages another session has just expunged,
UIDs that no longer exist, ranges spanning them."""
from __future__ import annotations

from .store_env import StoreRun

SYS_FLAGS = [1, 2, 3, 4, 5]


class TraceGen:
    def __init__(self, rng, run: StoreRun, sessions, *, boxes=(1,), idle=True,
                 readonly_sessions=(), weights=None, flipflop: float = 0.0,
                 group: float = 0.0, deliveries: bool = True, plain_deliveries: bool = False) -> None:
        self.rng = rng
        self.run = run
        self.sessions = list(sessions)
        self.boxes = list(boxes)
        self.idle_ok = idle
        self.readonly_sessions = set(readonly_sessions)
        self.next_content = 100
        self.flipflop = flipflop   # share of STOREs that toggle \\Flagged/\\Seen on the first messages
        self.group = group         # probability of starting a "one log record, several uids" episode
        self.queue: list[tuple] = []   # labels of a running episode, executed back to back
        self.deliveries = deliveries   # whether episodes may deliver messages without a connection
        self.plain_deliveries = plain_deliveries   # maildir: an MDA drops a file without flags/info
        self.w = {'append': 9, 'store': 16, 'expunge': 10, 'uidexpunge': 5, 'copy': 5, 'move': 7,
                  'fetch': 14, 'search': 8, 'noop': 10, 'check': 3, 'touch': 2, 'close': 1,
                  'idle': 3, 'select': 2, 'deliver': 2}
        if weights:
            self.w.update(weights)

    # ---- helpers
    def _dead_uids(self, s):
        """uids in the session's view that the mailbox no longer has, and
        uids recently removed from the mailbox"""
        sel = self.run.selected(s)
        if sel is None:
            return []
        mbx = self.run.box(self._boxnum(sel))
        alive = set(mbx._messages)
        dead = [u for u in sel._messages._sorted if u not in alive]
        for ex in mbx._mod_sequences._expunges.values():
            dead.extend(ex)
        return sorted(set(dead))

    def _boxnum(self, sel) -> int:
        from .store_env import BOX_NUM
        return BOX_NUM.get(sel.lookup if sel.lookup != 'inbox' else 'INBOX', 1) \
            if isinstance(sel.lookup, str) else 1

    def seq_set(self, s):
        rng = self.rng
        sel = self.run.selected(s)
        n = len(sel._messages._sorted) if sel is not None else 0
        mbx = self.run.box(self._boxnum(sel)) if sel is not None else None
        hot = []
        if sel is not None:
            alive = set(mbx._messages)
            hot = [i + 1 for i, u in enumerate(sel._messages._sorted) if u not in alive]

        def one():
            r = rng.random()
            if r < 0.22:
                return '*'
            if r < 0.45 and hot:
                return rng.choice(hot)
            if r < 0.55:
                return max(1, n)
            if r < 0.62:
                return n + 1
            if r < 0.66:
                return n + 5
            return rng.randint(1, max(1, n))
        out = []
        for _ in range(1 if rng.random() < 0.6 else rng.randint(2, 3)):
            if rng.random() < 0.45:
                out.append((one(), one()))
            else:
                out.append(one())
        if rng.random() < 0.12:
            out = [(1, '*')]
        return out

    def uid_set(self, s):
        rng = self.rng
        sel = self.run.selected(s)
        view = list(sel._messages._sorted) if sel is not None else []
        dead = self._dead_uids(s)
        mbx = self.run.box(self._boxnum(sel)) if sel is not None else None
        mx = mbx._max_uid if mbx is not None else 104

        def one():
            r = rng.random()
            if r < 0.2:
                return '*'
            if r < 0.45 and dead:
                return rng.choice(dead)
            if r < 0.75 and view:
                return rng.choice(view)
            if r < 0.8:
                return mx + 1
            if r < 0.85:
                return 1
            return rng.randint(100 if mx >= 100 else 1, mx + 2)
        out = []
        for _ in range(1 if rng.random() < 0.6 else rng.randint(2, 3)):
            if rng.random() < 0.45:
                out.append((one(), one()))
            else:
                out.append(one())
        if rng.random() < 0.12:
            out = [(1, '*')]
        return out

    def flags(self, *, store=True):
        rng = self.rng
        r = rng.random()
        if r < 0.45:
            fl = [2]
        elif r < 0.6:
            fl = [5]
        else:
            fl = rng.sample(SYS_FLAGS, rng.randint(0, 3))
        if rng.random() < 0.12:
            fl.append(rng.choice([10, 11]))
        if rng.random() < 0.06:
            fl.append(6)
        return sorted(set(fl))

    def dest_box(self, s):
        rng = self.rng
        r = rng.random()
        sel = self.run.selected(s)
        own = self._boxnum(sel) if sel is not None else 1
        if r < 0.45:
            return own
        if r < 0.85:
            return rng.choice([b for b in (1, 2) if True])
        if r < 0.93:
            return 3
        return 9

    # ---- episodes: one modification-log record that names several uids, then a session that
    #      has not synchronized yet touches only some of them again
    def _episode(self):
        rng = self.rng
        run = self.run
        ready = [s for s in self.sessions if s not in run.idle and run.selected(s) is not None]
        r0 = rng.random()
        if self.plain_deliveries and r0 < 0.35 and ready:
            # maildir: a file delivered from outside (no info part in its name, never flagged),
            # then the housekeeping of CHECK, then somebody else looks
            x = rng.choice(ready)
            box = self._boxnum(run.selected(x))
            self.next_content += 1
            labels = [('deliver', box, [], rng.random() < 0.6, self.next_content)]
            if rng.random() < 0.5:
                labels.append(('cmd', rng.choice(ready), ('noop',)))
            labels.append(('cmd', x, ('check',)))
            labels.append(('cmd', rng.choice(ready), ('noop',)))
            return labels
        if 0.5 <= r0 < 0.75:
            # B expunges a message that is not A's last one; A learns it during a non-UID
            # FETCH/STORE/SEARCH (the expunge stays hidden, A's numbering must not move), then
            # A copies or moves by a sequence number above it
            cands = [s for s in ready if len(run.selected(s)._messages._sorted) >= 3]
            if not cands:
                return []
            a = rng.choice(cands)
            sel_a = run.selected(a)
            box = self._boxnum(sel_a)
            others = [s for s in ready if s != a and self._boxnum(run.selected(s)) == box
                      and not run.selected(s).readonly]
            if not others:
                return []
            b = rng.choice(others)
            view = list(sel_a._messages._sorted)
            k = rng.randint(1, len(view) - 1)
            j = rng.randint(k + 1, len(view))
            uid = view[k - 1]
            hide = rng.choice([('fetch', [(1, '*')], False, False, False),
                               ('store', [j], False, 'add', [5], rng.random() < 0.5),
                               ('search', False, None, [])])
            if hide[0] == 'store' and sel_a.readonly:
                hide = ('fetch', [(1, '*')], False, False, False)
            kind = 'copy' if sel_a.readonly or rng.random() < 0.5 else 'move'
            return [('cmd', b, ('store', [uid], True, 'add', [2], True)),
                    ('cmd', b, ('expunge', [uid])),
                    ('cmd', a, hide),
                    ('cmd', a, (kind, [j] if rng.random() < 0.6 else [(j, '*')], False,
                                self.dest_box(a), None))]
        if r0 < 0.5 or not self.deliveries:
            # A marks 2-3 messages \\Deleted and expunges them with ONE EXPUNGE; B, whose view is
            # stale, then addresses a strict subset of them by UID
            cands = [s for s in ready if not run.selected(s).readonly
                     and len(run.selected(s)._messages._sorted) >= 2]
            if not cands:
                return []
            a = rng.choice(cands)
            sel_a = run.selected(a)
            box = self._boxnum(sel_a)
            others = [s for s in ready if s != a and self._boxnum(run.selected(s)) == box]
            if not others:
                return []
            rw = [s for s in others if not run.selected(s).readonly]
            b = rng.choice(rw or others)
            view = list(sel_a._messages._sorted)
            k = rng.randint(2, min(3, len(view)))
            positions = sorted(rng.sample(range(1, len(view) + 1), k))
            uids = [view[p - 1] for p in positions]
            subset = sorted(rng.sample(uids, rng.randint(1, k - 1)))
            labels = [('cmd', a, ('store', positions, False, 'add', [2], rng.random() < 0.3)),
                      ('cmd', a, ('expunge', None))]
            r = rng.random()
            if r < 0.6:
                labels.append(('cmd', b, ('expunge', subset)))                       # UID EXPUNGE
            elif r < 0.8:
                labels.append(('cmd', b, ('store', subset, True, 'add', [5], rng.random() < 0.5)))
            else:
                labels.append(('cmd', b, ('fetch', subset, True, False, True)))      # sets \\Seen
            return labels
        # two deliveries, one SELECT claims both \\Recent flags in one record, then one of the two
        # messages is changed again
        cands = [s for s in ready if not run.selected(s).readonly]
        if not cands or len(ready) < 2:
            return []
        x = rng.choice(cands)
        box = self._boxnum(run.selected(x))
        self.next_content += 2
        return [('deliver', box, [], True, self.next_content - 1),
                ('deliver', box, [], True, self.next_content),
                ('cmd', x, ('select', box, False)),
                ('cmd', x, ('store', [rng.choice(['*', '*', 1])], False, 'add', [4], False))]

    # ---- main
    def next_label(self):
        rng = self.rng
        run = self.run
        if self.queue:
            return self.queue.pop(0)
        if self.group and rng.random() < self.group:
            self.queue = self._episode()
            if self.queue:
                return self.queue.pop(0)
        # an idling session can only be ended
        s = rng.choice(self.sessions)
        if s in run.idle:
            if rng.random() < 0.5:
                return ('done', s)
            others = [x for x in self.sessions if x not in run.idle]
            if not others:
                return ('done', s)
            s = rng.choice(others)
        sel = run.selected(s)
        if sel is None:
            if rng.random() < 0.85:
                return ('cmd', s, ('select', rng.choice(self.boxes),
                                   s in self.readonly_sessions or rng.random() < 0.1))
            kinds = ['append', 'noop', 'touch', 'fetch']
            k = rng.choice(kinds)
        else:
            kinds = list(self.w)
            k = rng.choices(kinds, weights=[self.w[x] for x in kinds])[0]
        if k == 'idle' and not self.idle_ok:
            k = 'noop'
        if k == 'select':
            return ('cmd', s, ('select', rng.choice(self.boxes + [9] if rng.random() < 0.1 else self.boxes),
                               s in self.readonly_sessions or rng.random() < 0.15))
        if k == 'deliver':
            self.next_content += 1
            return ('deliver', rng.choice(self.boxes), [] if self.plain_deliveries else self.flags(),
                    rng.random() < 0.7, self.next_content)
        if k == 'append':
            msgs = []
            for _ in range(1 if rng.random() < 0.8 else 2):
                self.next_content += 1
                msgs.append((self.flags(), self.next_content))
            return ('cmd', s, ('append', self.dest_box(s) if rng.random() < 0.5 else
                               (self._boxnum(sel) if sel is not None else 1), msgs, None))
        if k == 'store' and rng.random() < self.flipflop:
            # the same flag of the same few messages goes on and off in several sessions:
            # a flag value a session has seen (or silenced) before comes back later
            n = len(sel._messages._sorted) if sel is not None else 1
            return ('cmd', s, ('store', [rng.randint(1, max(1, min(3, n)))], False,
                               rng.choice(['add', 'delete']), [rng.choice([4, 5])],
                               rng.random() < 0.5))
        if k == 'store':
            by_uid = rng.random() < 0.3
            sset = self.uid_set(s) if by_uid else self.seq_set(s)
            return ('cmd', s, ('store', sset, by_uid, rng.choice(['add', 'add', 'delete', 'replace']),
                               self.flags(), rng.random() < 0.35))
        if k == 'expunge':
            return ('cmd', s, ('expunge', None))
        if k == 'uidexpunge':
            return ('cmd', s, ('expunge', self.uid_set(s)))
        if k in ('copy', 'move'):
            by_uid = rng.random() < 0.3
            sset = self.uid_set(s) if by_uid else self.seq_set(s)
            if k == 'move' and sel is not None and sel.readonly:
                k = 'copy'   # MOVE out of a read-only selection is C12's subject (DESIGN §6 row 21)
            return ('cmd', s, (k, sset, by_uid, self.dest_box(s), None))
        if k == 'fetch':
            by_uid = rng.random() < 0.35
            sset = self.uid_set(s) if by_uid else self.seq_set(s)
            return ('cmd', s, ('fetch', sset, by_uid, rng.random() < 0.5, rng.random() < 0.3))
        if k == 'search':
            by_uid = rng.random() < 0.35
            sskey = None
            r = rng.random()
            if r < 0.4 and not by_uid:
                # (in UID SEARCH pymap parses a bare sequence set as a UID set — C13's subject)
                sskey = (self.seq_set(s), False)
            elif r < 0.65:
                sskey = (self.uid_set(s), True)
            fkeys = []
            if rng.random() < 0.5:
                fkeys.append((rng.choice([2, 5, 4, 6]), rng.random() < 0.6))
            return ('cmd', s, ('search', by_uid, sskey, fkeys))
        return ('cmd', s, (k,))
