"""Helpers of the namespace checks (C11, C08): an independent modified-UTF-7
encoder, wire spelling of mailbox names, response classification, the hook on
BaseSession.list_mailboxes, Gallina encoders of namespace programs."""
from __future__ import annotations

import base64
import re

from . import coqterm as T


# ------------------------------------------------------------ modified UTF-7
def mutf7_encode(s: str) -> bytes:
    """RFC 3501 5.1.3, written from the RFC (not pymap's codec)."""
    out = bytearray()
    run: list[str] = []

    def flush() -> None:
        if run:
            raw = ''.join(run).encode('utf-16-be', 'surrogatepass')
            b64 = base64.b64encode(raw).rstrip(b'=').replace(b'/', b',')
            out.extend(b'&' + b64 + b'-')
            run.clear()
    for ch in s:
        o = ord(ch)
        if 0x20 <= o <= 0x7e:
            flush()
            out.extend(b'&-' if ch == '&' else bytes([o]))
        else:
            run.append(ch)
    flush()
    return bytes(out)


def mutf7_decode(b: bytes) -> str:
    out = []
    i = 0
    while i < len(b):
        c = b[i]
        if c == 0x26:
            j = b.index(b'-', i)
            if j == i + 1:
                out.append('&')
            else:
                chunk = b[i + 1:j].replace(b',', b'/')
                chunk += b'=' * (-len(chunk) % 4)
                out.append(base64.b64decode(chunk).decode('utf-16-be', 'surrogatepass'))
            i = j + 1
        else:
            out.append(chr(c))
            i += 1
    return ''.join(out)


def wire_name(s: str) -> bytes:
    """A mailbox name / pattern as a quoted string (always legal: the encoded
    form is printable ASCII)."""
    enc = mutf7_encode(s)
    return b'"' + enc.replace(b'\\', b'\\\\').replace(b'"', b'\\"') + b'"'


# ------------------------------------------------------------ responses
CODES = {b'ALREADYEXISTS': 101, b'NONEXISTENT': 102, b'TRYCREATE': 103, b'CANNOT': 104,
         b'READ-ONLY': 105}
NOCODE_TEXT = {b'Cannot create INBOX.': 100, b'Cannot delete INBOX.': 100,
               b'Cannot rename to INBOX.': 100,
               b'Mailbox has inferior hierarchical names.': 106}


def classify(resp: bytes, tag: bytes, conn=None) -> int:
    """0 OK, 100+k NO (see NsModel.cond), 998 BAD, 999 exception/BYE/none."""
    m = re.search(rb'(?:^|\r\n)' + re.escape(tag) + rb' (OK|NO|BAD)(?: \[([A-Z-]+)[^\]]*\])? ?([^\r\n]*)\r\n',
                  resp)
    if not m:
        return 999
    if m.group(1) == b'OK':
        return 0
    if m.group(1) == b'BAD':
        return 998
    if m.group(2):
        return CODES.get(m.group(2), 150)
    return NOCODE_TEXT.get(m.group(3), 150)


_STATUS = re.compile(rb'\(MESSAGES (\d+) UIDNEXT (\d+) UIDVALIDITY (\d+) MAILBOXID \(([^)]+)\)\)\r\n')


def parse_status(resp: bytes):
    m = _STATUS.search(resp)
    if not m:
        return None
    return {'messages': int(m.group(1)), 'uidnext': int(m.group(2)),
            'uidvalidity': int(m.group(3)), 'mailboxid': m.group(4)}


def parse_mailboxid(resp: bytes):
    m = re.search(rb'\[MAILBOXID \(([^)]+)\)\]', resp)
    return m.group(1) if m else None


def parse_list_wire(resp: bytes, kind: bytes):
    """[(name-bytes-as-sent, attrs)] from the untagged LIST/LSUB lines."""
    out = []
    i = 0
    head = b'* ' + kind + b' ('
    while True:
        i = resp.find(head, i)
        if i < 0:
            return out
        if i and resp[i - 2:i] != b'\r\n':
            i += 1
            continue
        j = resp.index(b')', i)
        attrs = resp[i + len(head):j].split()
        k = j + 2
        # delimiter: "/" or NIL
        if resp[k:k + 3] == b'NIL':
            k += 4
        else:
            k = resp.index(b'"', k + 1) + 2
        # mailbox: literal, quoted or atom
        if resp[k:k + 1] == b'{':
            e = resp.index(b'}', k)
            n = int(resp[k + 1:e].rstrip(b'+'))
            raw = resp[e + 3:e + 3 + n]
            k = e + 3 + n
        elif resp[k:k + 1] == b'"':
            e = k + 1
            buf = bytearray()
            while resp[e:e + 1] != b'"':
                if resp[e:e + 1] == b'\\':
                    e += 1
                buf += resp[e:e + 1]
                e += 1
            raw = bytes(buf)
            k = e + 1
        else:
            e = resp.index(b'\r\n', k)
            raw = resp[k:e]
            k = e
        out.append((raw, attrs))
        i = k


ATTR = {b'Noselect': 1, b'HasChildren': 2, b'HasNoChildren': 3, b'Marked': 4, b'Unmarked': 5}


class ListHook:
    """Records what BaseSession.list_mailboxes returned (the names before the
    response printer's modified-UTF-7 encoding)."""

    def __init__(self) -> None:
        self.last = None
        self._orig = None

    def install(self) -> None:
        from pymap.backend import session as S
        if getattr(S.BaseSession.list_mailboxes, '_verif_hook', None):
            S.BaseSession.list_mailboxes._verif_hook.append(self)
            return
        orig = S.BaseSession.list_mailboxes
        hooks = [self]

        async def wrapped(this, ref_name, filter_, subscribed=False, selected=None):
            ret, upd = await orig(this, ref_name, filter_, subscribed, selected)
            ret = list(ret)
            for h in hooks:
                h.last = [(n, [ATTR.get(a, 9) for a in attrs]) for n, _d, attrs in ret]
            return ret, upd
        wrapped._verif_hook = hooks
        S.BaseSession.list_mailboxes = wrapped


# -------------------------------------------------------------- Gallina
class Interner:
    """names of one case become let-bound identifiers: case files stay small
    (Coq is slow at parsing long numeral lists)"""

    def __init__(self) -> None:
        self.tab: dict = {}

    def name(self, s: str) -> str:
        if s not in self.tab:
            self.tab[s] = f's{len(self.tab)}'
        return self.tab[s]

    def wrap(self, body: str) -> str:
        lets = ''.join(f'let {v} : name := {T.codepoints(s)} in ' for s, v in self.tab.items())
        return f'({lets}{body})'


_INTERN: Interner | None = None


def interning(i: Interner | None) -> None:
    global _INTERN
    _INTERN = i


def enc_name(s: str) -> str:
    if _INTERN is not None:
        return _INTERN.name(s)
    return T.codepoints(s)


_ATTRS = {(3,): 'A3', (2,): 'A2', (1, 2): 'A12', (1, 3): 'A13', (1,): 'A1'}


def enc_attrs(a) -> str:
    return _ATTRS.get(tuple(a)) or T.nlist(a)


def enc_op(op) -> str:
    k = op[0]
    if k in ('create', 'delete', 'subscribe', 'unsubscribe', 'status', 'select', 'append'):
        c = {'create': 'OCreate', 'delete': 'ODelete', 'subscribe': 'OSubscribe',
             'unsubscribe': 'OUnsubscribe', 'status': 'OStatus', 'select': 'OSelect',
             'append': 'OAppend'}[k]
        return f'({c} {enc_name(op[1])})'
    c = {'rename': 'ORename', 'list': 'OList', 'lsub': 'OLsub'}[k]
    return f'({c} {enc_name(op[1])} {enc_name(op[2])})'


def enc_lines(lines) -> str:
    if not lines:
        return '(@nil (name * list N))'
    return T.lst(T.pair(enc_name(n), enc_attrs(a)) for n, a in lines)


def enc_expect(e) -> str:
    cc, lines, st, nid = e
    st_t = 'None' if st is None else f'(Some ({st[0]}, {st[1]}, {st[2]}, {st[3]})%N)'
    nid_t = 'None' if nid is None else f'(Some {nid}%N)'
    return T.pair(T.N(cc), enc_lines(lines), st_t, nid_t)


def enc_mbox(i, msgs, nxt, ro) -> str:
    return f'{{| m_id := {i}%N; m_msgs := {msgs}%N; m_next := {nxt}%N; m_ro := {T.boolean(ro)} |}}'
