"""C14, dict backend: commands issued under a selection that another session has made stale.

The quantifier of C14 ("any command that ends in NO or BAD leaves mailbox contents unchanged",
"a multi-message APPEND is all-or-nothing") also covers commands whose *own* work succeeds and
whose failure comes from the bookkeeping after it: the refresh of the session's selected mailbox
(`BaseSession._load_updates`) when that mailbox has meanwhile been deleted, renamed away, or
deleted and re-created by a second session (missed seeded change C14-7: the refresh raised
MailboxNotFound *after* the messages of an APPEND to another mailbox had been stored).

Every scenario: connection A selects (or examines) mailbox X; connection B makes the selection
stale in one of several ways; A issues one command; the store is looked at through the glass box
before and after that one command.  Monitors are written against the statement only:

* tagged NO / BAD  =>  the contents of every mailbox are unchanged  (no_bad_no_effect)
* APPEND not answered OK  =>  none of its messages is in any mailbox  (multiappend_all_or_nothing)
* MOVE: the multiset of messages over all mailboxes is conserved  (move_conserved)
"""
from __future__ import annotations

import itertools
import re

from . import maildirfs as M
from .pymap_env import DictEnv

NAMES = [b'INBOX', b'boxx', b'boxy', b'boxz']

STALE = {
    'none': [],
    'delete': [b'DELETE boxx'],
    'rename': [b'RENAME boxx boxz'],
    'delete_create': [b'DELETE boxx', b'CREATE boxx'],
    'rename_create': [b'RENAME boxx boxz', b'CREATE boxx'],
    'rename_back': [b'RENAME boxx boxz', b'RENAME boxz boxx'],
}


def _lit(cids) -> bytes:
    out = b''
    for i, c in enumerate(cids):
        m = M.message_bytes(c)
        out += (b' ' if i else b'') + b'{%d+}\r\n' % len(m) + m
    return out


def commands(next_cid):
    """(name, wire bytes without tag and CRLF)"""
    c = next_cid
    return [
        ('append_other_1', b'APPEND boxy ' + _lit([c])),
        ('append_other_3', b'APPEND boxy ' + _lit([c + 1, c + 2, c + 3])),
        ('append_inbox_2', b'APPEND INBOX ' + _lit([c + 4, c + 5])),
        ('append_same_2', b'APPEND boxx ' + _lit([c + 6, c + 7])),
        ('append_renamed_2', b'APPEND boxz ' + _lit([c + 8, c + 9])),
        ('copy_other', b'COPY 1 boxy'),
        ('uid_copy_other', b'UID COPY 1:* boxy'),
        ('move_other', b'MOVE 1 boxy'),
        ('uid_move_other', b'UID MOVE 1:* boxy'),
        ('store', b'STORE 1 +FLAGS (\\Deleted)'),
        ('expunge', b'EXPUNGE'),
        ('close', b'CLOSE'),
        ('noop', b'NOOP'),
        ('create', b'CREATE boxq'),
        ('status_other', b'STATUS boxy (MESSAGES)'),
    ]


def box_state(env) -> dict:
    """name -> sorted [(uid, content id)] for every mailbox of the account (glass box)."""
    mbs = next(iter(env.config.set_cache.values()))[0]
    out = {}
    for name, mbx in mbs._set.items():
        out[name] = sorted((uid, M.cid_of(bytes(m._content))) for uid, m in mbx._messages.items())
    return out


def multiset(st: dict) -> list:
    return sorted(cid for msgs in st.values() for _, cid in msgs)


def status_of(raw: bytes, tag: bytes) -> str:
    m = re.search(rb'(?m)^' + tag + rb' (OK|NO|BAD)\b', raw)
    st = m.group(1).decode() if m else 'NONE'
    if b'* BYE' in raw:
        st += '+BYE'
    return st


async def scenario(readonly: bool, stale: str, cname: str, cid0: int) -> dict:
    env = await DictEnv().start()
    a = await env.login()
    b = await env.login()
    for n in (b'boxx', b'boxy'):
        r = await b.send(b'b0 CREATE ' + n + b'\r\n')
        assert b'b0 OK' in r, r
    r = await b.send(b'b1 APPEND boxx ' + _lit([cid0 + 50, cid0 + 51]) + b'\r\n')
    assert b'b1 OK' in r, r
    r = await a.send(b'a0 ' + (b'EXAMINE' if readonly else b'SELECT') + b' boxx\r\n')
    assert b'a0 OK' in r, r
    for i, line in enumerate(STALE[stale]):
        r = await b.send(b'b%d ' % (i + 2) + line + b'\r\n')
        assert b' OK' in r, (line, r)
    wire = dict(commands(cid0))[cname]
    before = box_state(env)
    raw = await a.send(b'a1 ' + wire + b'\r\n')
    after = box_state(env)
    res = {'readonly': readonly, 'stale': stale, 'cmd': cname,
           'wire': wire[:60].decode('latin-1'), 'status': status_of(raw, b'a1'),
           'before': {k: v for k, v in before.items()}, 'after': {k: v for k, v in after.items()},
           'answer': raw[-300:].decode('latin-1')}
    for c in (a, b):
        try:
            await c.send_eof()
        except Exception:
            pass
    return res


def judge(res: dict) -> list:
    """[(clause, what, obs)]"""
    fails = []
    st = res['status'].split('+')[0]
    changed = res['before'] != res['after']
    where = (f"{'EXAMINE' if res['readonly'] else 'SELECT'} boxx; other session: "
             f"{res['stale']}; then {res['wire']!r}")
    if st in ('NO', 'BAD') and changed:
        fails.append(('no_bad_no_effect',
                      f'{where}: answered {st} but the mailbox contents changed',
                      {'kind': 'no_bad_changed', 'backend': 'dict'}))
    if res['cmd'].startswith('append') and st != 'OK' and \
            multiset(res['after']) != multiset(res['before']):
        fails.append(('multiappend_all_or_nothing',
                      f'{where}: APPEND ended in {res["status"]} yet messages of it are stored',
                      {'kind': 'append_half_applied', 'backend': 'dict'}))
    if 'move' in res['cmd'] and multiset(res['after']) != multiset(res['before']):
        fails.append(('move_conserved',
                      f'{where}: the messages over all mailboxes are {multiset(res["after"])}, '
                      f'before {multiset(res["before"])}',
                      {'kind': 'move_lost_or_duplicated'}))
    return fails


def plan(rng, quick: bool) -> list:
    names = [n for n, _ in commands(0)]
    full = list(itertools.product((False, True), sorted(STALE), names))
    if quick:
        # every (stale kind, command) once, the selection mode drawn
        return [(rng.random() < 0.3, s, c) for s in sorted(STALE) for c in names]
    return full
