"""C08: validation of harness/translate_layout_fx.py.

The real `remove_folder`, `rename_folder` and `_add_folder` of both maildir
layouts are run on a fresh temporary store under the filesystem tracer of
harness/props/C08.py; the case handed to Coq (Namespace/LayoutFxCheck.v)
contains the directory listings of the store (before and after the call, merged)
and every path the call handed to os.* / open.  Coq evaluates the *generated*
touch set (Namespace/LayoutFxGen.v) with those listings and checks that every
observed access is covered by it (a read by TRead/TMut/TMutTree, a mutation by
TMut or below a TMutTree).  So a filesystem call that the translator dropped or
mistranslated shows up as a disagreement.  Uncovered accesses are first given
to the confinement monitor.
"""
from __future__ import annotations

import os
import posixpath
import shutil
import tempfile

from . import coqterm as T
from .layoutgen import s_, sl_

HEADER = ('From PV Require Import Base.Prelude Namespace.PyStr Namespace.PyFs Namespace.Glob '
          'Namespace.NsBase Namespace.ListTree Namespace.NsModel Namespace.MdModel Namespace.Paths '
          'Namespace.LayoutGen Namespace.LayoutSpec Namespace.LayoutFxGen Namespace.LayoutFxCheck.\n')

POOL = ['a', 'b', 'a/b', 'a/c', 'a/b/c', 'b/a', 'ab', 'a/bc', 'x/y/z', 'c', 'a b', 'é/ü', 'A', 'new2',
        'a/new2', 'tmpx']
HOSTILE = ['', '.', '..', '../u2', 'a/../..', 'a//b', '/a', 'a/', 'cur', 'a/tmp', 'a.b', '.a', 'a\x00',
           'x' * 260]


def listings(top: str) -> dict:
    out = {}
    for d, dirs, _files in os.walk(top):
        try:
            out[d] = sorted(os.listdir(d))
        except OSError:
            pass
    return out


def enc_listing(ls: dict) -> str:
    if not ls:
        return '(@nil (pystr * list pystr))'
    return '[' + '; '.join(f'({s_(p)}, {sl_(es)})' for p, es in sorted(ls.items())) + ']'


def below(a: str, b: str) -> bool:
    return b == a or b.startswith(a + '/')


def sec_layout_fx(ctx, jobs, tracer) -> None:
    from pymap.backend.maildir.layout import DefaultLayout, FilesystemLayout
    from pymap.exceptions import NotSupportedError
    from mailbox import Maildir
    rng = ctx.rng
    cases, keep = [], []
    n = ctx.scale(120, 600)
    tracer.install()
    try:
        for k in range(n):
            cls, lay = ((DefaultLayout, 'LPlus'), (FilesystemLayout, 'LFs'))[k % 2]
            base = tempfile.mkdtemp(prefix='b1fx')
            try:
                root = os.path.join(base, 'u1')
                Maildir(root, create=True)
                layout = cls(root, Maildir)
                for name in rng.sample(POOL, rng.randint(0, 6)):
                    try:
                        for i in range(1, name.count('/') + 2):
                            pre = '/'.join(name.split('/')[:i])
                            if not os.path.isdir(layout.get_path(pre, '/')):
                                layout.add_folder(pre, '/')
                    except (OSError, NotSupportedError):
                        pass

                def pick() -> str:
                    return rng.choice(HOSTILE) if rng.random() < 0.2 else rng.choice(POOL)
                r = rng.random()
                if r < 0.4:
                    name = pick()
                    op, term, call = ('remove', name), f'(FxRemove {s_(name)})', \
                        lambda: layout.remove_folder(name, '/')
                elif r < 0.8:
                    a, b = pick(), pick()
                    if below(a, b):
                        b = 'zz/' + b
                    op, term, call = ('rename', a, b), f'(FxRename {s_(a)} {s_(b)})', \
                        lambda: layout.rename_folder(a, b, '/')
                else:
                    parts = rng.choice(POOL).split('/')
                    op, term, call = ('add', parts), f'(FxAdd {sl_(parts)})', \
                        lambda: layout._add_folder(parts)
                if 'INBOX' in op[1:]:
                    continue
                before = listings(root)
                tracer.sandbox = base
                tracer.take()
                tracer.on = True
                refused, exc = False, None
                try:
                    call()
                except NotSupportedError:
                    refused = True
                except (OSError, ValueError) as e:
                    exc = repr(e)[:80]
                finally:
                    tracer.on = False
                    tracer.sandbox = None
                log = tracer.take()
                after = listings(root)
                merged = {p: sorted(set(before.get(p, [])) | set(after.get(p, [])))
                          for p in set(before) | set(after)}
                obs = sorted({(kind == 'w', p) for _fn, kind, p in log})
                # monitor: nothing outside the user's directory, no mutation of the directory itself
                for w, p in obs:
                    np = posixpath.normpath(p)
                    if not (np == root or np.startswith(root + '/')) or (w and np == root):
                        ctx.failure('delete_not_root' if op[0] == 'remove' else 'confined',
                                    f'layout {lay}: {op!r} handed {p!r} to the filesystem '
                                    f'({"mutation" if w else "read"}) with the user directory {root!r}',
                                    {'layout': lay, 'fx_op': list(op)},
                                    {'kind': 'root_itself' if np == root else 'outside_write' if w
                                     else 'outside_read', 'layout': lay})
                obs_t = '(@nil (bool * pystr))' if not obs else \
                    '[' + '; '.join(f'({T.boolean(w)}, {s_(p)})' for w, p in obs) + ']'
                cases.append(f'({lay}, {s_(root)}, {enc_listing(merged)}, {term}, '
                             f'{T.boolean(refused)}, {obs_t})')
                keep.append((lay, op, exc, len(obs)))
                ctx.count(('layout_fx', lay, op), nontrivial=bool(obs))
            finally:
                shutil.rmtree(base, ignore_errors=True)
    finally:
        tracer.sandbox = None
        tracer.on = False
        tracer.uninstall()
    jobs.add('layout_fx', HEADER, 'layout * pystr * listing * fxop * bool * list (bool * pystr)',
             cases, 'chk_fx', lambda i: ctx.disagreement('layout_fx', {'case': repr(keep[i])}),
             shard=100)
