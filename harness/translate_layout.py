"""Fail-closed translator  pymap/backend/maildir/layout.py  ->  Gallina.

Regenerates coq/theories/Namespace/LayoutGen.v from the *current* source of the
pure, name/path computing functions of the maildir layouts

    _BaseLayout._valid_part / _split / _join / get_path
    DefaultLayout._valid_part / _get_subdir / _get_parts / _get_path
    FilesystemLayout._reserved / _valid_part / _get_path
    (+ MailboxSet.delimiter of mailbox.py, MaildirLayout.get, _BaseLayout.__init__/path
       which are only *recognised*: they must have exactly the expected form)

so that Namespace/LayoutGenProofs.v re-proves, on every run of ./check C08, that
the hand-written model (Namespace/MdModel.v valid_part/lsplit, Namespace/Paths.v
get_subdir/get_path) says what the code says now, and that the confinement
theorem holds of the generated definitions.

Every method is resolved along the class's MRO (own definition, else
_BaseLayout's) and emitted once per concrete class C in {Default, Fs} as
`gen_<C>_<method>`; `cls.m(..)`/`self.m(..)` is late bound to C, `super().m(..)`
to the next definition (`gen_<C>_super_<m>`).  An instance method gets the
extra first parameter `root` (= self._path).

Only the constructs listed in `Fn.expr`/`Fn.block` are understood; anything
else raises TranslateError (the check reports it as a broken obligation).
Target vocabulary: Namespace/PyStr.v (str.split, str.join, `in`, os.sep,
len(os.fsencode(..)), pyres) and Namespace/Paths.v (path_join = os.path.join).

Types: str -> pystr (list of code points), _Parts -> list pystr, bool,
int -> N, a character bound by `for ch in <str>` -> N (only under ord()).
"""
from __future__ import annotations

import ast
import os

BASE = '_BaseLayout'
CONCRETE = {'DefaultLayout': 'Default', 'FilesystemLayout': 'Fs'}
ROOTS = {
    'DefaultLayout': ['_valid_part', '_split', '_join', '_get_subdir', '_get_parts',
                      '_get_path', 'get_path'],
    'FilesystemLayout': ['_valid_part', '_split', '_join', '_get_path', 'get_path'],
}
ANNOT = {'str': 'str', '_Parts': 'strlist', 'bool': 'bool'}
COQTY = {'str': 'pystr', 'strlist': 'list pystr', 'bool': 'bool', 'int': 'N', 'char': 'N',
         'strset': 'list pystr'}

# members that are only recognised: their body (docstring removed) must be this
EXPECT = {
    ('MaildirLayout', 'get'): '''
if layout == '++':
    return DefaultLayout(path, maildir_type)
elif layout == 'fs':
    return FilesystemLayout(path, maildir_type)
else:
    raise ValueError(layout)
''',
    (BASE, '__init__'): '''
super().__init__()
self._path = path
self._maildir = maildir_type
''',
    (BASE, 'path'): '''
return self._path
''',
}


class TranslateError(Exception):
    pass


def _fail(node, why: str):
    raise TranslateError(f'layout.py line {getattr(node, "lineno", "?")}: {why}: '
                         f'{ast.dump(node)[:200] if isinstance(node, ast.AST) else node}')


def lit(s: str) -> str:
    if not s:
        return '(@nil N)'
    return '[' + '; '.join(str(ord(c)) for c in s) + ']%N'


def _body(fn) -> list:
    body = list(fn.body)
    if body and isinstance(body[0], ast.Expr) and isinstance(body[0].value, ast.Constant) \
            and isinstance(body[0].value.value, str):
        body = body[1:]
    return body


def _dump(stmts) -> str:
    return '\n'.join(ast.dump(s) for s in stmts)


class Module:
    def __init__(self, src: str, mailbox_src: str) -> None:
        tree = ast.parse(src)
        self.classes: dict[str, ast.ClassDef] = {}
        self.has_parts_alias = False
        self.imports_nse = False
        self.imports_os = False
        for n in tree.body:
            if isinstance(n, ast.ImportFrom):
                if n.module == 'pymap.exceptions' and any(
                        a.name == 'NotSupportedError' and a.asname is None for a in n.names):
                    self.imports_nse = True
                continue
            if isinstance(n, ast.Import):
                for a in n.names:
                    if a.name in ('os', 'os.path') and a.asname is None:
                        self.imports_os = True
                    elif a.asname in ('os',):
                        _fail(n, 'os is rebound')
                continue
            if isinstance(n, ast.Expr) and isinstance(n.value, ast.Constant):
                continue
            if isinstance(n, ast.Assign) and len(n.targets) == 1 \
                    and isinstance(n.targets[0], ast.Name) \
                    and n.targets[0].id in ('__all__', '_MaildirT'):
                continue
            if isinstance(n, ast.AnnAssign) and isinstance(n.target, ast.Name) \
                    and n.target.id == '_Parts':
                if ast.dump(n.value) != ast.dump(ast.parse('Sequence[str]').body[0].value):
                    _fail(n, '_Parts must be Sequence[str]')
                self.has_parts_alias = True
                continue
            if isinstance(n, ast.ClassDef) and n.name not in self.classes and not n.decorator_list:
                self.classes[n.name] = n
                continue
            _fail(n, 'unsupported module-level statement')
        if not (self.has_parts_alias and self.imports_nse and self.imports_os):
            raise TranslateError('layout.py: expected imports of os, NotSupportedError and the '
                                 '_Parts alias')
        for c in (BASE, 'MaildirLayout', *CONCRETE):
            if c not in self.classes:
                raise TranslateError(f'layout.py: class {c} not found')
        # class headers: the MRO this translator assumes
        self._check_bases(BASE, 'MaildirLayout')
        for c in CONCRETE:
            self._check_bases(c, BASE)
        self.members: dict[str, dict[str, ast.AST]] = {}
        for cname in (BASE, *CONCRETE):
            mem: dict[str, ast.AST] = {}
            for n in self.classes[cname].body:
                if isinstance(n, ast.Expr) and isinstance(n.value, ast.Constant):
                    continue
                if isinstance(n, ast.FunctionDef):
                    if n.name in mem:
                        _fail(n, 'member defined twice')
                    mem[n.name] = n
                elif isinstance(n, ast.Assign) and len(n.targets) == 1 \
                        and isinstance(n.targets[0], ast.Name):
                    if n.targets[0].id in mem:
                        _fail(n, 'member defined twice')
                    mem[n.targets[0].id] = n
                else:
                    _fail(n, 'unsupported class member')
            self.members[cname] = mem
        # recognised-only members
        for (cname, mname), want in EXPECT.items():
            fn = None
            for n in self.classes[cname].body:
                if isinstance(n, ast.FunctionDef) and n.name == mname:
                    fn = n
            if fn is None:
                raise TranslateError(f'layout.py: {cname}.{mname} not found')
            if _dump(_body(fn)) != _dump(ast.parse(want).body):
                _fail(fn, f'{cname}.{mname} does not have the expected body')
        for c in CONCRETE:
            for special in ('__init__', 'path', 'get', '__new__', '__init_subclass__',
                            '__getattr__', '__getattribute__'):
                if special in self.members[c]:
                    _fail(self.members[c][special], f'{c} overrides {special}')
        self.delimiter = self._delimiter(mailbox_src)
        self.out: list[str] = []
        self.done: dict[tuple[str, str], 'Fn'] = {}
        self.active: list[tuple[str, str]] = []

    def _check_bases(self, cname: str, base: str) -> None:
        c = self.classes[cname]
        ok = len(c.bases) == 1 and isinstance(c.bases[0], ast.Subscript) \
            and isinstance(c.bases[0].value, ast.Name) and c.bases[0].value.id == base
        kws = [(k.arg, getattr(k.value, 'id', None)) for k in c.keywords]
        if not ok or kws not in ([], [('metaclass', 'ABCMeta')]):
            _fail(c, f'class {cname} must derive from {base}[...] only')

    @staticmethod
    def _delimiter(mailbox_src: str) -> str:
        tree = ast.parse(mailbox_src)
        for n in tree.body:
            if isinstance(n, ast.ClassDef) and n.name == 'MailboxSet':
                for m in n.body:
                    if isinstance(m, ast.FunctionDef) and m.name == 'delimiter':
                        b = _body(m)
                        if len(b) == 1 and isinstance(b[0], ast.Return) \
                                and isinstance(b[0].value, ast.Constant) \
                                and isinstance(b[0].value.value, str) and b[0].value.value:
                            return b[0].value.value
                        _fail(m, 'MailboxSet.delimiter must return a string literal')
        raise TranslateError('mailbox.py: MailboxSet.delimiter not found')

    # ------------------------------------------------------------ resolution
    def resolve(self, ctx: str, name: str, after: str | None = None):
        """(defining class, node) of `name` for an object of class ctx; with
        `after`, the next definition after that class (super())."""
        mro = [ctx, BASE]
        if after is not None:
            mro = mro[mro.index(after) + 1:]
        for c in mro:
            if name in self.members[c]:
                return c, self.members[c][name]
        raise TranslateError(f'layout.py: {ctx}.{name} is not defined by {" or ".join(mro) or "a translated class"}')

    def need(self, ctx: str, name: str, via_super_of: str | None = None) -> 'Fn':
        key = (ctx, name if via_super_of is None else f'super:{via_super_of}:{name}')
        if key in self.done:
            return self.done[key]
        if key in self.active:
            raise TranslateError(f'layout.py: recursion through {key}')
        self.active.append(key)
        definer, node = self.resolve(ctx, name, via_super_of)
        gname = f'gen_{CONCRETE[ctx]}_{"super_" if via_super_of else ""}{name}'
        fn = Fn(self, ctx, definer, node, gname)
        self.active.pop()
        self.done[key] = fn
        self.out.append(fn.text)
        return fn

    def translate(self) -> str:
        head = ['(* GENERATED by harness/translate_layout.py from pymap/backend/maildir/layout.py',
                '   (and MailboxSet.delimiter of mailbox.py).  Do not edit: rewritten by ./check C08',
                '   whenever the source changes. *)',
                'From PV Require Import Base.Prelude Namespace.PyStr Namespace.Glob Namespace.NsBase',
                '     Namespace.ListTree Namespace.NsModel Namespace.MdModel Namespace.Paths.', '',
                f'Definition gen_delimiter : pystr := {lit(self.delimiter)}.', '']
        for c in CONCRETE:
            for m in ROOTS[c]:
                self.need(c, m)
        return '\n'.join(head + self.out)


class Fn:
    """One method translated in the context of a concrete class."""

    def __init__(self, mod: Module, ctx: str, definer: str, node, gname: str) -> None:
        self.mod, self.ctx, self.definer, self.gname = mod, ctx, definer, gname
        self.raises = False
        self.is_attr = isinstance(node, ast.Assign)
        if self.is_attr:
            self.kind = 'attr'
            self.ret = 'strset'
            self.params: list[tuple[str, str]] = []
            self.text = (f'(* {definer}.{node.targets[0].id} *)\n'
                         f'Definition {gname} : list pystr :=\n  {self.strset(node.value)}.\n')
            return
        fn = node
        decos = [getattr(d, 'id', None) for d in fn.decorator_list]
        if decos == ['classmethod']:
            self.kind, first = 'cls', 'cls'
        elif decos == []:
            self.kind, first = 'self', 'self'
        else:
            _fail(fn, 'unsupported decorators')
        a = fn.args
        if a.vararg or a.kwarg or a.defaults or a.kwonlyargs or a.posonlyargs \
                or not a.args or a.args[0].arg != first:
            _fail(fn, 'unsupported signature')
        self.params = []
        self.env: dict[str, str] = {}
        for p in a.args[1:]:
            if not isinstance(p.annotation, ast.Name) or p.annotation.id not in ('str', '_Parts'):
                _fail(fn, f'parameter {p.arg} needs annotation str or _Parts')
            self.params.append((p.arg, ANNOT[p.annotation.id]))
            self.env[p.arg] = ANNOT[p.annotation.id]
        if not isinstance(fn.returns, ast.Name) or fn.returns.id not in ANNOT:
            _fail(fn, 'return annotation must be bool, str or _Parts')
        self.ret = ANNOT[fn.returns.id]
        body = self.block(_body(fn))
        ps = ('' if self.kind == 'cls' else ' (root : pystr)') + \
            ''.join(f' ({n} : {COQTY[t]})' for n, t in self.params)
        rty = COQTY[self.ret]
        if self.raises:
            rty = f'pyres ({rty})'
        self.text = (f'(* {definer}.{fn.name} for a {ctx} *)\n'
                     f'Definition {gname}{ps} : {rty} :=\n{body}.\n')

    # -------------------------------------------------------------- helpers
    def strset(self, n) -> str:
        if isinstance(n, ast.Call) and isinstance(n.func, ast.Name) and n.func.id == 'frozenset' \
                and len(n.args) == 1 and not n.keywords:
            n = n.args[0]
        if isinstance(n, (ast.Tuple, ast.List, ast.Set)) and n.elts and all(
                isinstance(e, ast.Constant) and isinstance(e.value, str) for e in n.elts):
            return '[' + '; '.join(lit(e.value) for e in n.elts) + ']'
        _fail(n, 'expected a tuple / frozenset([...]) of string literals')

    def truth(self, t: str, ty: str, n) -> str:
        if ty == 'bool':
            return t
        if ty in ('str', 'strlist'):
            return f'(negb (is_nil {t}))'
        _fail(n, f'a value of type {ty} is used as a condition')

    def method_call(self, n: ast.Call, allow_raise: bool):
        """cls.m(..) / self.m(..) / super().m(..) -> (term, type, raises) or None."""
        f = n.func
        if not isinstance(f, ast.Attribute) or n.keywords:
            return None
        recv = f.value
        target = None
        if isinstance(recv, ast.Name) and recv.id in ('cls', 'self'):
            if recv.id == 'self' and self.kind != 'self':
                _fail(n, 'self in a classmethod')
            if recv.id == 'cls' and self.kind != 'cls':
                _fail(n, 'cls in an instance method')
            if (self.ctx, f.attr) not in self.mod.done and f.attr not in \
                    {**self.mod.members[self.ctx], **self.mod.members[BASE]}:
                return None
            target = self.mod.need(self.ctx, f.attr)
        elif isinstance(recv, ast.Call) and isinstance(recv.func, ast.Name) \
                and recv.func.id == 'super' and not recv.args and not recv.keywords:
            target = self.mod.need(self.ctx, f.attr, via_super_of=self.definer)
        if target is None:
            return None
        if target.kind == 'attr':
            _fail(n, 'call of a class attribute')
        if target.kind == 'self' and self.kind != 'self':
            _fail(n, 'instance method called from a classmethod')
        if len(n.args) != len(target.params):
            _fail(n, 'wrong number of arguments')
        args = []
        for a, (_pn, pt) in zip(n.args, target.params):
            t, ty = self.expr(a)
            if ty != pt:
                _fail(n, f'argument of type {ty} where {pt} is expected')
            args.append(t)
        if target.raises and not allow_raise:
            _fail(n, 'call of a raising method inside an expression')
        term = '(' + ' '.join([target.gname] + (['root'] if target.kind == 'self' else []) + args) + ')'
        return term, target.ret, target.raises

    # ---------------------------------------------------------- expressions
    def expr(self, n) -> tuple[str, str]:
        if isinstance(n, ast.Name) and isinstance(n.ctx, ast.Load):
            if n.id in self.env:
                return n.id, self.env[n.id]
            _fail(n, 'unknown name')
        if isinstance(n, ast.Constant):
            if isinstance(n.value, str):
                return lit(n.value), 'str'
            if type(n.value) is int and 0 <= n.value < 2 ** 32:
                return f'{n.value}%N', 'int'
            if n.value is True or n.value is False:
                return ('true' if n.value else 'false'), 'bool'
            _fail(n, 'unsupported constant')
        if isinstance(n, ast.List) and not n.elts:
            return '(@nil pystr)', 'strlist'
        if isinstance(n, ast.Attribute):
            d = ast.dump(n)
            if d == ast.dump(ast.parse('os.sep').body[0].value):
                return 'os_sep', 'str'
            if d == ast.dump(ast.parse('self._path').body[0].value) and self.kind == 'self':
                return 'root', 'str'
            if isinstance(n.value, ast.Name) and n.value.id in ('cls', 'self') \
                    and not (n.value.id == 'self' and self.kind != 'self') \
                    and not (n.value.id == 'cls' and self.kind != 'cls'):
                definer, node = self.mod.resolve(self.ctx, n.attr)
                if isinstance(node, ast.Assign):
                    return self.mod.need(self.ctx, n.attr).gname, 'strset'
            _fail(n, 'unsupported attribute')
        if isinstance(n, ast.BoolOp):
            ts = [self.truth(*self.expr(v), v) for v in n.values]
            op = ' && ' if isinstance(n.op, ast.And) else ' || '
            return '(' + op.join(ts) + ')', 'bool'
        if isinstance(n, ast.UnaryOp) and isinstance(n.op, ast.Not):
            t, ty = self.expr(n.operand)
            if ty in ('str', 'strlist'):
                return f'(is_nil {t})', 'bool'
            return f'(negb {self.truth(t, ty, n)})', 'bool'
        if isinstance(n, ast.Compare):
            return self.compare(n)
        if isinstance(n, ast.BinOp) and isinstance(n.op, ast.Add):
            (lt, lty), (rt, rty) = self.expr(n.left), self.expr(n.right)
            if lty == rty == 'str':
                return f'({lt} ++ {rt})', 'str'
            _fail(n, '+ is supported on str only')
        if isinstance(n, ast.Subscript) and isinstance(n.ctx, ast.Load) \
                and isinstance(n.slice, ast.Slice):
            s = n.slice
            t, ty = self.expr(n.value)
            if ty == 'str' and s.upper is None and s.step is None \
                    and isinstance(s.lower, ast.Constant) and type(s.lower.value) is int \
                    and 0 <= s.lower.value <= 16:
                return f'(skipn {s.lower.value} {t})', 'str'
            _fail(n, 'only s[k:] with a small literal k on a str')
        if isinstance(n, ast.Call):
            return self.call(n)
        _fail(n, 'unsupported expression')

    def compare(self, n: ast.Compare) -> tuple[str, str]:
        ops, operands = n.ops, [n.left] + list(n.comparators)
        if len(ops) == 1 and isinstance(ops[0], (ast.In, ast.NotIn)):
            lt, lty = self.expr(operands[0])
            right = operands[1]
            if lty != 'str':
                _fail(n, 'membership test of a non-str')
            if isinstance(right, ast.Tuple):
                t = f'(str_in {lt} {self.strset(right)})'
            else:
                rt, rty = self.expr(right)
                if rty == 'strset':
                    t = f'(str_in {lt} {rt})'
                elif rty == 'str':
                    t = f'(py_contains {lt} {rt})'
                else:
                    _fail(n, f'membership test in a value of type {rty}')
            return (t if isinstance(ops[0], ast.In) else f'(negb {t})'), 'bool'
        if len(ops) == 1 and isinstance(ops[0], (ast.Eq, ast.NotEq)):
            (lt, lty), (rt, rty) = self.expr(operands[0]), self.expr(operands[1])
            if lty == rty == 'str':
                t = f'(str_eqb {lt} {rt})'
            elif lty == rty == 'int':
                t = f'({lt} =? {rt})%N'
            else:
                _fail(n, f'== between {lty} and {rty}')
            return (t if isinstance(ops[0], ast.Eq) else f'(negb {t})'), 'bool'
        sym = {ast.Lt: '<?', ast.LtE: '<=?', ast.Eq: '=?'}
        terms = []
        vals = [self.expr(o) for o in operands]
        if any(ty != 'int' for _t, ty in vals):
            _fail(n, 'ordering comparison of non-integers')
        for i, op in enumerate(ops):
            (a, _), (b, _) = vals[i], vals[i + 1]
            if type(op) in sym:
                terms.append(f'({a} {sym[type(op)]} {b})%N')
            elif isinstance(op, ast.Gt):
                terms.append(f'({b} <? {a})%N')
            elif isinstance(op, ast.GtE):
                terms.append(f'({b} <=? {a})%N')
            elif isinstance(op, ast.NotEq):
                terms.append(f'(negb ({a} =? {b})%N)')
            else:
                _fail(n, 'unsupported comparison operator')
        return ('(' + ' && '.join(terms) + ')' if len(terms) > 1 else terms[0]), 'bool'

    def call(self, n: ast.Call) -> tuple[str, str]:
        f = n.func
        if n.keywords:
            _fail(n, 'keyword arguments')
        if isinstance(f, ast.Name) and f.id == 'ord' and len(n.args) == 1:
            t, ty = self.expr(n.args[0])
            if ty != 'char':
                _fail(n, 'ord() of something that is not a character of a str')
            return t, 'int'
        if isinstance(f, ast.Name) and f.id == 'any' and len(n.args) == 1 \
                and isinstance(n.args[0], ast.GeneratorExp):
            g = n.args[0]
            if len(g.generators) != 1:
                _fail(n, 'nested generator')
            c = g.generators[0]
            if c.ifs or c.is_async or not isinstance(c.target, ast.Name):
                _fail(n, 'unsupported generator')
            it, ity = self.expr(c.iter)
            if ity not in ('str', 'strlist'):
                _fail(n, 'any() over something that is not a str or a list of str')
            v = c.target.id
            if v in self.env:
                _fail(n, 'generator variable shadows a name')
            self.env[v] = 'char' if ity == 'str' else 'str'
            et, ety = self.expr(g.elt)
            del self.env[v]
            if ety != 'bool':
                _fail(n, 'any() of non-boolean elements')
            return f'(existsb (fun {v} => {et}) {it})', 'bool'
        if isinstance(f, ast.Attribute) and ast.dump(f) == ast.dump(
                ast.parse('os.path.join').body[0].value):
            if not n.args:
                _fail(n, 'os.path.join without arguments')
            first, fty = self.expr(n.args[0])
            if fty != 'str':
                _fail(n, 'os.path.join of a non-str')
            rest = n.args[1:]
            if len(rest) == 1 and isinstance(rest[0], ast.Starred):
                t, ty = self.expr(rest[0].value)
                if ty != 'strlist':
                    _fail(n, '*args of os.path.join must be _Parts')
                return f'(path_joins {first} {t})', 'str'
            ts = []
            for r in rest:
                if isinstance(r, ast.Starred):
                    _fail(n, 'os.path.join(a, ..., *b) mixed form')
                t, ty = self.expr(r)
                if ty != 'str':
                    _fail(n, 'os.path.join of a non-str')
                ts.append(t)
            if len(ts) == 1:
                return f'(path_join {first} {ts[0]})', 'str'
            return f'(path_joins {first} [{"; ".join(ts)}])', 'str'
        mc = self.method_call(n, allow_raise=False)
        if mc is not None:
            return mc[0], mc[1]
        if isinstance(f, ast.Attribute) and f.attr in ('split', 'join') and len(n.args) == 1 \
                and not isinstance(n.args[0], ast.Starred):
            rt, rty = self.expr(f.value)
            at, aty = self.expr(n.args[0])
            if f.attr == 'split' and rty == 'str' and aty == 'str':
                return f'(py_split {at} {rt})', 'strlist'
            if f.attr == 'join' and rty == 'str' and aty == 'strlist':
                return f'(py_join {rt} {at})', 'str'
            _fail(n, f'.{f.attr} on {rty} with {aty}')
        _fail(n, 'unsupported call')

    # ----------------------------------------------------------- statements
    def is_raise_nse(self, s) -> bool:
        return isinstance(s, ast.Raise) and s.cause is None and isinstance(s.exc, ast.Call) \
            and isinstance(s.exc.func, ast.Name) and s.exc.func.id == 'NotSupportedError' \
            and len(s.exc.args) == 1 and isinstance(s.exc.args[0], ast.Constant) \
            and not s.exc.keywords

    def wrap(self, t: str) -> str:
        return f'PRet {t}' if self.raises else t

    def fsencode_test(self, n):
        """len(os.fsencode(e)) <op> K  ->  (e term, op, K) or None"""
        if isinstance(n, ast.Compare) and len(n.ops) == 1 \
                and isinstance(n.left, ast.Call) and isinstance(n.left.func, ast.Name) \
                and n.left.func.id == 'len' and len(n.left.args) == 1 and not n.left.keywords:
            inner = n.left.args[0]
            if isinstance(inner, ast.Call) and not inner.keywords and len(inner.args) == 1 \
                    and ast.dump(inner.func) == ast.dump(ast.parse('os.fsencode').body[0].value):
                k = n.comparators[0]
                if not (isinstance(k, ast.Constant) and type(k.value) is int and 0 <= k.value < 2 ** 32):
                    _fail(n, 'len(os.fsencode(..)) must be compared with an integer literal')
                t, ty = self.expr(inner.args[0])
                if ty != 'str':
                    _fail(n, 'os.fsencode of a non-str')
                op = n.ops[0]
                cmp = {ast.Gt: f'({k.value} <? n_)%N', ast.GtE: f'({k.value} <=? n_)%N',
                       ast.Lt: f'(n_ <? {k.value})%N', ast.LtE: f'(n_ <=? {k.value})%N',
                       ast.Eq: f'(n_ =? {k.value})%N'}.get(type(op))
                if cmp is None:
                    _fail(n, 'unsupported comparison of len(os.fsencode(..))')
                return t, cmp
        return None

    def scan_raises(self, stmts) -> bool:
        for s in stmts:
            for x in ast.walk(s):
                if isinstance(x, ast.Raise):
                    return True
                if isinstance(x, ast.Attribute) and x.attr == 'fsencode':
                    return True
                if isinstance(x, ast.Call) and isinstance(x.func, ast.Attribute) \
                        and isinstance(x.func.value, ast.Name) and x.func.value.id in ('cls', 'self'):
                    name = x.func.attr
                    if name in self.mod.members[self.ctx] or name in self.mod.members[BASE]:
                        _d, node = self.mod.resolve(self.ctx, name)
                        if isinstance(node, ast.FunctionDef) and self.mod.need(self.ctx, name).raises:
                            return True
        return False

    def block(self, stmts, top: bool = True) -> str:
        if top:
            self.raises = self.scan_raises(stmts)
        if not stmts:
            _fail(self.gname, 'control can reach the end of the function without return')
        s, rest = stmts[0], stmts[1:]
        if isinstance(s, ast.Pass) or (isinstance(s, ast.Expr) and isinstance(s.value, ast.Constant)
                                        and isinstance(s.value.value, str)):
            return self.block(rest, False)
        if isinstance(s, ast.Return):
            if s.value is None:
                _fail(s, 'bare return')
            if isinstance(s.value, ast.Call):
                mc = self.method_call(s.value, allow_raise=True)
                if mc is not None:
                    t, ty, r = mc
                    if ty != self.ret_type():
                        _fail(s, f'returns {ty}, annotated {self.ret_type()}')
                    return f'  {t}' if r else f'  {self.wrap(t)}'
            t, ty = self.expr(s.value)
            if ty != self.ret_type():
                _fail(s, f'returns {ty}, annotated {self.ret_type()}')
            return f'  {self.wrap(t)}'
        if self.is_raise_nse(s):
            return '  PNotSupported'
        if isinstance(s, ast.If):
            fe = self.fsencode_test(s.test)
            then_ = self.block(list(s.body) + rest, False)
            else_ = self.block(list(s.orelse) + rest, False)
            if fe is not None:
                t, cmp = fe
                return (f'  match fsencode_len {t} with\n  | None => PUnicodeError\n'
                        f'  | Some n_ =>\n  if {cmp}\n  then (\n{then_})\n  else (\n{else_})\n  end')
            tt = self.truth(*self.expr(s.test), s.test)
            return f'  if {tt}\n  then (\n{then_})\n  else (\n{else_})'
        if isinstance(s, ast.Assign) and len(s.targets) == 1 and isinstance(s.targets[0], ast.Name):
            v = s.targets[0].id
            if v in ('cls', 'self', 'root', 'n_') or v.startswith('gen_'):
                _fail(s, 'assignment to a reserved name')
            if isinstance(s.value, ast.Call):
                mc = self.method_call(s.value, allow_raise=True)
                if mc is not None and mc[2]:
                    t, ty, _r = mc
                    self.env[v] = ty
                    return f'  pybind {t} (fun {v} =>\n{self.block(rest, False)})'
            t, ty = self.expr(s.value)
            if ty not in ('str', 'strlist', 'bool'):
                _fail(s, f'local variable of type {ty}')
            self.env[v] = ty
            return f'  let {v} := {t} in\n{self.block(rest, False)}'
        if isinstance(s, ast.For) and not s.orelse and isinstance(s.target, ast.Name) \
                and len(s.body) == 1 and isinstance(s.body[0], ast.If) and not s.body[0].orelse \
                and len(s.body[0].body) == 1 and self.is_raise_nse(s.body[0].body[0]):
            # for x in xs: if cond: raise NotSupportedError  ==  if any(cond for x in xs): raise
            it, ity = self.expr(s.iter)
            if ity != 'strlist':
                _fail(s, 'for over something that is not _Parts')
            v = s.target.id
            if v in self.env:
                _fail(s, 'loop variable shadows a name')
            self.env[v] = 'str'
            ct = self.truth(*self.expr(s.body[0].test), s.body[0].test)
            del self.env[v]
            return (f'  if existsb (fun {v} => {ct}) {it}\n  then PNotSupported\n'
                    f'  else (\n{self.block(rest, False)})')
        _fail(s, 'unsupported statement')

    def ret_type(self) -> str:
        return self.ret


def translate(src: str, mailbox_src: str) -> str:
    return Module(src, mailbox_src).translate()


def paths(repo: str, coq_dir: str):
    return (os.path.join(repo, 'pymap', 'backend', 'maildir', 'layout.py'),
            os.path.join(repo, 'pymap', 'backend', 'maildir', 'mailbox.py'),
            os.path.join(coq_dir, 'theories', 'Namespace', 'LayoutGen.v'))


def regenerate(repo: str, coq_dir: str) -> tuple[bool, str]:
    """Returns (ok, message); writes Namespace/LayoutGen.v only when it changes.
    When the translator refuses the source the previous file is left alone (the
    caller reports the broken obligation)."""
    src_path, mb_path, out_path = paths(repo, coq_dir)
    try:
        text = translate(open(src_path).read(), open(mb_path).read())
    except (TranslateError, SyntaxError, OSError, RecursionError) as exc:
        return False, f'translator harness/translate_layout.py refused {src_path}: {exc}'
    old = open(out_path).read() if os.path.exists(out_path) else None
    if old != text:
        tmp = out_path + f'.{os.getpid()}.tmp'
        with open(tmp, 'w') as f:
            f.write(text)
        os.replace(tmp, out_path)
        return True, 'regenerated'
    return True, 'unchanged'


if __name__ == '__main__':
    import sys
    repo = sys.argv[1] if len(sys.argv) > 1 else '/repo'
    p = paths(repo, '.')
    print(translate(open(p[0]).read(), open(p[1]).read()))
