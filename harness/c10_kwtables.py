"""C10 — maildir folders with their own `dovecot-keywords` tables (round 5).

A maildir folder numbers its keywords itself (`dovecot-keywords`: `<n> <keyword>` lines; the
file-name letter of a keyword is chr(ord('a') + n)).  Two folders may list the same keywords
under different numbers, overlapping or disjoint sets, tables of different length, numbers
with gaps, lines in any order.  COPY / MOVE must deliver a message with the flags it had (as
far as the destination can store them) whatever the two tables are.

This module provides
 * `gen_tables(rng)`: the per-folder tables of one program, one of several shapes (the state
   space dimension the generators of rounds 1-4 lacked: they used one fixed triple of tables
   with three different keyword *sets*);
 * `scenarios()`: a deterministic sweep — every shape of table pair x COPY / UID COPY / MOVE /
   UID MOVE x both directions, messages carrying every keyword of the source table;
 * `dest_flags_cases(ctx)`: `MailboxData._dest_flags` (the letter translation itself) against
   the Gallina model `RefModel/KwTables.v` (`translate`), for all pairs of tables of a sweep and
   all letter strings the source can write.
"""
from __future__ import annotations

from . import coqterm as T
from . import refmodel as R

POOL = [b'$kw0', b'kw1', b'$Forwarded', b'NonJunk', b'$KW0']
FOLDERS = ['INBOX', 'Sent', 'Work']
# programs that mostly deliver, flag, copy and move
WEIGHTS = {'select': 10, 'append': 14, 'store': 16, 'expunge': 3, 'uidexpunge': 2,
           'copy': 20, 'move': 16, 'fetch': 8, 'close': 2, 'noop': 1, 'check': 1,
           'status': 2, 'search': 3, 'create': 1, 'delete': 1, 'rename': 2}


def _numbered(rng, kws, gaps=False):
    """[(number, keyword)] in file line order"""
    nums = list(range(len(kws)))
    if gaps and kws:
        nums = sorted(rng.sample(range(0, 9), len(kws)))
    tab = list(zip(nums, kws))
    if rng.random() < 0.3:
        rng.shuffle(tab)            # the lines of the file need not be sorted
    return tab


def gen_tables(rng) -> tuple[str, dict]:
    """(shape, {folder: [(number, keyword)]})"""
    r = rng.random()
    if r < 0.15:
        return 'default', {n: list(enumerate(k)) for n, k in R.MAILDIR_KEYWORDS.items()}
    gaps = rng.random() < 0.25
    if r < 0.55:
        # the same keyword SET everywhere, numbered differently (order of first use)
        kws = rng.sample(POOL, rng.choice([2, 2, 3, 4]))
        out = {}
        for i, n in enumerate(FOLDERS):
            p = list(kws)
            while p == kws and i > 0:
                rng.shuffle(p)
            out[n] = _numbered(rng, p, gaps)
        return 'permuted', out
    if r < 0.75:
        # overlapping sets of different length
        out = {n: _numbered(rng, rng.sample(POOL, rng.choice([1, 2, 3, 4])), gaps) for n in FOLDERS}
        return 'overlapping', out
    if r < 0.87:
        p = list(POOL)
        rng.shuffle(p)
        cut = sorted(rng.sample(range(1, len(p)), 2))
        parts = [p[:cut[0]], p[cut[0]:cut[1]], p[cut[1]:]]
        return 'disjoint', {n: _numbered(rng, parts[i], gaps) for i, n in enumerate(FOLDERS)}
    # some folders without a file, one a prefix / an extension of another
    kws = rng.sample(POOL, 3)
    out = {'INBOX': _numbered(rng, kws[:rng.choice([1, 2, 3])]), 'Sent': [],
           'Work': _numbered(rng, kws[::-1])}
    if rng.random() < 0.5:
        out['INBOX'], out['Sent'] = out['Sent'], out['INBOX']
    return 'partial', out


# ---- deterministic sweep of table pairs (scenario programs)
PAIRS = [
    # (shape, table of box a, table of box b)
    ('swapped', [(0, b'$kw0'), (1, b'kw1')], [(0, b'kw1'), (1, b'$kw0')]),
    ('rotated', [(0, b'$kw0'), (1, b'kw1'), (2, b'NonJunk')], [(0, b'kw1'), (1, b'NonJunk'), (2, b'$kw0')]),
    ('same_set_gaps', [(0, b'$kw0'), (1, b'kw1')], [(1, b'$kw0'), (4, b'kw1')]),
    ('same_set_unsorted_lines', [(1, b'kw1'), (0, b'$kw0')], [(1, b'$kw0'), (0, b'kw1')]),
    ('same_size_other_set', [(0, b'$kw0'), (1, b'kw1')], [(0, b'NonJunk'), (1, b'$kw0')]),
    ('subset', [(0, b'$kw0'), (1, b'kw1'), (2, b'NonJunk')], [(0, b'kw1')]),
    ('superset', [(0, b'kw1')], [(0, b'$Forwarded'), (1, b'$kw0'), (2, b'kw1')]),
    ('disjoint', [(0, b'$kw0'), (1, b'kw1')], [(0, b'NonJunk'), (1, b'$Forwarded')]),
    ('none_to_some', [], [(0, b'kw1'), (1, b'$kw0')]),
    ('identical', [(0, b'$kw0'), (1, b'kw1')], [(0, b'$kw0'), (1, b'kw1')]),
    ('case_twins', [(0, b'$kw0'), (1, b'$KW0')], [(0, b'$KW0'), (1, b'$kw0')]),
]


def scenarios():
    """[(tables, program)]: boxes 0 (INBOX) and 2 (Work) carry the pair, Sent a third table"""
    from .props.C10 import _app, _sel, _cm, _fetch, _store, ALL
    out = []
    for j, (shape, ta, tb) in enumerate(PAIRS):
        for a, b in ((0, 2), (2, 0)):
            tabs = {'INBOX': ta if a == 0 else tb, 'Work': tb if a == 0 else ta,
                    'Sent': [(0, b'kw1'), (2, b'$kw0')]}
            src = [k for _, k in tabs[FOLDERS[a]]] or [b'kw1']
            prog = [_app(a, [src[0], b'\\Flagged']), _app(a, src + [b'\\Seen']), _app(a, src[-1:]),
                    _app(a, [b'\\Answered']), _sel(a),
                    _cm('copy', [1], b), _cm('copy', [(2, 3)], b, True), _cm('copy', ALL, 1),
                    _store([4], 'add', src[:2]), _cm('move', [1], b),
                    _cm('move', [(1, '*')], b, True), _sel(b), _fetch(ALL, 1),
                    _cm('copy', ALL, a, (j % 2) == 0), _cm('move', [(1, 4)], a, (j % 2) == 1),
                    _sel(a, True), _fetch(ALL, 1)]
            out.append((shape, tabs, prog))
    return out


# ---- MailboxData._dest_flags against RefModel/KwTables.v
HEADER = ('From PV Require Import Base.Prelude RefModel.Flags RefModel.KwTables '
          'RefModel.KwTablesCheck.\nLocal Open Scope N_scope.\n')


def enc_table(tab) -> str:
    return T.lst(T.pair(f'{i}%N', R.enc_flag(k)) for i, k in tab)


def dest_flags_cases(ctx) -> None:
    """the translation of file-name letters on COPY/MOVE, on its own: for every ordered pair
    of tables and every letter string, `src._dest_flags(codes, dst)` read back with the
    destination's table must be what the model's `translate` says (and, monitor, exactly the
    flags the letters meant in the source that the destination can store)."""
    import itertools
    import os
    import shutil
    import tempfile
    import types
    from pymap.backend.maildir.flags import MaildirFlags
    from pymap.backend.maildir.mailbox import MailboxData
    rng = ctx.rng
    tables = []
    for _shape, ta, tb in PAIRS:
        for t in (ta, tb):
            if t not in tables:
                tables.append(t)
    nfix = len(tables)
    for _ in range(ctx.scale(3, 20)):
        for t in gen_tables(rng)[1].values():
            if t not in tables:
                tables.append(t)
    # every ordered pair of the fixed sweep, and a sample of the pairs with generated tables
    pairs = []
    for _shape, ta, tb in PAIRS:
        a, b = tables.index(ta), tables.index(tb)
        pairs += [(a, b), (b, a), (a, a)]
    pairs += [(a, b) for a in range(nfix) for b in range(nfix) if rng.random() < 0.1]
    pairs += [(rng.randrange(len(tables)), rng.randrange(len(tables)))
              for _ in range(ctx.scale(60, 600))]
    d = tempfile.mkdtemp(prefix='pymapverif-')
    try:
        boxes = []
        for tab in tables:
            with open(os.path.join(d, 'dovecot-keywords'), 'w') as f:
                for i, k in tab:
                    f.write(f'{i} {k.decode()}\n')
            boxes.append(types.SimpleNamespace(maildir_flags=MaildirFlags.file_read(d)))
        cases, keep = [], []
        nfail = 0
        for a, b in dict.fromkeys(pairs):
            ta, tb = tables[a], tables[b]
            letters = [chr(ord('a') + i) for i, _ in ta]
            strings = [''.join(c) for n in range(0, 2) for c in itertools.combinations(letters, n)]
            strings += [''.join(letters), 'FT' + ''.join(letters[-1:]) + ',' + ''.join(letters[:1]),
                        'zDRS']
            strings += [''.join(x for x in 'DFRST' + ''.join(letters) if rng.random() < 0.5)
                        for _ in range(2)]
            for codes in dict.fromkeys(strings):
                got = MailboxData._dest_flags(boxes[a], codes, boxes[b])
                back = [R.canon_flag(bytes(f)) for f in boxes[b].maildir_flags.from_maildir(got)]
                meant = {R.canon_flag(bytes(f)) for f in boxes[a].maildir_flags.from_maildir(codes)}
                can = {R.canon_flag(bytes(f)) for f in boxes[b].maildir_flags.permanent_flags}
                ctx.count(('dest_flags', a, b, codes), nontrivial=bool(meant - set(R.SYS5)))
                if set(back) != meant & can and (nfail := nfail + 1) <= 3:
                    ctx.failure('contents',
                                f'maildir: letters {codes!r} (= {sorted(meant)}) of a folder with '
                                f'keyword table {ta} arrive in a folder with table {tb} as '
                                f'{got!r} (= {sorted(back)})',
                                {'backend': 'maildir', 'source_table': [(i, k.decode()) for i, k in ta],
                                 'destination_table': [(i, k.decode()) for i, k in tb],
                                 'letters': codes, 'translated': got,
                                 'call': 'MailboxData._dest_flags(src, letters, dst)'},
                                {'kind': 'maildir_keyword_letters', 'backend': 'maildir'})
                cases.append(T.pair(enc_table(ta), enc_table(tb),
                                    T.lst(f'{ord(c)}%N' for c in codes), R.enc_fset(back)))
                keep.append((ta, tb, codes, got))
        for i in ctx.run_cases('maildir_dest_flags', HEADER,
                               'list (N * flag) * list (N * flag) * list N * fset', cases,
                               'chk_dest_flags')[:3]:
            ta, tb, codes, got = keep[i]
            ctx.disagreement('maildir_dest_flags', {'source_table': repr(ta), 'destination_table': repr(tb),
                                                    'letters': codes, 'translated': got})
    finally:
        shutil.rmtree(d, ignore_errors=True)
