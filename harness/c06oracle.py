"""Oracle tables for the C06 model.

The Gallina model of the command parser (coq/theories/Cmd) does not reproduce
four standard-library functions; it asks an *oracle* (Cmd/Parser.v, `okind`).
For a correspondence case the harness measures the answers with the standard
library itself (never with pymap) for every byte string the model can ask
about — the values of the string-like tokens of the input — and hands them to
Coq as a finite table (Cmd/Check.v, `otable`).  A question that is not in the
table makes the model answer "unknown" and the case is reported, so an
incomplete table can never hide a disagreement.
"""
from __future__ import annotations

import re
from datetime import datetime

from . import coqterm as T

ATOM = re.compile(rb'[\x21\x23\x24\x26\x27\x2B-\x5B\x5E-\x7A\x7C\x7E]+')
ASTRING = re.compile(rb'[\x21\x23\x24\x26\x27\x2B-\x5B\x5D\x5E-\x7A\x7C\x7E]+')
LITERAL = re.compile(rb'~?\{(\d+)(\+?)\}\r?\n')
CHARSET_AT = re.compile(rb'(?i)charset +')


def quoted_at(buf: bytes, pos: int) -> bytes | None:
    """Content of the quoted string whose opening quote is at pos."""
    out = bytearray()
    i = pos + 1
    n = len(buf)
    while i < n:
        c = buf[i]
        if c == 0x22:
            return bytes(out)
        if c in (0x0d, 0x0a):
            return None
        if c == 0x5c:
            if i + 1 < n and buf[i + 1] in (0x5c, 0x22):
                out.append(buf[i + 1])
                i += 2
                continue
            return None
        out.append(c)
        i += 1
    return None


def token_values(bufs: list[bytes]) -> tuple[set[bytes], set[bytes]]:
    """Values an atom / astring / string parse can produce somewhere in the
    buffers (line first, then the continuations): (atoms and quoted strings,
    everything including literal payloads)."""
    small: set[bytes] = set()
    vals: set[bytes] = set()
    conts = bufs[1:]
    for buf in bufs:
        for m in ASTRING.finditer(buf):
            run = m.group(0)
            vals.add(run)
            # a parse may start inside a run only behind one of these
            for sep in (b']', b'\\'):
                for part in run.split(sep):
                    if part:
                        vals.add(part)
            for a in ATOM.finditer(run):
                small.add(a.group(0))
        for i, c in enumerate(buf):
            if c == 0x22:
                q = quoted_at(buf, i)
                if q is not None:
                    small.add(q)
        for m in LITERAL.finditer(buf):
            digits = m.group(1)
            if len(digits) > 4300:
                continue
            n = int(digits)
            if m.group(2):
                if len(buf) - m.end() >= n:
                    vals.add(buf[m.end():m.end() + n])
            else:
                for c in conts:
                    if len(c) >= n:
                        vals.add(c[:n])
    vals |= small
    return small, vals


def charset_candidates(bufs: list[bytes], vals: set[bytes]) -> set[bytes]:
    out: set[bytes] = set()
    for buf in bufs:
        for m in CHARSET_AT.finditer(buf):
            p = m.end()
            rest = buf[p:]
            a = ASTRING.match(rest)
            if a:
                out.add(a.group(0))
            elif rest[:1] == b'"':
                q = quoted_at(buf, p)
                if q is not None:
                    out.add(q)
            else:
                lm = LITERAL.match(rest)
                if lm and len(lm.group(1)) <= 4300:
                    n = int(lm.group(1))
                    if lm.group(2):
                        out.add(rest[lm.end():lm.end() + n])
                    else:
                        for c in bufs[1:]:
                            out.add(c[:n])
    return out


def o_datetime(v: bytes) -> int:
    try:
        datetime.strptime(str(v, 'ascii'), '%d-%b-%Y %X %z')
        return 1
    except ValueError:
        return 0


def o_date(v: bytes) -> int:
    try:
        datetime.strptime(str(v, 'ascii', 'ignore'), '%d-%b-%Y')
        return 1
    except ValueError:
        return 0


def o_charset(v: bytes) -> int:
    try:
        b' '.decode(str(v, 'ascii'))
        return 1
    except LookupError:
        return 0
    except ValueError:
        return 3


def o_decode(charset: bytes, v: bytes) -> int:
    try:
        v.decode(str(charset, 'ascii'))
        return 1
    except (ValueError, LookupError):
        return 0


def build_table(bufs: list[bytes]):
    small, vals = token_values(bufs)
    dates = [(v, o_datetime(v), o_date(v)) for v in sorted(small)]
    charsets = []
    decodes = []
    for c in sorted(charset_candidates(bufs, vals)):
        ans = o_charset(c)
        charsets.append((c, ans))
        if ans == 1:
            for v in sorted(vals):
                decodes.append((c, v, o_decode(c, v)))
    return dates, charsets, decodes


def enc_table(table) -> str:
    dates, charsets, decodes = table
    return ('(mk_table ' + T.lst(T.pair(T.bytes_(v), T.N(a), T.N(b)) for v, a, b in dates) + ' '
            + T.lst(T.pair(T.bytes_(c), T.N(a)) for c, a in charsets) + ' '
            + T.lst(T.pair(T.bytes_(c), T.bytes_(v), T.N(a)) for c, v, a in decodes) + ')')
