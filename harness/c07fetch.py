"""C07, family `fetch_producer`: the model of what builds the FETCH values
(coq/theories/Resp/FetchProducer.v) against pymap/fetch.py + pymap/message.py
+ pymap/mime on hostile messages.

For one message literal the real code is run (MessageContent.parse,
BaseLoadedMessage, MessageAttributes, FetchResponse); recorded are
  * what the stdlib email package decided for the header of every part
    (the oracle of the model), read from ParsedHeaders / ContentTypeHeader;
  * the decoded body of every part with a non-identity transfer encoding;
  * bytes(value) of every real fetch value and the bytes of the FetchResponse.
Coq parses the literal with C03's model under those decisions, builds every
fetch value with the producer model, prints it and compares.
Nothing of pymap is copied: the implementation is imported and called.
"""
from __future__ import annotations

import io

from . import coqterm as T
from . import c07lib as L
from . import mime_c03 as M

HEADER = ('From PV Require Import Base.Prelude Base.Decimal Mime.Lines Mime.Parts Mime.MimeCheck '
          'Resp.Grammar Resp.Printer Resp.Wf Resp.FetchProducer Resp.FetchProducerCheck.\n'
          'From Coq Require Import Init.Byte.\n')
CASE_TYPE = 'fp_case'
CHECKER = 'chk_fetch_producer'


# ===================================================================== encoders
def enc_nat(n: int) -> str:
    if n < 65536:
        return M.enc_off(n)
    return f'(N.to_nat {n}%N)'


def e_optdt(d) -> str:
    return 'None' if d is None else f'(Some {L.e_dt(d)})'


def e_hdrs(hs) -> str:
    """option (list addr_header)"""
    if hs is None:
        return 'None'
    return '(Some ' + T.lst(T.lst(L.e_addr(a) for a in h) for h in hs) + ')'


def e_hdata(h) -> str:
    ct = h['ctype']
    ctype = 'None' if ct is None else \
        f'(Some ({T.codepoints(ct[0])}, {T.codepoints(ct[1])}, {L.e_params(ct[2])}))'
    date = 'None' if h['date'] is None else \
        f'(Some ({T.codepoints(h["date"][0])}, {e_optdt(h["date"][1])}))'
    return ('(Build_hdata ' + ' '.join([
        ctype, L.e_dsp(h['dsp']), L.e_ostr(h['lang']), L.e_ostr(h['loc']), L.e_ostr(h['id']),
        L.e_ostr(h['desc']), L.e_ostr(h['enc']), date, L.e_ostr(h['subject']),
        e_hdrs(h['from']), e_hdrs(h['sender']), e_hdrs(h['reply_to']), e_hdrs(h['to']),
        e_hdrs(h['cc']), e_hdrs(h['bcc']), L.e_ostr(h['irt']), L.e_ostr(h['mid'])]) + ')')


def e_partial(p) -> str:
    return 'None' if p is None else f'(Some ({enc_nat(p[0])}, {enc_nat(p[1])}))'


def e_fattr(a) -> str:
    k = a[0]
    simple = {'uid': 'AUid', 'flags': 'AFlags', 'internaldate': 'AInternalDate',
              'emailid': 'AEmailId', 'threadid': 'AThreadId', 'envelope': 'AEnvelope',
              'bodystructure': 'ABodyStructure', 'body': 'ABody', 'rfc822size': 'ARfc822Size'}
    if k in simple:
        return simple[k]
    if k == 'rfc822':
        return '(ARfc822 ' + {'': 'R822', 'HEADER': 'R822Header', 'TEXT': 'R822Text'}[a[1]] + ')'
    if k == 'section':
        return f'(ABodySection {L.e_section(a[1])} {e_partial(a[2])})'
    if k == 'binary':
        return f'(ABinary {L.e_section(a[1])} {e_partial(a[2])})'
    if k == 'binarysize':
        return f'(ABinarySize {L.e_section(a[1])})'
    raise ValueError(k)


def e_meta(m) -> str:
    thread = 'None' if m['thread'] is None else f'(Some {T.bytes_(m["thread"])})'
    return (f'(Build_msgmeta {T.N(m["uid"])} {L.e_dt(m["date"])} '
            f'{T.lst(T.bytes_(f) for f in m["flags"])} {T.bytes_(m["email"])} {thread})')


def e_case(obs) -> str:
    table = T.lst(f'({enc_nat(k)}, {e_hdata(h)})' for k, h in obs['table'])
    dec = T.lst(f'({enc_nat(k)}, {M.enc_bytes(b)})' for k, b in obs['dec'])
    qs = T.lst(f'({e_fattr(a)}, {M.enc_bytes(b)})' for a, b in obs['items'])
    return (f'({M.enc_bytes(obs["d"])}, {table}, {dec}, {e_meta(obs["meta"])}, {T.N(obs["seq"])}, '
            f'{qs}, {M.enc_bytes(obs["whole"])})')


# ================================================================= observation
def _ostr(h):
    return None if h is None else str(h)


def _addr_headers(hs):
    if hs is None:
        return None
    return [[(a.display_name, a.username, a.domain) for a in h.addresses] for h in hs]


def _first(p, name: bytes):
    """the first parsed header of that name (what the typed properties of
    ParsedHeaders are documented to return), looked up independently of them"""
    try:
        hs = p[name]
    except KeyError:
        return None
    return hs[0] if hs else None


def _all(p, name: bytes):
    try:
        return p[name]
    except KeyError:
        return None


def observe_hdata(node):
    """what stdlib email decided for this part's header: the header objects
    of the HeaderRegistry, looked up by name in ParsedHeaders"""
    p = node.header.parsed
    ct = _first(p, b'content-type')
    ctype = None if ct is None else \
        (str(ct.maintype), str(ct.subtype), [(str(k), str(v)) for k, v in ct.params.items()])
    dh = _first(p, b'date')
    if dh is None:
        date = None
    else:
        when = dh.datetime
        date = (str(dh), None if when is None else L.from_datetime(when))
    cd = _first(p, b'content-disposition')
    dsp = None if cd is None else \
        (None if cd.content_disposition is None else str(cd.content_disposition),
         [(str(k), str(v)) for k, v in cd.params.items()])
    return {'ctype': ctype, 'dsp': dsp, 'lang': _ostr(_first(p, b'content-language')),
            'loc': _ostr(_first(p, b'content-location')), 'id': _ostr(_first(p, b'content-id')),
            'desc': _ostr(_first(p, b'content-description')),
            'enc': _ostr(_first(p, b'content-transfer-encoding')),
            'date': date, 'subject': _ostr(_first(p, b'subject')),
            'from': _addr_headers(_all(p, b'from')), 'sender': _addr_headers(_all(p, b'sender')),
            'reply_to': _addr_headers(_all(p, b'reply-to')), 'to': _addr_headers(_all(p, b'to')),
            'cc': _addr_headers(_all(p, b'cc')), 'bcc': _addr_headers(_all(p, b'bcc')),
            'irt': _ostr(_first(p, b'in-reply-to')), 'mid': _ostr(_first(p, b'message-id'))}


def walk_tree(node, table, dec, undecodable):
    from pymap.mime.cte import MessageDecoder
    hl = node.header._lines
    if hl:
        key = hl[0][0]
        table.append((key, observe_hdata(node)))
        if not M.node_identity(node):
            try:
                dec.append((key, bytes(MessageDecoder.of(node.header).decode(node.body))))
            except Exception:
                undecodable.append(key)
    for s in node.body.nested:
        walk_tree(s, table, dec, undecodable)


def parse_attr(text: bytes):
    """FetchAttribute.parse on the client's text; None if it is refused"""
    from pymap.parsing import Params
    from pymap.parsing.exceptions import NotParseable
    from pymap.parsing.specials.fetchattr import FetchAttribute
    try:
        attr, rest = FetchAttribute.parse(memoryview(text), Params())
    except NotParseable:
        return None
    if bytes(rest).strip():
        return None
    return attr


def attr_ast(attr):
    """a parsed FetchAttribute -> the model's fattr (reads its fields)"""
    name = attr.value
    partial = None if attr.partial is None else (attr.partial.start, attr.partial.length)
    simple = {b'UID': 'uid', b'FLAGS': 'flags', b'INTERNALDATE': 'internaldate',
              b'EMAILID': 'emailid', b'THREADID': 'threadid', b'ENVELOPE': 'envelope',
              b'BODYSTRUCTURE': 'bodystructure', b'RFC822.SIZE': 'rfc822size'}
    if name in simple:
        return (simple[name],)
    if name in (b'RFC822', b'RFC822.HEADER', b'RFC822.TEXT'):
        return ('rfc822', name[7:].decode())
    if name in (b'BODY', b'BODY.PEEK'):
        if attr.section is None:
            return ('body',)
        return ('section', L.c_section(attr.section), partial)
    if name in (b'BINARY', b'BINARY.PEEK'):
        return ('binary', L.c_section(attr.section), partial)
    if name == b'BINARY.SIZE':
        return ('binarysize', L.c_section(attr.section))
    raise ValueError(name)


class _Selected:
    def __init__(self, session_flags) -> None:
        self.session_flags = session_flags


def observe(d: bytes, attr_texts, meta, seq: int):
    """run the real code on literal d; returns the case dict (or None when no
    attribute was accepted) and the list of attributes whose value raised"""
    from pymap.fetch import MessageAttributes
    from pymap.flags import SessionFlags
    from pymap.message import BaseMessage, BaseLoadedMessage
    from pymap.mime import MessageContent
    from pymap.parsing.response.specials import FetchResponse
    from pymap.parsing.specials import FetchRequirement, Flag, ObjectId

    class _Msg(BaseMessage):
        async def load_content(self, requirement):
            raise NotImplementedError

    class _Loaded(BaseLoadedMessage):
        pass

    content = MessageContent.parse(d)
    table, dec, undec = [], [], []
    walk_tree(content, table, dec, undec)
    msg = _Msg(meta['uid'], L.to_datetime(meta['date']), [Flag(f) for f in meta['flags']],
               email_id=ObjectId(meta['email']),
               thread_id=None if meta['thread'] is None else ObjectId(meta['thread']))
    loaded = _Loaded(msg, FetchRequirement.CONTENT, content)
    parsed = {}
    for t in attr_texts:
        a = parse_attr(t)
        if a is not None:
            parsed[a] = a
    attrs = list(parsed.values())
    raised = []
    good = []
    for a in attrs:
        ma = MessageAttributes(msg, _Selected(SessionFlags([])), [a])
        with ma._get_loaded.apply(loaded):
            try:
                good.append((a, bytes(ma[0])))
            except Exception as exc:
                raised.append((bytes(a.raw), repr(exc)))
    if not good:
        return None, raised
    ma = MessageAttributes(msg, _Selected(SessionFlags([])), [a for a, _ in good])
    resp = FetchResponse(seq, ma)
    sink = io.BytesIO()
    with ma._get_loaded.apply(loaded):
        resp.write(sink)
    m2 = dict(meta)
    m2['date'] = L.from_datetime(msg.internal_date)
    obs = {'d': d, 'table': table, 'dec': dec, 'meta': m2, 'seq': seq,
           'items': [(attr_ast(a), b) for a, b in good], 'whole': sink.getvalue(),
           'attr_texts': [bytes(a.raw) for a, _ in good]}
    return obs, raised


# ================================================================== generators
def gen_meta(rng):
    return {'uid': rng.choice([1, 2, 255, 65536, 4294967295, rng.randint(1, 10 ** 6)]),
            'date': _dt_fix(L.gen_dt(rng)),
            'flags': sorted({L.gen_flag(rng) for _ in range(rng.randint(0, 4))}),
            'email': b'M' + bytes(rng.choice(b'0123456789abcdef') for _ in range(32)),
            'thread': None if rng.random() < 0.5 else
            b'T' + bytes(rng.choice(b'0123456789abcdef') for _ in range(rng.randint(1, 32)))}


def _dt_fix(d):
    day, month, year, hh, mm, ss, neg, off = d
    day = max(1, min(day, 28))
    year = max(1, min(year, 9999))
    off = off % 86400
    return (day, max(1, min(month, 12)), year, hh % 24, mm % 60, ss % 60, bool(neg and off > 0), off)


# hostile single-part / structured messages aimed at the decisions of
# _get_body_structure, _get_envelope_structure and the Content-Type dispatch
TARGETED = [
    b'', b'\r\n', b'x', b'Subject: s\r\n\r\nbody\r\n',
    b'Content-Type: TEXT/PLAIN\r\n\r\nhi\r\n',
    b'Content-Type: Text/Html; Charset=UTF-8\r\n\r\n<p>\r\n',
    b'Content-Type: MESSAGE/RFC822\r\n\r\nSubject: in\r\n\r\nx\r\n',
    b'Content-Type: message/RFC822\r\n\r\n',
    b'Content-Type: message/rfc822\r\n',
    b'Content-Type: message/rfc822; x=y\r\nContent-Transfer-Encoding: base64\r\n\r\nU3ViamVjdDogeA0KDQp5\r\n',
    b'Content-Type: message/partial\r\n\r\nx',
    b'Content-Type: message/rfc822x\r\n\r\nSubject: in\r\n\r\nx\r\n',
    b'Content-Type: message/rfc822-headers\r\n\r\nSubject: in\r\n\r\n',
    b'Content-Type: messages/rfc822\r\n\r\nSubject: in\r\n\r\nx',
    b'Content-Type: multiparts/mixed; boundary=b\r\n\r\n--b\r\n\r\na\r\n--b--\r\n',
    b'Content-Type: texts/plain\r\n\r\nx\r\n', b'Content-Type: tex/plain\r\n\r\nx\r\n',
    b'Content-Type: MULTIPART/MIXED; BOUNDARY=b\r\n\r\n--b\r\n\r\na\r\n--b--\r\n',
    b'Content-Type: multipart/mixed\r\n\r\n--b\r\n\r\na\r\n--b--\r\n',
    b'Content-Type: multipart/mixed; boundary=""\r\n\r\n--\r\nx\r\n',
    b'Content-Type: multipart/mixed; boundary=b\r\n\r\nno part here\r\n',
    b'Content-Type: multipart/mixed; boundary=b\r\n\r\n--b\r\n--b\r\n--b--\r\n',
    b'Content-Type: multipart/mixed; boundary=\xe9\r\n\r\n--\xe9\r\n\r\na\r\n',
    b'Content-Type: multipart/; boundary=b\r\n\r\n--b\r\n\r\na\r\n--b--\r\n',
    b'Content-Type: text\r\n\r\nx', b'Content-Type: /plain\r\n\r\nx', b'Content-Type: \r\n\r\nx',
    b'Content-Type: text/plain; =\r\n\r\nx', b'Content-Type: text/plain;;;\r\n\r\nx',
    b'Content-Type: te\xe9t/pl\xe9in\r\n\r\nx', b'Content-Type: "text"/"plain"\r\n\r\nx',
    b'Content-Type: \xc4\xb0mage/\xe2\x84\xaa\r\n\r\nx',
    b'Content-Type: text/plain\r\nContent-Type: image/png\r\n\r\nx',
    b'Content-Type: application/x; a=1; A=2; a=3\r\n\r\nx',
    b'Content-Disposition: \r\n\r\nx', b'Content-Disposition: ;x=y\r\n\r\nx',
    b'Content-Disposition: attachment\r\n\r\nx', b'Content-Disposition: INLINE; FileName=a\r\n\r\nx',
    b'Content-Disposition: attachment; filename*=utf-8\'\'%e2%82%ac\r\n\r\nx',
    b'Content-Transfer-Encoding: \r\n\r\nx', b'Content-Transfer-Encoding: BASE64\r\n\r\naGk=\r\n',
    b'Content-Transfer-Encoding: quoted-printable\r\n\r\n=E2=82=AC=\r\n',
    b'Content-ID: \r\nContent-Description:\r\nContent-Language: \r\nContent-Location:\r\n\r\nx',
    b'Date: \r\n\r\nx', b'Date: garbage\r\n\r\nx', b'Date: Mon, 1 Jan 2001 00:00:00 -0000\r\n\r\nx',
    b'Date: 31 Dec 9999 23:59:59 +2359\r\n\r\nx', b'Date: 1 Jan 0001 00:00:00 -2359\r\n\r\nx',
    b'Date: 1 Jan 01 00:00 +0000\r\nDate: 2 Jan 2002 00:00 +0100\r\n\r\nx',
    b'Date: Thu, 29 Feb 2024 24:00:00 +0000\r\n\r\nx', b'Date: 1 Jan 2020 00:00:60 +0000\r\n\r\nx',
    b'Date: 1 Jan 2020 00:00:00 +9999\r\n\r\nx', b'Date : 1 Jan 2020 00:00:00 +0530\r\n\r\nx',
    b'From: \r\n\r\nx', b'From: <>\r\n\r\nx', b'From: a@b\r\nFrom: c@d\r\n\r\nx',
    b'From: a@b\r\nSender: \r\nReply-To: ,\r\n\r\nx', b'Sender: s@t\r\n\r\nx',
    b'From: undisclosed-recipients:;\r\nTo: g: a@b, c@d;, e@f\r\n\r\nx',
    b'From: "\xe9" <\xe9@\xe9>\r\nTo: =?utf-8?b?4oKs?= <a@b>\r\n\r\nx',
    b'From: (((\r\nTo: "\r\nCc: <\r\nBcc: @\r\n\r\nx', b'From: a@b\r\nFrom: ((\r\n\r\nx',
    b'Subject:\r\nMessage-ID: \r\nIn-Reply-To:\r\n\r\nx',
    b'Subject: ' + b'x' * 70 + b'\r\nSubject: second\r\n\r\nx',
    b'Subject: a\r\n b\r\n\tc\r\n\r\nx', b'Subject: a\rb\x00c"d\\e\r\n\r\nx',
]
CT_SWEEP_BASES = [b'Content-Type: te?t/plain; a=b\r\n\r\nx\r\n', b'Content-Type: text/pl?in\r\n\r\nx\r\n',
                  b'Content-Type: ?essage/rfc822\r\n\r\nS: x\r\n\r\ny',
                  b'Content-Type: multipart/x; boundary=?\r\n\r\n--?\r\n\r\na\r\n--?--\r\n',
                  b'Content-Type: image/x; n?=v\r\n\r\nx', b'Date: 1 Jan 2020 00:00:00 ?0100\r\n\r\nx',
                  b'From: a?b@c\r\n\r\nx', b'Content-Disposition: a?; f=g\r\n\r\nx']

ATTR_TEXTS = [b'FLAGS', b'UID', b'INTERNALDATE', b'ENVELOPE', b'BODYSTRUCTURE', b'BODY',
              b'RFC822.SIZE', b'RFC822', b'RFC822.HEADER', b'RFC822.TEXT', b'EMAILID', b'THREADID',
              b'BODY[]', b'BODY.PEEK[]', b'BODY[TEXT]', b'BODY[HEADER]', b'BODY[1]', b'BODY[1.MIME]',
              b'BODY[1.1]', b'BODY[2]', b'BODY[2.HEADER]', b'BODY[1.HEADER]', b'BODY[1.TEXT]',
              b'BODY[1.1.MIME]', b'BODY[]<0.10>', b'BODY[]<5.1>', b'BODY[TEXT]<100000.5>',
              b'BODY[1.2.3.4.5]', b'BINARY[]', b'BINARY[1]', b'BINARY.PEEK[1]', b'BINARY[]<0.7>',
              b'BINARY[2]<1.3>', b'BINARY.SIZE[]', b'BINARY.SIZE[1]', b'BINARY.SIZE[1.1]',
              b'BODY[0]', b'BODY[MIME]', b'BINARY[TEXT]', b'BINARY.SIZE[]<0.1>', b'body.peek[header]',
              b'BODY[1.HEADER.FIELDS (X)]', b'BODY[HEADER.FIELDS.NOT (To From)]',
              b'BODY[HEADER.FIELDS (subject "a b" DATE)]<2.9>', b'BODY[HEADER.FIELDS ()]',
              b'BODY[1.HEADER.FIELDS.NOT (content-type)]']
ALWAYS = [b'ENVELOPE', b'BODYSTRUCTURE', b'BODY', b'RFC822.SIZE']


def gen_attr_texts(rng):
    k = rng.choice([2, 4, 6, 9])
    return ALWAYS + [rng.choice(ATTR_TEXTS) for _ in range(k)]
