"""C07 helpers: the response AST shared with coq/theories/Resp/Printer.v.

  * encoders   Python AST value        -> Gallina term (resp, body, ...)
  * builders   Python AST value        -> the real pymap response object
  * converters a live pymap response   -> Python AST value (reads the object's
               fields, never its serialised bytes)
  * generators random / hostile ASTs, strings, messages, command programs

AST values are plain tuples whose first element names the constructor of
Printer.v.  str leaves are Python str (any code point, lone surrogates
included), bytes leaves are bytes.
"""
from __future__ import annotations

import datetime as _dt

from . import coqterm as T

# ===================================================================== encode


def e_ostr(s) -> str:
    return 'None' if s is None else f'(Some {T.codepoints(s)})'


def e_pyval(v) -> str:
    if v is None:
        return 'VNone'
    if isinstance(v, (bytes, bytearray)):
        return f'(VBytes {T.bytes_(v)})'
    return f'(VStr {T.codepoints(v)})'


def e_dt(d) -> str:
    day, month, year, hh, mm, ss, neg, off = d
    return (f'(Build_datetime {T.N(day)} {T.N(month)} {T.N(year)} {T.N(hh)} {T.N(mm)} '
            f'{T.N(ss)} {T.boolean(neg)} {T.N(off)})')


def e_addr(a) -> str:
    return f'(Build_addr {T.codepoints(a[0])} {T.codepoints(a[1])} {T.codepoints(a[2])})'


def e_addr_field(f) -> str:
    return 'None' if f is None else f'(Some {T.lst(e_addr(a) for a in f)})'


def e_env(e) -> str:
    date, subject, from_, sender, reply_to, to, cc, bcc, irt, mid = e
    return ('(Build_envelope ' + ' '.join([
        'None' if date is None else f'(Some {e_dt(date)})', e_ostr(subject),
        e_addr_field(from_), e_addr_field(sender), e_addr_field(reply_to),
        e_addr_field(to), e_addr_field(cc), e_addr_field(bcc), e_ostr(irt), e_ostr(mid)]) + ')')


def e_params(p) -> str:
    return T.lst(T.pair(T.codepoints(k), T.codepoints(v)) for k, v in p)


def e_dsp(d) -> str:
    if d is None:
        return 'None'
    disp, params = d
    return f'(Some ({e_ostr(disp)}, {e_params(params)}))'


def e_fields(f) -> str:
    params, id_, desc, enc, size, md5, dsp, lang, loc = f
    return ('(Build_bfields ' + ' '.join([
        e_params(params), e_ostr(id_), e_ostr(desc), e_ostr(enc), T.N(size), e_ostr(md5),
        e_dsp(dsp), e_ostr(lang), e_ostr(loc)]) + ')')


def e_body(b) -> str:
    k = b[0]
    if k == 'multi':
        _, parts, st, p, dsp, lang, loc = b
        return (f'(BMulti {T.lst(e_body(x) for x in parts)} {T.codepoints(st)} {e_params(p)} '
                f'{e_dsp(dsp)} {e_ostr(lang)} {e_ostr(loc)})')
    if k == 'basic':
        _, mt, st, f = b
        return f'(BBasic {T.codepoints(mt)} {T.codepoints(st)} {e_fields(f)})'
    if k == 'text':
        _, st, f, lines = b
        return f'(BText {T.codepoints(st)} {e_fields(f)} {T.N(lines)})'
    if k == 'msg':
        _, f, lines, env, inner = b
        return f'(BMsg {e_fields(f)} {T.N(lines)} {e_env(env)} {e_body(inner)})'
    raise ValueError(k)


def e_section(s) -> str:
    parts, spec, headers = s
    return (f'(Build_fsection {T.nlist(parts)} '
            f'{"None" if spec is None else "(Some " + T.bytes_(spec) + ")"} '
            f'{T.lst(T.bytes_(h) for h in headers)})')


def e_optn(n) -> str:
    return 'None' if n is None else f'(Some {T.N(n)})'


def e_item(i) -> str:
    k = i[0]
    if k == 'uid':
        return f'(FUid {T.N(i[1])})'
    if k == 'flags':
        return f'(FFlags {T.lst(T.bytes_(f) for f in i[1])})'
    if k == 'internaldate':
        return f'(FInternalDate {e_dt(i[1])})'
    if k == 'emailid':
        return f'(FEmailId {T.bytes_(i[1])})'
    if k == 'threadid':
        return f'(FThreadId {"None" if i[1] is None else "(Some " + T.bytes_(i[1]) + ")"})'
    if k == 'envelope':
        return f'(FEnvelope {e_env(i[1])})'
    if k == 'bodystructure':
        return f'(FBodyStructure {e_body(i[1])})'
    if k == 'body':
        return f'(FBody {e_body(i[1])})'
    if k == 'section':
        return f'(FBodySection {e_section(i[1])} {e_optn(i[2])} {T.bytes_(i[3])})'
    if k == 'rfc822':
        kind = {'': 'R822', 'HEADER': 'R822Header', 'TEXT': 'R822Text'}[i[1]]
        return f'(FRfc822 {kind} {T.bytes_(i[2])})'
    if k == 'rfc822size':
        return f'(FRfc822Size {T.N(i[1])})'
    if k == 'binary':
        return f'(FBinary {e_section(i[1])} {e_optn(i[2])} {T.bytes_(i[3])})'
    if k == 'binarysize':
        return f'(FBinarySize {e_section(i[1])} {T.N(i[2])})'
    raise ValueError(k)


def e_code(c) -> str:
    if c is None:
        return 'None'
    k = c[0]
    if k == 'anon':
        s = f'(CAnon {T.bytes_(c[1])})'
    elif k == 'capability':
        s = f'(CCapability {T.lst(T.bytes_(x) for x in c[1])})'
    elif k == 'permanentflags':
        s = f'(CPermanentFlags {T.lst(T.bytes_(x) for x in c[1])})'
    elif k in ('uidnext', 'uidvalidity', 'unseen'):
        s = {'uidnext': 'CUidNext', 'uidvalidity': 'CUidValidity', 'unseen': 'CUnseen'}[k]
        s = f'({s} {T.N(c[1])})'
    elif k == 'appenduid':
        s = f'(CAppendUid {T.N(c[1])} {T.nlist(c[2])})'
    elif k == 'copyuid':
        s = f'(CCopyUid {T.N(c[1])} {T.nlist(c[2])} {T.nlist(c[3])})'
    elif k == 'mailboxid':
        s = f'(CMailboxId {T.bytes_(c[1])})'
    else:
        raise ValueError(k)
    return f'(Some {s})'


_STATUS = {b'MESSAGES': 'SMessages', b'RECENT': 'SRecent', b'UIDNEXT': 'SUidNext',
           b'UIDVALIDITY': 'SUidValidity', b'UNSEEN': 'SUnseen'}


def e_resp(r) -> str:
    k = r[0]
    if k == 'cond':
        _, tag, cond, code, text = r
        t = 'None' if tag is None else f'(Some {T.bytes_(tag)})'
        return f'(RCond {t} {cond} {e_code(code)} {T.bytes_(text)})'
    if k == 'cont':
        return f'(RCont {T.bytes_(r[1])})'
    if k == 'capability':
        return f'(RCapability {T.lst(T.bytes_(x) for x in r[1])})'
    if k == 'flags':
        return f'(RFlags {T.lst(T.bytes_(x) for x in r[1])})'
    if k in ('exists', 'recent', 'expunge'):
        return f'({ {"exists": "RExists", "recent": "RRecent", "expunge": "RExpunge"}[k]} {T.N(r[1])})'
    if k == 'fetch':
        return f'(RFetch {T.N(r[1])} {T.lst(e_item(i) for i in r[2])})'
    if k == 'search':
        return f'(RSearch {T.nlist(r[1])})'
    if k == 'status':
        items = []
        for name, val in r[2]:
            if name == b'MAILBOXID':
                items.append(f'(SMailboxId {T.bytes_(val)})')
            else:
                items.append(f'(SNum {_STATUS[name]} {T.N(val)})')
        return f'(RStatus {T.codepoints(r[1])} {T.lst(items)})'
    if k == 'list':
        _, lsub, name, sep, attrs = r
        sp = 'None' if sep is None else f'(Some {T.codepoints(sep)})'
        return (f'(RList {T.boolean(lsub)} {T.codepoints(name)} {sp} '
                f'{T.lst(T.bytes_(a) for a in attrs)})')
    if k == 'id':
        if r[1] is None:
            return '(RId None)'
        return '(RId (Some ' + T.lst(T.pair(e_pyval(a), e_pyval(b)) for a, b in r[1]) + '))'
    raise ValueError(k)


# ====================================================================== build
class _Hdr(str):
    """stands for a header object: a str with extra attributes"""


class _Obj:
    def __init__(self, **kw) -> None:
        self.__dict__.update(kw)


def to_datetime(d) -> _dt.datetime:
    day, month, year, hh, mm, ss, neg, off = d
    tz = _dt.timezone(_dt.timedelta(seconds=-off if neg else off))
    return _dt.datetime(year, month, day, hh, mm, ss, tzinfo=tz)


def from_datetime(when: _dt.datetime):
    """what DateTime(when) will print from, after its own normalisation"""
    from pymap.parsing.specials import DateTime
    when = DateTime(when).value
    off = when.utcoffset()
    secs = 0 if off is None else off.days * 86400 + off.seconds
    return (when.day, when.month, when.year, when.hour, when.minute, when.second,
            secs < 0, abs(secs))


def b_addr_headers(f, rng=None):
    if f is None:
        return None
    addrs = [_Obj(display_name=a[0], username=a[1], domain=a[2]) for a in f]
    if rng is not None and len(addrs) > 1 and rng.random() < 0.5:
        k = rng.randrange(1, len(addrs))
        return [_Obj(addresses=addrs[:k]), _Obj(addresses=addrs[k:])]
    return [_Obj(addresses=addrs)]


def b_env(e, rng=None):
    from pymap.parsing.response.fetch import EnvelopeStructure
    date, subject, from_, sender, reply_to, to, cc, bcc, irt, mid = e
    dh = None
    if date is not None:
        dh = _Hdr('x')
        dh.datetime = to_datetime(date)
    return EnvelopeStructure(dh, subject, b_addr_headers(from_, rng), b_addr_headers(sender, rng),
                             b_addr_headers(reply_to, rng), b_addr_headers(to, rng),
                             b_addr_headers(cc, rng), b_addr_headers(bcc, rng), irt, mid)


def b_params(p):
    return dict(p) if p else None


def b_dsp(d):
    if d is None:
        return None
    return _Obj(content_disposition=d[0], params=dict(d[1]))


def b_body(b, rng=None):
    from pymap.parsing.response.fetch import MultipartBodyStructure, ContentBodyStructure, \
        TextBodyStructure, MessageBodyStructure
    k = b[0]
    if k == 'multi':
        _, parts, st, p, dsp, lang, loc = b
        return MultipartBodyStructure(st, b_params(p), b_dsp(dsp), lang, loc,
                                      [b_body(x, rng) for x in parts])
    if k == 'basic':
        _, mt, st, f = b
        params, id_, desc, enc, size, md5, dsp, lang, loc = f
        return ContentBodyStructure(mt, st, b_params(params), b_dsp(dsp), lang, loc, id_, desc,
                                    enc, md5, size)
    if k == 'text':
        _, st, f, lines = b
        params, id_, desc, enc, size, md5, dsp, lang, loc = f
        return TextBodyStructure(st, b_params(params), b_dsp(dsp), lang, loc, id_, desc, enc,
                                 md5, size, lines)
    _, f, lines, env, inner = b
    params, id_, desc, enc, size, md5, dsp, lang, loc = f
    return MessageBodyStructure(b_params(params), b_dsp(dsp), lang, loc, id_, desc, enc, md5,
                                size, lines, b_env(env, rng), b_body(inner, rng))


def b_section(s):
    from pymap.parsing.specials import FetchAttribute
    parts, spec, headers = s
    return FetchAttribute.Section(list(parts), spec, frozenset(headers) if headers else None)


def b_item(i, rng=None):
    from pymap.parsing.specials import FetchAttribute, FetchValue, DateTime
    from pymap.parsing.specials.fetchattr import FetchPartial
    from pymap.parsing.primitives import Number, List, Nil, LiteralString
    from pymap.parsing.specials.flag import Flag
    k = i[0]
    A = FetchAttribute
    of = FetchValue.of

    def partial(o):
        if o is None:
            return None
        return FetchPartial(o, rng.choice([1, 7, 1000]) if rng is not None else 5)
    if k == 'uid':
        return of(A(b'UID'), Number(i[1]))
    if k == 'flags':
        return of(A(b'FLAGS'), List([Flag(f) for f in i[1]], sort=True))
    if k == 'internaldate':
        return of(A(b'INTERNALDATE'), DateTime(to_datetime(i[1])))
    if k == 'emailid':
        return of(A(b'EMAILID'), b'(' + i[1] + b')')
    if k == 'threadid':
        return of(A(b'THREADID'), Nil() if i[1] is None else b'(' + i[1] + b')')
    if k == 'envelope':
        return of(A(b'ENVELOPE'), b_env(i[1], rng))
    if k == 'bodystructure':
        return of(A(b'BODYSTRUCTURE'), b_body(i[1], rng).extended)
    if k == 'body':
        return of(A(b'BODY'), b_body(i[1], rng))
    if k == 'section':
        name = b'BODY.PEEK' if rng is not None and rng.random() < 0.5 else b'BODY'
        return of(A(name, b_section(i[1]), partial(i[2])), LiteralString(i[3]))
    if k == 'rfc822':
        name = {'': b'RFC822', 'HEADER': b'RFC822.HEADER', 'TEXT': b'RFC822.TEXT'}[i[1]]
        sec = A.Section([], i[1].encode() or None)
        return of(A(name, sec), LiteralString(i[2]))
    if k == 'rfc822size':
        return of(A(b'RFC822.SIZE'), Number(i[1]))
    if k == 'binary':
        name = b'BINARY.PEEK' if rng is not None and rng.random() < 0.5 else b'BINARY'
        return of(A(name, b_section(i[1]), partial(i[2])), LiteralString(i[3], True))
    if k == 'binarysize':
        return of(A(b'BINARY.SIZE', b_section(i[1])), Number(i[2]))
    raise ValueError(k)


def b_code(c):
    from pymap.parsing.response import ResponseCode
    from pymap.parsing.response.code import Capability, PermanentFlags, UidNext, UidValidity, \
        Unseen, AppendUid, CopyUid, MailboxId
    from pymap.parsing.specials import ObjectId
    from pymap.parsing.specials.flag import Flag
    if c is None:
        return None
    k = c[0]
    if k == 'anon':
        return ResponseCode.of(c[1])
    if k == 'capability':
        return Capability(c[1])
    if k == 'permanentflags':
        return PermanentFlags([Flag(f) for f in c[1]])
    if k == 'uidnext':
        return UidNext(c[1])
    if k == 'uidvalidity':
        return UidValidity(c[1])
    if k == 'unseen':
        return Unseen(c[1])
    if k == 'appenduid':
        return AppendUid(c[1], c[2])
    if k == 'copyuid':
        return CopyUid(c[1], list(zip(c[2], c[3])))
    if k == 'mailboxid':
        return MailboxId(ObjectId(c[1]))
    raise ValueError(k)


def b_resp(r, rng=None):
    from pymap.parsing.response import ResponseOk, ResponseNo, ResponseBad, ResponseBye, \
        ResponsePreAuth, UntaggedResponse, ResponseContinuation
    from pymap.parsing.response.code import Capability
    from pymap.parsing.response.specials import FlagsResponse, ExistsResponse, RecentResponse, \
        ExpungeResponse, FetchResponse, SearchResponse, StatusResponse, ListResponse, \
        LSubResponse, IdResponse
    from pymap.parsing.specials import StatusAttribute
    from pymap.parsing.specials.flag import Flag
    from pymap.parsing.primitives import Number
    k = r[0]
    if k == 'cond':
        _, tag, cond, code, text = r
        cd = b_code(code)
        if tag is None:
            if cond == 'BYE' and (rng is None or rng.random() < 0.5):
                return ResponseBye(text, cd)
            if cond == 'PREAUTH':
                return ResponsePreAuth(b'*', text, cd)
            return UntaggedResponse(text, cd, condition=cond.encode())
        cls = {'OK': ResponseOk, 'NO': ResponseNo, 'BAD': ResponseBad}[cond]
        return cls(tag, text, cd)
    if k == 'cont':
        return ResponseContinuation(r[1])
    if k == 'capability':
        return UntaggedResponse(Capability(r[1]).string)
    if k == 'flags':
        return FlagsResponse([Flag(f) for f in r[1]])
    if k == 'exists':
        return ExistsResponse(r[1])
    if k == 'recent':
        return RecentResponse(r[1])
    if k == 'expunge':
        return ExpungeResponse(r[1])
    if k == 'fetch':
        return FetchResponse(r[1], [b_item(i, rng) for i in r[2]])
    if k == 'search':
        return SearchResponse(list(r[1]))
    if k == 'status':
        data = {}
        for name, val in r[2]:
            data[StatusAttribute(name)] = (b'(' + val + b')') if name == b'MAILBOXID' \
                else Number(val)
        return StatusResponse(r[1], data)
    if k == 'list':
        _, lsub, name, sep, attrs = r
        return (LSubResponse if lsub else ListResponse)(name, sep, list(attrs))
    if k == 'id':
        return IdResponse(None if r[1] is None else dict(r[1]))
    raise ValueError(k)


class _Sink:
    def __init__(self) -> None:
        self.chunks = []

    def write(self, data) -> None:
        self.chunks.append(bytes(data))


def serialise(resp) -> tuple:
    """(bytes(resp), what write() streams, what async_write() streams)"""
    import asyncio
    a = bytes(resp)
    s1 = _Sink()
    resp.write(s1)
    s2 = _Sink()
    asyncio.run(resp.async_write(s2))
    return a, b''.join(s1.chunks), b''.join(s2.chunks)


# ==================================================================== convert
class Unconvertible(Exception):
    pass


_ctor_args = {}   # id(code object) -> constructor arguments (recorded by patches)


def install_recorders() -> None:
    """Response codes keep only their serialised form; remember the
    constructor arguments so that the converter reads values, not bytes."""
    from pymap.parsing.response import code as C
    if getattr(C, '_c07_patched', False):
        return
    C._c07_patched = True

    def wrap(cls):
        orig = cls.__init__

        def __init__(self, *args, **kw):
            args = tuple(list(a) if _is_iter(a) else a for a in args)
            self._c07_args = args
            orig(self, *args, **kw)
        cls.__init__ = __init__
    for name in ('UidNext', 'Unseen', 'CopyUid', 'MailboxId', 'UidValidity', 'AppendUid',
                 'PermanentFlags', 'Capability'):
        wrap(getattr(C, name))


def _is_iter(x) -> bool:
    from pymap.parsing.specials import ObjectId
    return not isinstance(x, (int, bytes, str, ObjectId)) and hasattr(x, '__iter__')


def c_code(code):
    from pymap.parsing.response import _AnonymousResponseCode
    from pymap.parsing.response import code as C
    if code is None:
        return None
    if isinstance(code, _AnonymousResponseCode):
        return ('anon', bytes(code.code))
    args = getattr(code, '_c07_args', None)
    if args is None:
        raise Unconvertible(type(code).__name__)
    if isinstance(code, C.Capability):
        return ('capability', [bytes(c) for c in args[0]])
    if isinstance(code, C.PermanentFlags):
        return ('permanentflags', [bytes(f) for f in args[0]])
    if isinstance(code, C.UidNext):
        return ('uidnext', args[0])
    if isinstance(code, C.UidValidity):
        return ('uidvalidity', args[0])
    if isinstance(code, C.Unseen):
        return ('unseen', args[0])
    if isinstance(code, C.AppendUid):
        return ('appenduid', args[0], list(args[1]))
    if isinstance(code, C.CopyUid):
        pairs = list(args[1])
        return ('copyuid', args[0], [a for a, _ in pairs], [b for _, b in pairs])
    if isinstance(code, C.MailboxId):
        return ('mailboxid', args[0].value)
    raise Unconvertible(type(code).__name__)


def c_ostr(h):
    return None if h is None else str(h)


def c_addr_field(headers):
    if not headers:
        return None
    out = []
    for h in headers:
        for a in h.addresses:
            out.append((a.display_name, a.username, a.domain))
    return out


def c_env(e):
    when = e.date.datetime if e.date else None
    return (from_datetime(when) if when else None, c_ostr(e.subject), c_addr_field(e.from_),
            c_addr_field(e.sender), c_addr_field(e.reply_to), c_addr_field(e.to),
            c_addr_field(e.cc), c_addr_field(e.bcc), c_ostr(e.in_reply_to), c_ostr(e.message_id))


def c_params(p):
    return [(str(k), str(v)) for k, v in p.items()] if p else []


def c_dsp(h):
    if h is None:
        return None
    d = h.content_disposition
    return (None if d is None else str(d), c_params(h.params))


def c_body(b):
    from pymap.parsing.response import fetch as F
    if isinstance(b, F.MultipartBodyStructure):
        return ('multi', [c_body(x) for x in b.parts], str(b.subtype),
                c_params(b.content_type_params), c_dsp(b.content_disposition),
                c_ostr(b.content_language), c_ostr(b.content_location))
    f = (c_params(b.content_type_params), c_ostr(b.content_id), c_ostr(b.content_description),
         c_ostr(b.content_transfer_encoding), b.size, c_ostr(b.body_md5),
         c_dsp(b.content_disposition), c_ostr(b.content_language), c_ostr(b.content_location))
    if isinstance(b, F.MessageBodyStructure):
        return ('msg', f, b.lines, c_env(b.envelope_structure), c_body(b.body_structure))
    if isinstance(b, F.TextBodyStructure):
        return ('text', str(b.subtype) if b.subtype is not None else None, f, b.lines)
    if isinstance(b, F.ContentBodyStructure):
        return ('basic', str(b.maintype), str(b.subtype), f)
    raise Unconvertible(type(b).__name__)


def c_section(sec):
    if sec is None:
        return None
    return (list(sec.parts), sec.specifier or None, sorted(sec.headers) if sec.headers else [])


def c_item(v):
    """one FetchValue -> AST item; must run while the message is loaded"""
    from pymap import fetch as PF
    from pymap.parsing.specials.fetchattr import _StaticFetchValue
    from pymap.parsing.primitives import Number, List, Nil
    attr = v.attribute
    name = attr.value
    origin = attr.partial.start if attr.partial is not None else None
    if isinstance(v, _StaticFetchValue):
        val = v._value
        if name == b'UID' and isinstance(val, Number):
            return ('uid', val.value)
        if name == b'FLAGS' and isinstance(val, List):
            return ('flags', [bytes(f) for f in val.items])
        raise Unconvertible('static ' + name.decode())
    if isinstance(v, PF._UidFetchValue):
        return ('uid', v.message.uid)
    if isinstance(v, PF._FlagsFetchValue):
        return ('flags', [bytes(f) for f in v.message.get_flags(v.selected.session_flags)])
    if isinstance(v, PF._InternalDateFetchValue):
        return ('internaldate', from_datetime(v.message.internal_date))
    if isinstance(v, PF._EmailIdFetchValue):
        return ('emailid', v.message.email_id.value)
    if isinstance(v, PF._ThreadIdFetchValue):
        try:
            return ('threadid', v.message.thread_id.value)
        except ValueError:
            return ('threadid', None)
    loaded = v._get_loaded.loaded_msg
    if loaded is None:
        raise Unconvertible('not loaded')
    if isinstance(v, PF._EnvelopeFetchValue):
        return ('envelope', c_env(loaded.get_envelope_structure()))
    if isinstance(v, PF._BodyStructureFetchValue):
        return ('bodystructure', c_body(loaded.get_body_structure()))
    if isinstance(v, PF._RFC822SizeFetchValue):
        return ('rfc822size', loaded.get_size())
    if isinstance(v, PF._BinarySizeFetchValue):
        data = v._get_data(attr.section, attr.partial, loaded, binary=True)
        return ('binarysize', c_section(attr.section), len(data))
    if isinstance(v, PF._BinaryFetchValue):
        data = v._get_data(attr.section, attr.partial, loaded, binary=True)
        return ('binary', c_section(attr.section), origin, bytes(data))
    if isinstance(v, PF._BodyFetchValue):
        if attr.section is None:
            return ('body', c_body(loaded.get_body_structure()))
        data = bytes(v._get_data(attr.section, attr.partial, loaded))
        if name.startswith(b'RFC822'):
            return ('rfc822', name[7:].decode(), data)
        return ('section', c_section(attr.section), origin, data)
    raise Unconvertible(type(v).__name__)


def c_resp(resp, fetch_items=None) -> list:
    """a live Response -> list of AST responses (a CommandResponse carries its
    untagged responses).  `fetch_items`: {id(FetchResponse): items} recorded
    while each was written (its message content is only loaded then)."""
    from pymap.parsing import response as R
    from pymap.parsing.response import specials as S
    out = []
    if isinstance(resp, R.CommandResponse):
        for u in resp._untagged:
            out.extend(c_resp(u, fetch_items))
    out.append(c_one(resp, fetch_items))
    return out


def c_one(resp, fetch_items=None):
    from pymap.parsing import response as R
    from pymap.parsing.response import specials as S
    if isinstance(resp, S.FetchResponse):
        items = (fetch_items or {}).get(id(resp))
        if items is None:
            items = [c_item(v) for v in resp.data.values()]
        return ('fetch', resp.seq, items)
    if isinstance(resp, S.FlagsResponse):
        return ('flags', [bytes(f) for f in resp.flags])
    if isinstance(resp, S.ExistsResponse):
        return ('exists', resp.num)
    if isinstance(resp, S.RecentResponse):
        return ('recent', resp.num)
    if isinstance(resp, S.ExpungeResponse):
        return ('expunge', resp.seq)
    if isinstance(resp, S.SearchResponse):
        return ('search', list(resp.seqs))
    if isinstance(resp, S.StatusResponse):
        items = []
        for attr, val in resp.data.items():
            name = bytes(attr)
            if name == b'MAILBOXID':
                raw = bytes(val)
                items.append((name, raw[1:-1]))
            else:
                items.append((name, val.value))
        return ('status', resp.name, items)
    if isinstance(resp, S.ListResponse):
        return ('list', isinstance(resp, S.LSubResponse), resp.mailbox, resp.sep,
                [bytes(a) for a in resp.attrs])
    if isinstance(resp, S.IdResponse):
        p = resp.parameters
        return ('id', None if p is None else [(bytes(k), bytes(v)) for k, v in p.items()])
    if isinstance(resp, R.ResponseContinuation):
        return ('cont', bytes(resp._text))
    cond = resp.condition
    if cond is None:
        text = bytes(resp._text)
        if isinstance(resp, R.UntaggedResponse) and text.startswith(b'CAPABILITY IMAP4rev1'):
            caps = text.split(b' ')[2:]
            return ('capability', caps)
        raise Unconvertible('untagged text ' + repr(text[:30]))
    tag = None if resp.tag == b'*' else resp.tag
    return ('cond', tag, cond.decode(), c_code(resp.code), bytes(resp._text))


# =================================================================== generate
HOSTILE_CHARS = ['"', '\\', '\r', '\n', '\x00', '\t', ' ', '(', ')', '{', '}', '[', ']', '%', '*',
                 '&', '-', '+', ',', '/', '.', '~', '\x7f', '\x1b', '\x80', '\xe9', '\xff',
                 '€', 'ı', ' ', '\ud800', '\udfff', '\U0001f600', '\U0010ffff',
                 'a', 'B', '7', '=', '?', ':', ';', '<', '>', '@', "'", '!', '#', '|', '^', '_', '`']


def gen_str(rng, maxlen=12, long_ok=True) -> str:
    r = rng.random()
    if r < 0.1:
        return ''
    if r < 0.3:
        return ''.join(rng.choice('abcXYZ019') for _ in range(rng.randint(1, maxlen)))
    if long_ok and r < 0.38:
        n = rng.choice([62, 63, 64, 65, 100])
        base = ''.join(rng.choice('abcdefg hij') for _ in range(n))
        if rng.random() < 0.4:
            k = rng.randrange(n)
            base = base[:k] + rng.choice(HOSTILE_CHARS) + base[k + 1:]
        return base
    if r < 0.5:
        return rng.choice(['INBOX', 'inbox', 'Inbox', 'NIL', 'nil', '""', '{3}', '~{3}',
                           '\\Seen', 'text', 'TEXT', 'message', 'rfc822', 'MESSAGE', 'Text',
                           '=?utf-8?q?x?=', ']', '[ALERT]', 'a]b', '&-', '&', 'a&b', '&AOk-'])
    n = rng.randint(1, maxlen)
    return ''.join(rng.choice(HOSTILE_CHARS) if rng.random() < 0.6 else rng.choice('abc xyz')
                   for _ in range(n))


def gen_bytes(rng, maxlen=12) -> bytes:
    r = rng.random()
    if r < 0.1:
        return b''
    if r < 0.3:
        return bytes(rng.choice(b'abcXYZ019') for _ in range(rng.randint(1, maxlen)))
    if r < 0.4:
        n = rng.choice([62, 63, 64, 65, 200])
        return bytes(rng.choice(b'abcdefg hij\r\n') for _ in range(n))
    return bytes(rng.randrange(256) if rng.random() < 0.5 else rng.choice(b'"\\\r\n\x00 (){}a')
                 for _ in range(rng.randint(1, maxlen)))


def gen_ostr(rng):
    return None if rng.random() < 0.3 else gen_str(rng)


def gen_atom(rng) -> bytes:
    return bytes(rng.choice(b'abcXYZ019$-_.=+') for _ in range(rng.randint(1, 8)))


def gen_flag(rng, perm=False) -> bytes:
    r = rng.random()
    if perm and r < 0.1:
        return b'\\*'
    if r < 0.5:
        return rng.choice([b'\\Seen', b'\\Answered', b'\\Deleted', b'\\Draft', b'\\Flagged',
                           b'\\Recent', b'\\Xyz'])
    return rng.choice([b'$Junk', b'kw', b'a.b', b'NIL', b'x[y', b'~', b'+'] + [gen_atom(rng)])


def _shuffled(rng, items) -> list:
    out = sorted(items)
    rng.shuffle(out)
    return out


def gen_dt(rng):
    return (rng.randint(1, 28), rng.randint(1, 12),
            rng.choice([1, 9, 99, 999, 1000, 1970, 2024, 9999]) if rng.random() < 0.5
            else rng.randint(1, 9999),
            rng.randint(0, 23), rng.randint(0, 59), rng.randint(0, 59), rng.random() < 0.5,
            rng.choice([0, 59, 60, 3600, 19800, 86399, 30, 3630]) if rng.random() < 0.6
            else rng.randint(0, 86399))


def gen_addr(rng):
    return (gen_str(rng, 8), gen_str(rng, 6), gen_str(rng, 8))


def gen_addr_field(rng):
    r = rng.random()
    if r < 0.35:
        return None
    if r < 0.45:
        return []
    return [gen_addr(rng) for _ in range(rng.randint(1, 3))]


def gen_env(rng):
    return (gen_dt(rng) if rng.random() < 0.6 else None, gen_ostr(rng), gen_addr_field(rng),
            gen_addr_field(rng), gen_addr_field(rng), gen_addr_field(rng), gen_addr_field(rng),
            gen_addr_field(rng), gen_ostr(rng), gen_ostr(rng))


def gen_params(rng):
    if rng.random() < 0.4:
        return []
    d = {}
    for _ in range(rng.randint(1, 3)):
        d[gen_str(rng, 6)] = gen_str(rng, 8)
    return list(d.items())


def gen_dsp(rng):
    r = rng.random()
    if r < 0.4:
        return None
    if r < 0.5:
        return (None, gen_params(rng))
    return (gen_str(rng, 10), gen_params(rng))


def gen_fields(rng):
    return (gen_params(rng), gen_ostr(rng), gen_ostr(rng), gen_ostr(rng),
            rng.choice([0, 1, 9, 10, 123456]), gen_ostr(rng), gen_dsp(rng), gen_ostr(rng),
            gen_ostr(rng))


def _ci(s: str, w: str) -> bool:
    return len(s) == len(w) and all(
        (chr(ord(a) - 32) if 'a' <= a <= 'z' else a) == b for a, b in zip(s, w))


def gen_body(rng, depth=0):
    r = rng.random()
    if depth < 4 and r < 0.3:
        n = rng.choice([0, 1, 1, 2, 3])
        return ('multi', [gen_body(rng, depth + 1) for _ in range(n)], gen_str(rng, 8),
                gen_params(rng), gen_dsp(rng), gen_ostr(rng), gen_ostr(rng))
    if depth < 4 and r < 0.4:
        return ('msg', gen_fields(rng), rng.randint(0, 99), gen_env(rng), gen_body(rng, depth + 1))
    if r < 0.65:
        return ('text', gen_str(rng, 8), gen_fields(rng), rng.randint(0, 99))
    while True:
        mt, st = gen_str(rng, 8), gen_str(rng, 8)
        if not _ci(mt, 'TEXT') and not (_ci(mt, 'MESSAGE') and _ci(st, 'RFC822')):
            return ('basic', mt, st, gen_fields(rng))


def gen_section(rng, binary=False):
    parts = [rng.choice([1, 2, 10, 99]) for _ in range(rng.choice([0, 0, 1, 2, 3]))]
    if binary:
        return (parts, None, [])
    r = rng.random()
    if r < 0.3:
        return (parts, None, [])
    if r < 0.5:
        return (parts, rng.choice([b'HEADER', b'TEXT']), [])
    if r < 0.6 and parts:
        return (parts, b'MIME', [])
    hs = _shuffled(rng, {gen_bytes(rng, 8).upper() for _ in range(rng.randint(1, 3))})
    return (parts, rng.choice([b'HEADER.FIELDS', b'HEADER.FIELDS.NOT']), hs)


def gen_oid(rng) -> bytes:
    return bytes(rng.choice(b'abcXYZ019_-') for _ in range(rng.choice([1, 5, 33, 255])))


def gen_item(rng):
    k = rng.choice(['uid', 'flags', 'internaldate', 'emailid', 'threadid', 'envelope',
                    'bodystructure', 'body', 'section', 'rfc822', 'rfc822size', 'binary',
                    'binarysize'])
    if k == 'uid':
        return (k, rng.choice([1, 9, 10, 4294967295]))
    if k == 'flags':
        return (k, _shuffled(rng, {gen_flag(rng) for _ in range(rng.randint(0, 4))}))
    if k == 'internaldate':
        return (k, gen_dt(rng))
    if k == 'emailid':
        return (k, gen_oid(rng))
    if k == 'threadid':
        return (k, None if rng.random() < 0.3 else gen_oid(rng))
    if k == 'envelope':
        return (k, gen_env(rng))
    if k in ('bodystructure', 'body'):
        return (k, gen_body(rng))
    if k == 'section':
        return (k, gen_section(rng), rng.choice([None, 0, 5, 10 ** 12]), gen_bytes(rng, 30))
    if k == 'rfc822':
        return (k, rng.choice(['', 'HEADER', 'TEXT']), gen_bytes(rng, 30))
    if k == 'rfc822size':
        return (k, rng.choice([0, 5, 10 ** 10]))
    if k == 'binary':
        return (k, gen_section(rng, True), rng.choice([None, 0, 7]), gen_bytes(rng, 30))
    return (k, gen_section(rng, True), rng.choice([0, 5, 100]))


TEXTS = [b'done', b'NOOP completed.', b'Server ready localhost', b'[X: Unknown command.',
         b'a', b'x]y', b'Expected "DONE".', b'\x01\x7f text', b'Caf\x09 tab']
ANON = [b'READ-ONLY', b'READ-WRITE', b'TRYCREATE', b'NONEXISTENT', b'ALREADYEXISTS', b'CANNOT',
        b'EXPUNGEISSUED', b'SERVERBUG', b'UNAVAILABLE', b'TIMEOUT', b'AUTHENTICATIONFAILED',
        b'TOOBIG', b'ALERT', b'PARSE', b'X-1', b'BADCHARSET', b'INUSE', b'NOPERM']


def gen_code(rng):
    r = rng.random()
    if r < 0.3:
        return None
    k = rng.choice(['anon', 'capability', 'permanentflags', 'uidnext', 'uidvalidity', 'unseen',
                    'appenduid', 'copyuid', 'mailboxid'])
    if k == 'anon':
        return (k, rng.choice(ANON))
    if k == 'capability':
        return (k, [gen_atom(rng) for _ in range(rng.randint(0, 4))])
    if k == 'permanentflags':
        return (k, _shuffled(rng, {gen_flag(rng, True) for _ in range(rng.randint(0, 5))}))
    if k in ('uidnext', 'uidvalidity', 'unseen'):
        return (k, rng.choice([1, 9, 101, 4294967295]))
    if k == 'appenduid':
        return (k, rng.randint(1, 10 ** 9), [rng.randint(1, 30) for _ in range(rng.randint(1, 6))])
    if k == 'copyuid':
        n = rng.randint(1, 6)
        return (k, rng.randint(1, 10 ** 9), [rng.randint(1, 30) for _ in range(n)],
                [rng.randint(100, 130) for _ in range(n)])
    return (k, gen_oid(rng))


def gen_tag(rng) -> bytes:
    return bytes(rng.choice(b'aA1.-_]~|^$#!&\'<>=:;') for _ in range(rng.randint(1, 6)))


def gen_resp(rng):
    k = rng.choice(['cond', 'cond', 'cont', 'capability', 'flags', 'exists', 'recent', 'expunge',
                    'fetch', 'fetch', 'fetch', 'search', 'status', 'list', 'list', 'id'])
    if k == 'cond':
        if rng.random() < 0.5:
            return (k, gen_tag(rng), rng.choice(['OK', 'NO', 'BAD']), gen_code(rng),
                    rng.choice(TEXTS))
        return (k, None, rng.choice(['OK', 'NO', 'BAD', 'BYE', 'PREAUTH']), gen_code(rng),
                rng.choice(TEXTS))
    if k == 'cont':
        return (k, rng.choice([b'', b'Literal string', b'Idling.', b'dGVzdA==', b'AA==']))
    if k == 'capability':
        return (k, [gen_atom(rng) for _ in range(rng.randint(0, 5))])
    if k == 'flags':
        return (k, _shuffled(rng, {gen_flag(rng) for _ in range(rng.randint(0, 5))}))
    if k in ('exists', 'recent'):
        return (k, rng.choice([0, 1, 10, 4294967295]))
    if k == 'expunge':
        return (k, rng.choice([1, 9, 10]))
    if k == 'fetch':
        items = []
        seen = set()
        for _ in range(rng.randint(1, 4)):
            it = gen_item(rng)
            if it[0] in ('section', 'binary'):
                key = (it[0][0] == 's', repr(it[1]), it[2])
            elif it[0] == 'binarysize':
                key = (it[0], repr(it[1]))
            elif it[0] == 'rfc822':
                key = (it[0], it[1])
            else:
                key = (it[0],)
            if key in seen:
                continue
            seen.add(key)
            items.append(it)
        return (k, rng.choice([1, 7, 100]), items)
    if k == 'search':
        return (k, [rng.randint(1, 200) for _ in range(rng.randint(0, 6))])
    if k == 'status':
        names = rng.sample([b'MESSAGES', b'RECENT', b'UIDNEXT', b'UIDVALIDITY', b'UNSEEN',
                            b'MAILBOXID'], rng.randint(0, 6))
        return (k, gen_str(rng), [(n, gen_oid(rng) if n == b'MAILBOXID' else rng.randint(0, 999))
                                  for n in names])
    if k == 'list':
        attrs = rng.sample([b'HasChildren', b'HasNoChildren', b'Noinferiors', b'X'],
                           rng.randint(0, 2))
        if rng.random() < 0.4:
            attrs.append(rng.choice([b'Noselect', b'Marked', b'Unmarked']))
        return (k, rng.random() < 0.4, gen_str(rng), rng.choice([None, '', '/', '.', '"', '\\']),
                attrs)
    if rng.random() < 0.3:
        return ('id', None)
    d = {}
    for _ in range(rng.randint(0, 3)):
        d[bytes(rng.choice(b'abc "\\\r\n') for _ in range(rng.randint(1, 70)))] = \
            bytes(rng.choice(b'xyz "\\\r\n\x00') for _ in range(rng.randint(0, 70)))
    return ('id', list(d.items()))
