"""C08, isolation between users whose stores are *copies of each other*.

The two-user programs of harness/props/C08.py provision u1 and u2
independently (random UIDVALIDITY / uidlist GUIDs, different file names).  This
module adds the dimension "u2's maildir is a byte copy of u1's" (accounts
created from one skeleton maildir, a store restored into a second account):
same dovecot-uidlist GUIDs (= MAILBOXID), same UIDVALIDITY, same message file
names, same keywords / subscriptions files.  Anything in the server that is
keyed by an identifier stored *inside* the maildir rather than by the user's
directory then aliases the two users.

Both users stay connected (each with INBOX selected, so per-session caches are
alive) and issue interleaved commands.  Around every command of user X, for the
other user Y:
  * the tracer (os.* / open wrapped): every path touched while X's command is
    served is inside X's directory (temporary files of io.py and reads of the
    runtime exempt, as in C08.monitor_md);
  * Y's directory tree is byte-identical before and after X's command;
  * what Y observes (fresh connection: LIST, LSUB, and for every mailbox STATUS,
    EXAMINE, FETCH 1:* (UID FLAGS BODY.PEEK[])) is the same before and after;
  * Y's long-lived session (NOOP, then FETCH 1:* (UID FLAGS) of its selected mailbox) shows
    no new untagged response and the same messages;
  * the observation commands themselves are Y's commands: traced the same way.
Written against the property statement ("one user's commands never change what
another user observes"), not against a model.
"""
from __future__ import annotations

import os
import posixpath
import re
import shutil
import tempfile

USERS = ('u1', 'u2')
BOXES = ['INBOX', 'box', 'box2', 'box/sub']


def msg(tag: str) -> bytes:
    return (b'From: a@example.com\r\nSubject: ' + tag.encode() + b'\r\n\r\nbody of ' + tag.encode()
            + b'\r\n')


def gen_events(rng, n: int) -> list:
    evs = []
    for k in range(n):
        u = rng.choice(USERS)
        r = rng.random()
        if r < 0.35:
            evs.append((u, 'append', rng.choice(BOXES[:3]), f'm{k}-{u}'))
        elif r < 0.50:
            evs.append((u, 'store', rng.choice(['\\Seen', '\\Deleted', '\\Flagged', 'kw1'])))
        elif r < 0.58:
            evs.append((u, 'expunge'))
        elif r < 0.70:
            evs.append((u, 'select', rng.choice(BOXES[:3])))
        elif r < 0.78:
            evs.append((u, 'copy', rng.choice(BOXES[:3])))
        elif r < 0.85:
            evs.append((u, 'create', rng.choice(['new1', 'box/sub', 'box2'])))
        elif r < 0.90:
            evs.append((u, 'delete', rng.choice(['box2', 'new1'])))
        elif r < 0.95:
            evs.append((u, 'rename', 'box2', rng.choice(['box3', 'box/moved'])))
        else:
            evs.append((u, 'subscribe', rng.choice(BOXES[1:])))
    return evs


FIXED = [
    # the first user has INBOX open; the second opens the mailbox with the same GUID and acts
    [('u1', 'append', 'INBOX', 'secret-u1'), ('u2', 'select', 'INBOX'), ('u2', 'append', 'INBOX', 'from-u2'),
     ('u2', 'store', '\\Deleted'), ('u2', 'expunge'), ('u1', 'select', 'INBOX')],
    [('u2', 'append', 'box', 'x-u2'), ('u1', 'select', 'box'), ('u1', 'append', 'box', 'y-u1'),
     ('u2', 'select', 'box'), ('u2', 'store', '\\Seen'), ('u1', 'copy', 'INBOX'), ('u2', 'copy', 'box2')],
    [('u1', 'select', 'box'), ('u2', 'select', 'box'), ('u1', 'store', 'kw1'), ('u2', 'store', '\\Flagged'),
     ('u1', 'delete', 'box2'), ('u2', 'rename', 'box2', 'box3'), ('u1', 'create', 'new1'),
     ('u2', 'subscribe', 'box2')],
]


def wire(ev, tag: bytes) -> bytes:
    k = ev[1]
    q = lambda s: b'"' + s.encode() + b'"'      # noqa: E731  (names here are plain ASCII)
    if k == 'append':
        m = msg(ev[3])
        return tag + b' APPEND ' + q(ev[2]) + b' {%d}\r\n' % len(m) + m + b'\r\n'
    if k == 'store':
        return tag + b' STORE 1 +FLAGS (' + ev[2].encode() + b')\r\n'
    if k == 'expunge':
        return tag + b' EXPUNGE\r\n'
    if k == 'select':
        return tag + b' SELECT ' + q(ev[2]) + b'\r\n'
    if k == 'copy':
        return tag + b' COPY 1 ' + q(ev[2]) + b'\r\n'
    if k == 'create':
        return tag + b' CREATE ' + q(ev[2]) + b'\r\n'
    if k == 'delete':
        return tag + b' DELETE ' + q(ev[2]) + b'\r\n'
    if k == 'rename':
        return tag + b' RENAME ' + q(ev[2]) + b' ' + q(ev[3]) + b'\r\n'
    if k == 'subscribe':
        return tag + b' SUBSCRIBE ' + q(ev[2]) + b'\r\n'
    raise ValueError(ev)


def tree(top: str) -> dict:
    out = {}
    for dp, _dns, fns in os.walk(top):
        out[dp] = 'dir'
        for f in fns:
            p = os.path.join(dp, f)
            try:
                with open(p, 'rb') as fh:
                    out[p] = fh.read()
            except OSError as exc:
                out[p] = repr(exc)
    return out


_LIST = re.compile(rb'^\* LIST \([^)]*\) (?:"/"|NIL) (.+?)\r\n', re.M)
_RECENT = re.compile(rb' ?\\Recent')


async def run_clone_program(layout: str, events, clone: bool, tracer, C08):
    """-> list of failures (kind, text, step)"""
    from .pymap_env import MaildirEnv
    base = os.path.realpath(tempfile.mkdtemp(prefix='pymapverif-c08c-'))
    assert not base.startswith('/repo') and not base.startswith('/verif')
    fails = []
    tracer.sandbox = base
    tracer.blocked = []
    try:
        env = await MaildirEnv(layout, users=(('u1', 'pass'), ('u2', 'pass')), base_dir=base).start()
        roots = {u: os.path.join(base, u) for u in USERS}

        async def provision(user: str) -> None:
            c = await env.login(user.encode(), b'pass')
            await c.cmd(b'p1 CREATE box\r\n')
            await c.cmd(b'p2 CREATE box2\r\n')
            for i, b in enumerate((b'INBOX', b'box', b'box')):
                m = msg(f'seed{i}')
                await c.cmd(b'p3 APPEND ' + b + b' {%d}\r\n' % len(m) + m + b'\r\n')
            await c.cmd(b'p4 SUBSCRIBE box\r\n')
            await c.cmd(b'p5 SELECT box\r\n')
            await c.cmd(b'p6 STORE 1 +FLAGS (kw0)\r\n')
            await c.send(b'p7 LOGOUT\r\n')
        await provision('u1')
        if clone:
            shutil.rmtree(roots['u2'], ignore_errors=True)
            shutil.copytree(roots['u1'], roots['u2'], symlinks=True)
        else:
            await provision('u2')

        def check_trace(user: str, what, step) -> None:
            root = roots[user]
            for fn, kind, raw in tracer.take():
                np = posixpath.normpath(raw)
                if C08.is_tmpfile(np):
                    continue
                inside = np == root or np.startswith(root + '/')
                if inside or (kind == 'r' and C08.exempt_read(np)):
                    continue
                fails.append(('clone_outside_' + ('write' if kind == 'w' else 'read'),
                              f'while serving {user}\'s {what!r}: {fn}({raw!r}) is outside {root!r}', step))

        async def traced(conn, user: str, line: bytes, what, step) -> bytes:
            tracer.take()
            tracer.on = True
            try:
                return await conn.cmd(line)
            finally:
                tracer.on = False
                check_trace(user, what, step)

        async def view(user: str, step) -> list:
            """what the user observes, through a fresh connection"""
            c = await env.login(user.encode(), b'pass')
            out = []
            r = await traced(c, user, b'v1 LIST "" *\r\n', 'LIST', step)
            out.append(sorted(r.split(b'\r\n')))
            out.append(sorted((await traced(c, user, b'v2 LSUB "" *\r\n', 'LSUB', step)).split(b'\r\n')))
            for name in sorted(set(_LIST.findall(r))):
                out.append(await traced(c, user, b'v3 STATUS ' + name + b' (MESSAGES UIDNEXT UNSEEN)\r\n',
                                        'STATUS', step))
                e = await traced(c, user, b'v4 EXAMINE ' + name + b'\r\n', 'EXAMINE', step)
                out.append(_RECENT.sub(b'', e))
                if b'v4 OK' in e:
                    f = await traced(c, user, b'v5 FETCH 1:* (UID FLAGS BODY.PEEK[])\r\n', 'FETCH', step)
                    out.append(_RECENT.sub(b'', f))
            if not c.closed:
                await c.send(b'v9 LOGOUT\r\n')
            return out

        async def live(user: str, step) -> list:
            """what the user's long-lived session sees: pending untagged responses, then the
            selected mailbox (taken after a flushing NOOP before the other user's command)"""
            c = conns[user]
            if c.closed:
                return ['closed']
            a = await traced(c, user, b'n1 NOOP\r\n', 'NOOP', step)
            b = await traced(c, user, b'n2 FETCH 1:* (UID FLAGS)\r\n', 'FETCH', step)
            return [a, _RECENT.sub(b'', b)]

        conns = {}
        for u in USERS:
            conns[u] = await env.login(u.encode(), b'pass')
            await traced(conns[u], u, b's0 SELECT INBOX\r\n', 'SELECT INBOX', -1)
        for k, ev in enumerate(events):
            user = ev[0]
            other = 'u2' if user == 'u1' else 'u1'
            try:
                if conns[user].closed:
                    conns[user] = await env.login(user.encode(), b'pass')
                v0 = await view(other, k)
                await live(other, k)                  # flush what the other session has pending
                l0 = await live(other, k)
                t0 = tree(roots[other])
                await traced(conns[user], user, wire(ev, b'e%d' % k), ev[1:], k)
                t1 = tree(roots[other])
                if t0 != t1:
                    diff = sorted(p for p in set(t0) | set(t1) if t0.get(p) != t1.get(p))
                    fails.append(('clone_files_changed',
                                  f'{user}\'s {ev[1:]!r} changed files of {other}: {diff[:4]!r}', k))
                l1 = await live(other, k)
                if l0 != l1:
                    fails.append(('clone_session_changed',
                                  f'{user}\'s {ev[1:]!r} changed what {other}\'s open session sees: '
                                  f'{[x[:300] for x in l0]!r} -> {[x[:300] for x in l1]!r}', k))
                v1 = await view(other, k)
                if v0 != v1:
                    d = [(a[:300], b[:300]) for a, b in zip(v0, v1) if a != b][:2]
                    fails.append(('clone_view_changed',
                                  f'{user}\'s {ev[1:]!r} changed what {other} observes: {d!r}', k))
            except AssertionError as exc:
                fails.append(('login_broken', f'after {ev!r} a user cannot log in any more: {exc!r}', k))
                break
            if fails:
                break
        for c in conns.values():
            if not c.closed:
                try:
                    await c.send(b'zz LOGOUT\r\n')
                except Exception:
                    pass
    finally:
        tracer.on = False
        tracer.sandbox = None
        shutil.rmtree(base, ignore_errors=True)
    return fails


def sec_clone(ctx, tracer, C08) -> None:
    from .pymap_env import run
    rng = ctx.rng
    plans = []
    for layout in ('++', 'fs'):
        for fx in FIXED:
            plans.append((layout, fx, True))
        for j in range(ctx.scale(5, 25)):
            plans.append((layout, gen_events(rng, rng.randint(5, 9)), j % 4 != 3))
    tracer.install()
    try:
        async def all_():
            return [await run_clone_program(lay, evs, cl, tracer, C08) for lay, evs, cl in plans]
        results = run(all_(), timeout=6000)
    finally:
        tracer.uninstall()
    for (layout, evs, cl), fails in zip(plans, results):
        ctx.count(('clone', layout, cl, tuple(evs)), nontrivial=True)
        for kind, text, step in fails[:3]:
            ctx.failure('isolation', f'[{layout}{", cloned stores" if cl else ""}] {text}',
                        {'layout': layout, 'clone': cl, 'clone_events': [list(e) for e in evs], 'step': step},
                        {'kind': kind, 'layout': layout})
    ctx.extra['clone_programs'] = len(plans)


def replay(obj, tracer, C08) -> int:
    from .pymap_env import run
    tracer.install()
    try:
        fails = run(run_clone_program(obj['layout'], [tuple(e) for e in obj['clone_events']],
                                      obj.get('clone', True), tracer, C08))
    finally:
        tracer.uninstall()
    for f in fails:
        print('FAIL', f)
    return 1 if fails else 0
