"""Shared machinery of the C10 / C12 checks (message commands vs the reference
model; read-only selections).

* environment set-up (dict demo data; maildir with keyword files), mailbox-name
  and flag tables, message contents with recognisable ids;
* an IMAP response reader that turns the bytes of one command's answer into the
  canonical `out` record of coq/theories/RefModel/Model.v;
* the probe: an independent connection that dumps every mailbox with
  EXAMINE + UID FETCH 1:* (... BODY.PEEK[]) + STATUS, plus a white-box read of
  the stored \\Recent marks through the backend's own mailbox objects;
* `PyRef`: a Python reference implementation of the message commands written
  from RFC 3501/4315/6851 (independently of the Coq spec), used as monitor;
* program generators and Gallina encoders.
"""
from __future__ import annotations

import calendar
import os
import re
from datetime import datetime, timezone

from . import coqterm as T

# --------------------------------------------------------------------- tables
SYSTEM = {b'\\Seen': 'FSeen', b'\\Answered': 'FAnswered', b'\\Flagged': 'FFlagged',
          b'\\Deleted': 'FDeleted', b'\\Draft': 'FDraft', b'\\Recent': 'FRecent',
          b'\\*': 'FWild'}
KEYWORDS = [b'$kw0', b'kw1', b'$Forwarded', b'NonJunk', b'\\Custom', b'$KW0']
SYS5 = [b'\\Seen', b'\\Answered', b'\\Flagged', b'\\Deleted', b'\\Draft']
SPELL = {b'\\Seen': [b'\\Seen', b'\\seen', b'\\SEEN'],
         b'\\Answered': [b'\\Answered', b'\\ANSWERED'],
         b'\\Flagged': [b'\\Flagged', b'\\flagged'],
         b'\\Deleted': [b'\\Deleted', b'\\deleted', b'\\DELETED', b'\\dELETED'],
         b'\\Draft': [b'\\Draft', b'\\draft'],
         b'\\Recent': [b'\\Recent', b'\\recent'],
         b'\\Custom': [b'\\Custom', b'\\custom']}


def canon_flag(f: bytes) -> bytes:
    """Flag identity as RFC 3501 defines it: system flags (\\x) are
    case-insensitive, keywords are compared as given."""
    if f.startswith(b'\\'):
        return b'\\' + f[1:].capitalize()
    return f


def enc_flag(f: bytes) -> str:
    f = canon_flag(f)
    if f in SYSTEM:
        return SYSTEM[f]
    if f in KEYWORDS:
        return f'(FKw {KEYWORDS.index(f)}%N)'
    # anything else gets a stable id from its bytes
    return f'(FKw {1000 + int.from_bytes(f[:6], "big")}%N)'


def enc_fset(fl) -> str:
    return T.lst(enc_flag(f) for f in sorted(fl))


MONTHS = ['Jan', 'Feb', 'Mar', 'Apr', 'May', 'Jun', 'Jul', 'Aug', 'Sep', 'Oct', 'Nov', 'Dec']


def render_date(epoch: int, zone_min: int = 0) -> bytes:
    t = epoch + zone_min * 60
    tm = datetime.fromtimestamp(t, timezone.utc)
    sign = '+' if zone_min >= 0 else '-'
    z = abs(zone_min)
    return ('"%02d-%s-%04d %02d:%02d:%02d %s%02d%02d"' % (
        tm.day, MONTHS[tm.month - 1], tm.year, tm.hour, tm.minute, tm.second,
        sign, z // 60, z % 60)).encode()


_DATE = re.compile(rb'^\s?(\d{1,2})-(\w{3})-(\d{4}) (\d\d):(\d\d):(\d\d) ([+-])(\d\d)(\d\d)$')


def parse_date(b: bytes) -> int:
    m = _DATE.match(b)
    if not m:
        return 10 ** 15
    d, mon, y, hh, mm, ss, sg, zh, zm = m.groups()
    t = calendar.timegm((int(y), MONTHS.index(mon.decode()) + 1, int(d),
                         int(hh), int(mm), int(ss)))
    off = (int(zh) * 60 + int(zm)) * 60
    return t - off if sg == b'+' else t + off


def content(cid: int) -> bytes:
    """Message number `cid`: a well-formed message whose size identifies it
    (with CRLF as sent, or with the LF line ends maildir stores)."""
    return b'Subject: m%d\r\n\r\n' % cid + b'x' * (7 * cid) + b'\r\n'


FAIL_MARK = b'X-Verif-Fail: 1'


def content_fail() -> bytes:
    """a message the backend refuses to store (see inject_append_failure)"""
    return b'Subject: fail\r\n' + FAIL_MARK + b'\r\n\r\nx\r\n'


def inject_append_failure() -> None:
    """In the harness process only: MailboxData.append of both backends raises for a
    message carrying FAIL_MARK, standing for any exception a backend can raise while
    storing one message of a MULTIAPPEND (the all-or-nothing path of append_messages)."""
    from pymap.backend.dict.mailbox import MailboxData as D
    from pymap.backend.maildir.mailbox import MailboxData as M
    for cls in (D, M):
        if getattr(cls.append, '_verif', False):
            continue
        orig = cls.append

        async def append(self, append_msg, *, recent=False, _orig=orig):
            if FAIL_MARK in bytes(append_msg.literal):
                raise RuntimeError('injected append failure')
            return await _orig(self, append_msg, recent=recent)
        append._verif = True
        cls.append = append


class Contents:
    """content bytes / size <-> content id, for one environment"""

    def __init__(self) -> None:
        self.by_bytes: dict[bytes, int] = {}
        self.by_size: dict[int, int] = {}
        self.clash: set[int] = set()       # sizes shared by two initial messages
        self.unusable: set[int] = set()    # generated ids whose size an initial message has
        for cid in range(1, 90):
            self.add(content(cid), cid)

    def add(self, raw: bytes, cid: int) -> None:
        for b in (raw, raw.replace(b'\r\n', b'\n')):
            self.by_bytes[b] = cid
            other = self.by_size.get(len(b), cid)
            if other != cid:
                if other < 1000 <= cid:
                    self.unusable.add(other)
                else:
                    self.clash.add(len(b))
            self.by_size[len(b)] = cid

    def learn(self, raw: bytes) -> int:
        """initial messages (demo data) get ids from 1000"""
        if raw in self.by_bytes and self.by_bytes[raw] not in self.unusable:
            return self.by_bytes[raw]
        cid = 1000 + len({c for c in self.by_bytes.values() if c >= 1000})
        self.add(raw, cid)
        return cid

    def usable(self, cid: int) -> bool:
        return cid not in self.unusable

    def of_bytes(self, raw: bytes) -> int:
        return self.by_bytes.get(raw, 5_000_000 + len(raw))     # 5_000_000 = no content (Model.NO_CONTENT)

    def of_size(self, n: int) -> int:
        if n == 0:
            return 5_000_000
        if n in self.clash:
            return 6_000_000 + n
        return self.by_size.get(n, 6_000_000 + n)


# ------------------------------------------------------------ response reader
class Reader:
    """Tokenises IMAP server output (atoms, quoted strings, literals, lists)."""

    def __init__(self, data: bytes) -> None:
        self.d = data
        self.i = 0

    def eof(self) -> bool:
        return self.i >= len(self.d)

    def line(self) -> bytes:
        j = self.d.index(b'\r\n', self.i)
        ret = self.d[self.i:j]
        self.i = j + 2
        return ret

    def peek(self) -> int:
        return self.d[self.i] if self.i < len(self.d) else -1

    def skip_sp(self) -> None:
        while self.peek() == 0x20:
            self.i += 1

    def value(self):
        self.skip_sp()
        c = self.peek()
        if c == 0x28:   # (
            self.i += 1
            items = []
            while True:
                self.skip_sp()
                if self.peek() == 0x29:
                    self.i += 1
                    return items
                items.append(self.value())
        if c == 0x22:   # "
            self.i += 1
            out = bytearray()
            while self.d[self.i] != 0x22:
                if self.d[self.i] == 0x5c:
                    self.i += 1
                out.append(self.d[self.i])
                self.i += 1
            self.i += 1
            return ('s', bytes(out))
        if c == 0x7e and self.d[self.i + 1] == 0x7b:   # ~{n} binary literal
            self.i += 1
            c = 0x7b
        if c == 0x7b:   # {n}\r\n
            j = self.d.index(b'}', self.i)
            n = int(self.d[self.i + 1:j].rstrip(b'+'))
            assert self.d[j + 1:j + 3] == b'\r\n', self.d[j:j + 10]
            start = j + 3
            self.i = start + n
            return ('s', self.d[start:start + n])
        # atom, possibly with a [section] and <partial>
        j = self.i
        depth = 0
        while j < len(self.d):
            ch = self.d[j]
            if ch == 0x5b:
                depth += 1
            elif ch == 0x5d:
                depth -= 1
            elif depth == 0 and ch in b' ()\r\n':
                break
            j += 1
        ret = self.d[self.i:j]
        self.i = j
        return ('a', ret)


def _flagset(v) -> frozenset:
    return frozenset(canon_flag(x[1]) for x in v)


def _parse_code(text: bytes):
    """'[CODE args] text' -> canonical code tuple or None"""
    if not text.startswith(b'['):
        return None
    inner = text[1:text.index(b']')]
    parts = inner.split(b' ')
    name = parts[0].upper()
    if name == b'APPENDUID':
        return ('APPENDUID', expand_set(parts[2]))
    if name == b'COPYUID':
        return ('COPYUID', expand_set(parts[2]), expand_set(parts[3]))
    return (name.decode(),)


def expand_set(b: bytes) -> list[int]:
    out: list[int] = []
    for part in b.split(b','):
        if b':' in part:
            lo, hi = part.split(b':')
            out.extend(range(int(lo), int(hi) + 1))
        else:
            out.append(int(part))
    return out


def read_response(data: bytes, contents: Contents, kind: str, names=None) -> dict:
    """Canonical `out` of one command.  `kind` is 'select' or 'other'; `names` maps
    mailbox names (STATUS) to the ids of the model."""
    rd = Reader(data)
    untagged: list = []
    sel = {'exists': None, 'recent': None, 'uidnext': None, 'unseen': None, 'perm': None}
    cond, code = None, None
    bye = None
    extra: list[bytes] = []
    while not rd.eof():
        if rd.peek() == 0x2b:   # continuation request
            rd.line()
            continue
        save = rd.i
        first = rd.value()
        if first != ('a', b'*'):
            rd.i = save
            ln = rd.line()
            _tag, cnd, *rest = ln.split(b' ', 2)
            cond = cnd.decode()
            code = _parse_code(rest[0] if rest else b'')
            continue
        second = rd.value()
        word = second[1].upper()
        if word in (b'OK', b'NO', b'BAD', b'BYE', b'PREAUTH'):
            rd.skip_sp()
            text = rd.line()
            c = _parse_code(text)
            if word == b'BYE' and b'no longer exists' in text:
                untagged.append(('BYE',))       # the selected mailbox is gone
            elif word == b'BYE':
                bye = text
            elif text.endswith(b'Moved.'):
                untagged.append(('MOVED', c))
            elif c and c[0] == 'UIDNEXT':
                sel['uidnext'] = int(text[1:text.index(b']')].split(b' ')[1])
            elif c and c[0] == 'UNSEEN':
                sel['unseen'] = int(text[1:text.index(b']')].split(b' ')[1])
            elif c and c[0] == 'PERMANENTFLAGS':
                inner = text[text.index(b'(') + 1:text.index(b')')]
                sel['perm'] = frozenset(canon_flag(x) for x in inner.split())
            elif c and c[0] in ('UIDVALIDITY', 'MAILBOXID'):
                pass
            else:
                extra.append(text)
            continue
        if word == b'FLAGS':
            rd.value()
            rd.line()
            continue
        if word.isdigit():
            n = int(word)
            what = rd.value()[1].upper()
            if what == b'FETCH':
                items = rd.value()
                rd.line()
                uid = flags = date = None
                cids = []
                k = 0
                while k < len(items):
                    name = items[k][1].upper()
                    val = items[k + 1]
                    k += 2
                    if name == b'UID':
                        uid = int(val[1])
                    elif name == b'FLAGS':
                        flags = _flagset(val)
                    elif name == b'INTERNALDATE':
                        date = parse_date(val[1])
                    elif name == b'RFC822.SIZE':
                        cids.append(contents.of_size(int(val[1])))
                    elif name in (b'BODY[]', b'RFC822'):
                        cids.append(contents.of_bytes(val[1]) if isinstance(val, tuple)
                                    and val[0] == 's' else 7_000_000)
                cid = None
                if cids:
                    cid = cids[0] if len(set(cids)) == 1 else 8_000_000
                untagged.append(('FETCH', n, uid, flags, date, cid))
            else:
                rd.line()
                if kind == 'select' and what in (b'EXISTS', b'RECENT'):
                    sel[what.decode().lower()] = n
                else:
                    untagged.append((what.decode(), n))
            continue
        if word == b'STATUS':
            nm = rd.value()[1].decode()
            items = rd.value()
            rd.line()
            d = {items[k][1].upper(): int(items[k + 1][1]) for k in range(0, len(items), 2)}
            untagged.append(('STATUS', names.index(nm) if names and nm in names else 99,
                             d.get(b'MESSAGES'), d.get(b'RECENT'), d.get(b'UIDNEXT'),
                             d.get(b'UIDVALIDITY'), d.get(b'UNSEEN')))
            continue
        if word == b'SEARCH':
            untagged.append(('SEARCH', [int(x) for x in rd.line().split()]))
            continue
        # LIST ... not used by the programs
        rd.line()
        extra.append(word)
    if kind == 'select' and cond == 'OK':
        untagged.insert(0, ('SELECT', sel['exists'], sel['recent'], sel['uidnext'],
                            sel['unseen'], sel['perm']))
    if cond is None and bye is not None:
        code = _parse_code(bye)
    if code and code[0] == 'MAILBOXID':
        code = None
    return {'cond': cond or 'BYE', 'code': code, 'untagged': untagged, 'extra': extra, 'bye': bye}


# -------------------------------------------------------------- environments
NAMES = {'dict': ['INBOX', 'Sent', 'Trash', 'Nope', 'Box4', 'Box5'],
         'maildir': ['INBOX', 'Sent', 'Work', 'Nope', 'Box4', 'Box5']}
# different keyword tables per folder (COPY/MOVE translate the file-name letters, 7d764ef)
MAILDIR_KEYWORDS = {'INBOX': [b'$kw0', b'kw1', b'$Forwarded'], 'Work': [b'$Forwarded', b'$kw0'],
                    'Sent': []}


class Env:
    """A fresh server with its standard mailboxes, a session under test
    (`conn`) and an independent probe session (`probe`)."""

    def __init__(self, kind: str, colon: str | None = None, layout: str = '++',
                 keywords: dict | None = None) -> None:
        self.kind = kind
        self.colon = colon      # maildir --colon: the info delimiter of message file names
        self.layout = layout    # maildir --layout: '++' or 'fs'
        # maildir: per-folder dovecot-keywords files, name -> [(number, keyword), ...] in file
        # line order (numbers need not be contiguous); harness/c10_kwtables.py generates them
        self.keywords = keywords if keywords is not None else \
            {n: list(enumerate(k)) for n, k in MAILDIR_KEYWORDS.items()}
        self.names = NAMES[kind]
        self.real = self.names[:3]
        self.contents = Contents()
        self.env = None
        self.conn = None
        self.probe = None
        self.tagn = 0

    async def start(self, rng, prefill: int = 0) -> 'Env':
        from .pymap_env import DictEnv, MaildirEnv
        inject_append_failure()
        if self.kind == 'dict':
            self.env = await DictEnv().start()
            self.user = b'testuser'
            self.password = b'testpass'
        else:
            self.env = await MaildirEnv(self.layout).start()
            if self.colon is not None:
                self.env.config._colon = self.colon     # what --colon sets (MaildirEnv has no knob)
            self.user = b'u1'
            self.password = b'pass'
            c = await self.env.login()
            for n in self.real[1:]:
                r = await c.send(b'c CREATE ' + n.encode() + b'\r\n')
                assert b'c OK' in r, r
            await c.send(b'c LOGOUT\r\n')
            for n, kws in self.keywords.items():
                if kws:
                    with open(os.path.join(self.folder_path(n), 'dovecot-keywords'), 'w') as f:
                        for i, k in kws:
                            f.write(f'{i} {k.decode()}\n')
            if prefill:
                c = await self.env.login()
                for k in range(prefill):
                    box = rng.choice(self.real)
                    cid = 60 + k
                    fl = [f for f in SYS5 if rng.random() < 0.3] + \
                        [k for _, k in self.keywords.get(box, []) if rng.random() < 0.4]
                    lit = content(cid)
                    r = await c.cmd(b'p APPEND ' + box.encode() + b' (' + b' '.join(fl) + b') '
                                    + render_date(946684800 + 86400 * k) + b' {%d}\r\n' % len(lit)
                                    + lit + b'\r\n')
                    assert b'p OK' in r, r
                await c.send(b'c LOGOUT\r\n')
            if rng.random() < 0.7:
                # messages dropped in by an external delivery agent: files in new/ or cur/ whose
                # name has no ':2,<flags>' suffix (pymap's own APPEND/COPY always write one)
                for k in range(rng.choice([1, 2, 3])):
                    box = 'INBOX' if k == 0 else rng.choice(self.real)
                    path = self.folder_path(box)
                    fn = os.path.join(path, rng.choice(['new', 'cur']), f'{1100000000 + k}.X{k}.ext')
                    with open(fn, 'wb') as f:
                        f.write(content(80 + k))
                    os.utime(fn, (915148800 + 86400 * k,) * 2)
        self.conn = await self.env.login(self.user, self.password)
        self.probe = await self.env.login(self.user, self.password)
        return self

    def close(self) -> None:
        self.env.close()

    def box_id(self, name: str) -> int:
        return self.names.index(name)

    def folder_path(self, name: str) -> str:
        """directory of a maildir folder under the configured layout"""
        base = os.path.join(self.env.base, 'u1')
        if name == 'INBOX':
            return base
        return os.path.join(base, name if self.layout == 'fs' else '.' + name)

    def files(self) -> dict | None:
        """maildir: what is on disk, per folder -- the dovecot-uidlist header and records (a
        record's key is its file-name field up to the first ':', as the backend reads it) and
        the message files of new/ and cur/ (base name = name up to the info delimiter)."""
        if self.kind != 'maildir':
            return None
        colon = self.colon or ':'
        out = {}
        for name in self.names:
            path = self.folder_path(name)
            if not os.path.isdir(os.path.join(path, 'cur')):
                continue
            ent = {'uidv': None, 'next': None, 'records': {}, 'files': {}}
            try:
                with open(os.path.join(path, 'dovecot-uidlist')) as f:
                    lines = f.read().split('\n')
                for fld in lines[0].split()[1:]:
                    if fld[0] == 'V':
                        ent['uidv'] = int(fld[1:])
                    elif fld[0] == 'N':
                        ent['next'] = int(fld[1:])
                for ln in lines[1:]:
                    if ':' in ln:
                        before, fn = ln.split(':', 1)
                        ent['records'][int(before.split(' ')[0])] = fn.rstrip().split(':')[0]
            except FileNotFoundError:
                pass
            for sub in ('new', 'cur'):
                try:
                    for fn in os.listdir(os.path.join(path, sub)):
                        key, _, info = fn.partition(colon)
                        ent['files'][key] = (sub, info)
                except FileNotFoundError:
                    pass
            out[name] = ent
        return out

    # ---- white box: the backend's own mailbox objects
    async def stored(self, name: str):
        """(readonly, permanent_flags, {uid: stored recent}) of a mailbox"""
        if self.kind == 'dict':
            from pymap.backend.dict import Identity
            ident = Identity(self.user.decode(), self.env.backend.login, None, set())
        else:
            from pymap.backend.maildir import Identity
            ident = Identity(self.env.config, self.env.login_obj.tokens, 'u1', None, {'admin'})
        async with ident.new_session() as sess:
            mbx = await sess.mailbox_set.get_mailbox(name)
            rec = {}
            async for m in mbx.messages():
                rec[m.uid] = bool(m.recent)
            return (bool(mbx.readonly), frozenset(canon_flag(bytes(f)) for f in mbx.permanent_flags),
                    rec)

    # ---- the probe
    async def dump_box(self, name: str, learn: bool = False) -> dict:
        p = self.probe
        nm = name.encode()
        st = await p.send(b'p1 STATUS ' + nm + b' (MESSAGES RECENT UIDNEXT UIDVALIDITY)\r\n')
        if b'p1 NO [NONEXISTENT]' in st:
            return {'name': name, 'absent': True, 'probe_consistent': True}
        m = re.search(rb'MESSAGES (\d+) RECENT (\d+) UIDNEXT (\d+) UIDVALIDITY (\d+)', st)
        assert m, st
        n_msgs, n_recent, uidnext, uidv = (int(x) for x in m.groups())
        r = await p.send(b'p2 EXAMINE ' + nm + b'\r\n')
        assert b'p2 OK' in r, r
        r = await p.send(b'p3 UID FETCH 1:* (UID FLAGS INTERNALDATE RFC822.SIZE BODY.PEEK[])\r\n')
        assert b'p3 OK' in r, r
        await p.send(b'p4 CLOSE\r\n')   # NO on an unfixed tree: harmless, next EXAMINE reselects
        rd = Reader(r)
        msgs = []
        ro, perm, rec = await self.stored(name)
        while not rd.eof():
            save = rd.i
            if rd.value() != ('a', b'*'):
                rd.i = save
                rd.line()
                continue
            seq = rd.value()
            what = rd.value()
            if what[1].upper() != b'FETCH':
                rd.line()
                continue
            items = rd.value()
            rd.line()
            d = {items[k][1].upper(): items[k + 1] for k in range(0, len(items), 2)}
            raw = d[b'BODY[]'][1]
            if learn:
                cid = self.contents.learn(raw)
            else:
                cid = self.contents.of_bytes(raw)
            if int(d[b'RFC822.SIZE'][1]) != len(raw):
                cid = 9_000_000 + len(raw)
            uid = int(d[b'UID'][1])
            fl = _flagset(d[b'FLAGS']) - {b'\\Recent'}
            msgs.append({'uid': uid, 'flags': fl, 'date': parse_date(d[b'INTERNALDATE'][1]),
                         'cid': cid, 'recent': rec.get(uid, False), 'seq': int(seq[1])})
        # consistency of the probe itself (protocol view vs white-box view)
        ok = (n_msgs == len(msgs) and sorted(rec) == [x['uid'] for x in msgs]
              and n_recent == sum(1 for v in rec.values() if v))
        return {'name': name, 'msgs': msgs, 'maxuid': uidnext - 1, 'uidv': uidv, 'ro': ro, 'perm': perm,
                'probe_consistent': ok, 'status': (n_msgs, n_recent, uidnext),
                'kwfile': [(i, k.decode()) for i, k in self.keywords.get(name, [])]
                if self.kind == 'maildir' else None,
                'config': {'layout': self.layout, 'colon': self.colon}
                if self.kind == 'maildir' else None}

    async def dump(self, learn: bool = False) -> list[dict]:
        return [await self.dump_box(n, learn) for n in self.names]

    def tag(self) -> bytes:
        self.tagn += 1
        return b't%d' % self.tagn


# ------------------------------------------------------------------ commands
# a command is a dict; `render` gives the wire form, `enc_cmd` the Gallina term
FETCH_MENU = [
    # (wire spelling, [(name, has_section, content observed)])
    (b'FLAGS', [('AFlags', False, False)]),
    (b'(UID FLAGS)', [('AUid', False, False), ('AFlags', False, False)]),
    (b'(UID FLAGS INTERNALDATE RFC822.SIZE)',
     [('AUid', False, False), ('AFlags', False, False), ('AInternalDate', False, False),
      ('ARfc822Size', False, True)]),
    (b'INTERNALDATE', [('AInternalDate', False, False)]),
    (b'BODY[]', [('ABody', True, True)]),
    (b'BODY.PEEK[]', [('ABodyPeek', True, True)]),
    (b'body[]', [('ABody', True, True)]),
    (b'(FLAGS BODY[])', [('AFlags', False, False), ('ABody', True, True)]),
    (b'(FLAGS BODY.PEEK[])', [('AFlags', False, False), ('ABodyPeek', True, True)]),
    (b'RFC822', [('ARfc822', True, True)]),
    (b'RFC822.HEADER', [('ARfc822Header', True, False)]),
    (b'RFC822.TEXT', [('ARfc822Text', True, False)]),
    (b'RFC822.SIZE', [('ARfc822Size', False, True)]),
    (b'BODY[HEADER]', [('ABody', True, False)]),
    (b'BODY[TEXT]', [('ABody', True, False)]),
    (b'BODY.PEEK[TEXT]', [('ABodyPeek', True, False)]),
    (b'BODY[HEADER.FIELDS (SUBJECT)]', [('ABody', True, False)]),
    (b'BODY.PEEK[HEADER.FIELDS (SUBJECT)]', [('ABodyPeek', True, False)]),
    (b'BODY[1]', [('ABody', True, False)]),
    (b'BODY[]<0.5>', [('ABody', True, False)]),
    (b'BODY.PEEK[]<0.5>', [('ABodyPeek', True, False)]),
    (b'BINARY[]', [('ABinary', True, False)]),
    (b'BINARY.PEEK[]', [('ABinaryPeek', True, False)]),
    (b'BINARY.SIZE[]', [('ABinarySize', True, False)]),
    (b'BODY', [('ABody', False, False)]),
    (b'BODYSTRUCTURE', [('ABodyStructure', False, False)]),
    (b'ENVELOPE', [('AEnvelope', False, False)]),
    (b'(EMAILID THREADID)', [('AEmailId', False, False), ('AThreadId', False, False)]),
    (b'FAST', [('AFlags', False, False), ('AInternalDate', False, False),
               ('ARfc822Size', False, True)]),
    (b'ALL', [('AFlags', False, False), ('AInternalDate', False, False),
              ('ARfc822Size', False, True), ('AEnvelope', False, False)]),
    (b'FULL', [('AFlags', False, False), ('AInternalDate', False, False),
               ('ARfc822Size', False, True), ('AEnvelope', False, False),
               ('ABody', False, False)]),
    (b'(FLAGS BODY[TEXT])', [('AFlags', False, False), ('ABody', True, False)]),
    (b'(UID RFC822.HEADER)', [('AUid', False, False), ('ARfc822Header', True, False)]),
]


def render_seqset(ss) -> bytes:
    def idx(i):
        return b'*' if i == '*' else b'%d' % i
    return b','.join(idx(e[0]) + b':' + idx(e[1]) if isinstance(e, tuple) else idx(e)
                     for e in ss)


def enc_seqset(ss) -> str:
    def idx(i):
        return 'SMax' if i == '*' else f'(SNum {i}%N)'
    return T.lst(f'(SRange {idx(e[0])} {idx(e[1])})' if isinstance(e, tuple)
                 else f'(SOne {idx(e)})' for e in ss)


FLAG_KEYS = {b'\\Seen': (b'SEEN', b'UNSEEN'), b'\\Answered': (b'ANSWERED', b'UNANSWERED'),
             b'\\Deleted': (b'DELETED', b'UNDELETED'), b'\\Draft': (b'DRAFT', b'UNDRAFT'),
             b'\\Flagged': (b'FLAGGED', b'UNFLAGGED'), b'\\Recent': (b'RECENT', b'OLD')}


def render_key(k) -> bytes:
    kind = k[0]
    if kind == 'all':
        return b'ALL'
    if kind == 'new':
        return b'NEW'
    if kind == 'flag':
        f = canon_flag(k[1])
        if f in FLAG_KEYS:
            return FLAG_KEYS[f][0 if k[2] else 1]
        return (b'KEYWORD ' if k[2] else b'UNKEYWORD ') + f
    if kind == 'set':
        return (b'UID ' if k[1] else b'') + render_seqset(k[2])
    if kind == 'not':
        return b'NOT ' + render_key(k[1])
    if kind == 'or':
        return b'OR ' + render_key(k[1]) + b' ' + render_key(k[2])
    raise ValueError(k)


def enc_key(k) -> str:
    kind = k[0]
    if kind == 'all':
        return 'KAll'
    if kind == 'new':
        return 'KNew'
    if kind == 'flag':
        return f'(KFlag {enc_flag(k[1])} {T.boolean(k[2])})'
    if kind == 'set':
        return f'(KSet {T.boolean(k[1])} {enc_seqset(k[2])})'
    if kind == 'not':
        return f'(KNot {enc_key(k[1])})'
    return f'(KOr {enc_key(k[1])} {enc_key(k[2])})'


def render(cmd: dict, names: list[str]) -> bytes:
    k = cmd['k']
    u = b'UID ' if cmd.get('uid') else b''
    if k == 'select':
        return (b'EXAMINE ' if cmd['ro'] else b'SELECT ') + names[cmd['box']].encode()
    if k == 'append':
        out = b'APPEND ' + names[cmd['box']].encode()
        for m in cmd['msgs']:
            lit = content_fail() if m.get('fail') else content(m['cid'])
            out += (b' (' + b' '.join(m['spelled']) + b') ' + render_date(m['date'], m.get('zone', 0))
                    + b' {%d}\r\n' % len(lit) + lit)
        return out
    if k == 'store':
        item = {'replace': b'', 'add': b'+', 'delete': b'-'}[cmd['op']] + cmd.get('word', b'FLAGS') \
            + (b'.SILENT' if cmd['silent'] else b'')
        fl = b' '.join(cmd['spelled'])
        return u + b'STORE ' + render_seqset(cmd['ss']) + b' ' + item + b' ' \
            + (b'(' + fl + b')' if cmd.get('paren', True) else fl)
    if k == 'expunge':
        if cmd.get('ss') is None:
            return b'EXPUNGE'
        return b'UID EXPUNGE ' + render_seqset(cmd['ss'])
    if k in ('copy', 'move'):
        return u + k.upper().encode() + b' ' + render_seqset(cmd['ss']) + b' ' \
            + names[cmd['dest']].encode()
    if k == 'fetch':
        return u + b'FETCH ' + render_seqset(cmd['ss']) + b' ' + FETCH_MENU[cmd['attrs']][0]
    if k == 'close':
        return b'CLOSE'
    if k in ('noop', 'check'):
        return k.upper().encode()
    if k == 'status':
        return b'STATUS ' + names[cmd['box']].encode() + b' (MESSAGES RECENT UIDNEXT UIDVALIDITY UNSEEN)'
    if k == 'search':
        return u + b'SEARCH ' + b' '.join(render_key(x) for x in cmd['keys'])
    if k in ('create', 'delete'):
        return k.upper().encode() + b' ' + names[cmd['box']].encode()
    if k == 'rename':
        return b'RENAME ' + names[cmd['from']].encode() + b' ' + names[cmd['to']].encode()
    raise ValueError(k)


def enc_cmd(cmd: dict) -> str:
    k = cmd['k']
    b = T.boolean
    if k == 'select':
        return f'(CSelect {cmd["box"]}%N {b(cmd["ro"])})'
    if k == 'append':
        ms = T.lst(f'(mkAmsg {enc_fset(m["flags"])} {m["date"]}%N {m.get("cid", 0)}%N '
                   f'{b(bool(m.get("fail")))})' for m in cmd['msgs'])
        return f'(CAppend {cmd["box"]}%N {ms})'
    if k == 'noop':
        return 'CNoop'
    if k == 'check':
        return 'CCheck'
    if k == 'status':
        return f'(CStatus {cmd["box"]}%N)'
    if k == 'search':
        return f'(CSearch {b(cmd["uid"])} {T.lst(enc_key(x) for x in cmd["keys"])})'
    if k == 'create':
        return f'(CCreate {cmd["box"]}%N {cmd.get("uidv", 0)}%N)'
    if k == 'delete':
        return f'(CDelete {cmd["box"]}%N)'
    if k == 'rename':
        return f'(CRename {cmd["from"]}%N {cmd["to"]}%N {cmd.get("uidv", 0)}%N)'
    op = {'replace': 'OpReplace', 'add': 'OpAdd', 'delete': 'OpDelete'}
    if k == 'store':
        return (f'(CStore {b(cmd["uid"])} {enc_seqset(cmd["ss"])} {op[cmd["op"]]} '
                f'{b(cmd["silent"])} {enc_fset(cmd["flags"])})')
    if k == 'expunge':
        return '(CExpunge None)' if cmd.get('ss') is None else \
            f'(CExpunge (Some {enc_seqset(cmd["ss"])}))'
    if k == 'copy':
        return f'(CCopy {b(cmd["uid"])} {enc_seqset(cmd["ss"])} {cmd["dest"]}%N)'
    if k == 'move':
        return f'(CMove {b(cmd["uid"])} {enc_seqset(cmd["ss"])} {cmd["dest"]}%N)'
    if k == 'fetch':
        attrs = T.lst(f'(mkAttr {n} {b(s)} {b(c)})' for n, s, c in FETCH_MENU[cmd['attrs']][1])
        return f'(CFetch {b(cmd["uid"])} {enc_seqset(cmd["ss"])} {attrs})'
    if k == 'close':
        return 'CClose'
    raise ValueError(k)


def enc_optN(x) -> str:
    return 'None' if x is None else f'(Some {x}%N)'


def enc_code(c) -> str:
    if c is None:
        return 'CNone'
    if c[0] == 'APPENDUID':
        return f'(CAppendUid {T.nlist(c[1])})'
    if c[0] == 'COPYUID':
        return f'(CCopyUid {T.nlist(c[1])} {T.nlist(c[2])})'
    return {'READ-ONLY': 'CReadOnly', 'READ-WRITE': 'CReadWrite', 'TRYCREATE': 'CTryCreate',
            'NONEXISTENT': 'CNonexistent', 'EXPUNGEISSUED': 'CExpungeIssued',
            'ALREADYEXISTS': 'CAlreadyExists', 'CANNOT': 'CCannot', 'SERVERBUG': 'CServerBug'}.get(
                c[0], '(CAppendUid [999999%N])')


def enc_untagged(u) -> str:
    k = u[0]
    if k == 'EXPUNGE':
        return f'(UExpunge {u[1]}%N)'
    if k == 'EXISTS':
        return f'(UExists {u[1]}%N)'
    if k == 'RECENT':
        return f'(URecent {u[1]}%N)'
    if k == 'FETCH':
        _, seq, uid, fl, date, cid = u
        fls = 'None' if fl is None else f'(Some {enc_fset(fl)})'
        return f'(UFetch (mkItem {seq}%N {enc_optN(uid)} {fls} {enc_optN(date)} {enc_optN(cid)}))'
    if k == 'MOVED':
        return f'(UMoved {enc_code(u[1])})'
    if k == 'SELECT':
        _, ex, rec, nxt, uns, perm = u
        return (f'(USelect {ex or 0}%N {rec or 0}%N {nxt or 0}%N {enc_optN(uns)} '
                f'{enc_fset(perm or [])})')
    if k == 'STATUS':
        return '(UStatus ' + ' '.join(f'{(x if x is not None else 999999)}%N' for x in u[1:]) + ')'
    if k == 'SEARCH':
        return f'(USearch {T.nlist(u[1])})'
    if k == 'BYE':
        return 'UBye'
    return '(UExists 999999999%N)'   # never produced by the model


def enc_out(o: dict) -> str:
    cond = {'OK': 'OK', 'NO': 'NO', 'BAD': 'BAD'}.get(o['cond'], 'BYE')
    return f'(mkOut {cond} {enc_code(o["code"])} {T.lst(enc_untagged(u) for u in o["untagged"])})'


def enc_msg(m: dict) -> str:
    return (f'(mkMsg {m["uid"]}%N {enc_fset(m["flags"])} {m["date"]}%N {m["cid"]}%N '
            f'{T.boolean(m["recent"])})')


def enc_dump(d: list[dict], env: Env) -> str:
    return T.lst(T.pair(f'{env.box_id(b["name"])}%N',
                        'None' if b.get('absent') else
                        '(Some ' + T.pair(T.lst(enc_msg(m) for m in b['msgs']),
                                          f'{b["maxuid"]}%N', f'{b["uidv"]}%N') + ')') for b in d)


def enc_boxes(d: list[dict], env: Env) -> str:
    d = [b for b in d if not b.get('absent')]
    return T.lst(T.pair(f'{env.box_id(b["name"])}%N',
                        f'(mkBox {T.lst(enc_msg(m) for m in b["msgs"])} {b["maxuid"]}%N '
                        f'{T.boolean(b["ro"])} {enc_fset(b["perm"])} {b["uidv"]}%N)') for b in d)


def enc_ext(op: dict) -> str:
    opn = {'replace': 'OpReplace', 'add': 'OpAdd', 'delete': 'OpDelete'}
    if op['k'] == 'wstore':
        return (f'(XStore {op["box"]}%N {T.nlist(op["uids"])} {opn[op["op"]]} '
                f'{enc_fset(op["flags"])})')
    if op['k'] == 'wappend':
        return f'(XAppend {op["box"]}%N {enc_fset(op["flags"])} {op["date"]}%N {op["cid"]}%N)'
    return f'(XExpunge {op["box"]}%N)'


def enc_case(env: Env, init: list[dict], steps: list[dict]) -> str:
    """A step is a command of the session under test (with its response) or a change
    made by another connection ('ext').  Per step only the mailboxes whose dump
    changed are listed (all of them at the last step)."""
    bk = 'Dict' if env.kind == 'dict' else 'Maildir'
    prev = {b['name']: canon_dump([b]) for b in init}
    items = []
    for k, s in enumerate(steps):
        last = k == len(steps) - 1
        listed = []
        for b in s['dump']:
            c = canon_dump([b])
            if last or prev.get(b['name']) != c:
                listed.append(b)
            prev[b['name']] = c
        if 'ext' in s:
            items.append(T.pair(f'(LExt {enc_ext(s["ext"])})', 'None', enc_dump(listed, env)))
        else:
            items.append(T.pair(f'(LCmd {enc_cmd(s["cmd"])})', f'(Some {enc_out(s["out"])})',
                                enc_dump(listed, env)))
    return T.pair(bk, enc_boxes(init, env), T.lst(items))


HEADER = ('From PV Require Import Base.Prelude Wire.SeqSet RefModel.Flags RefModel.Model '
          'RefModel.Spec RefModel.Check.\n')


# ------------------------------------------------------------------- running
async def run_program(env: Env, prog, on_step=None) -> tuple[list[dict], list[dict]]:
    """Execute commands one at a time on env.conn; after each, dump every
    mailbox through the probe.  `prog` is a list of commands or a callable
    (step index, ref) -> command | None that generates them on the fly."""
    init = await env.dump(learn=True)
    steps = []
    k = 0
    while True:
        if callable(prog):
            cmd = prog(k)
        else:
            cmd = prog[k] if k < len(prog) else None
        if cmd is None:
            break
        k += 1
        line = env.tag() + b' ' + render(cmd, env.names) + b'\r\n'
        raw = await env.conn.cmd(line)
        out = read_response(raw, env.contents, 'select' if cmd['k'] == 'select' else 'other')
        dump = await env.dump()
        st = {'cmd': cmd, 'wire': line, 'raw': raw, 'out': out, 'dump': dump}
        steps.append(st)
        if on_step is not None and on_step(st) is False:
            break
        if env.conn.closed or env.conn.exc is not None:
            break
    return init, steps


# ------------------------------------------------- Python reference (monitor)
class PyRef:
    """IMAP message commands as RFC 3501 / 4315 / 6851 describe them, for one
    client.  Independent of the Coq spec: mailboxes are dicts keyed by UID,
    sequence numbers are ranks of UIDs, sequence sets are expanded into
    Python sets.  Server choices the RFCs leave open are taken from pymap's
    documented behaviour: EXPUNGE responses highest first; an unsolicited
    RECENT whenever the session's count changes; FETCH FLAGS for messages that
    arrive in the selected mailbox and for an implicit \\Seen."""

    def __init__(self, kind: str, init: list[dict]) -> None:
        self.kind = kind
        self.boxes = {}
        self.all_names = [b['name'] for b in init]
        for b in init:
            if b.get('absent'):
                continue
            self.boxes[b['name']] = {
                'msgs': {m['uid']: {'flags': set(m['flags']), 'date': m['date'],
                                    'cid': m['cid'], 'recent': m['recent']} for m in b['msgs']},
                'next': b['maxuid'] + 1, 'ro': b['ro'], 'perm': set(b['perm']), 'uidv': b['uidv']}
        self.sel = None          # (name, readonly)
        self.recent: set[int] = set()

    # -- helpers
    def _uids(self, box):
        return sorted(self.boxes[box]['msgs']) if box in self.boxes else []

    @staticmethod
    def _expand(ss, star: int) -> set[int]:
        res: set[int] = set()
        for e in ss:
            if isinstance(e, tuple):
                a = star if e[0] == '*' else e[0]
                b = star if e[1] == '*' else e[1]
                lo, hi = min(a, b), max(a, b)
                hi = min(hi, star)
                if lo <= hi:
                    res.update(range(lo, hi + 1)) if hi - lo < 100000 else res.update(
                        x for x in range(lo, min(hi, lo + 100000) + 1))
            else:
                v = star if e == '*' else e
                if v <= star:
                    res.add(v)
        return res

    def _addressed(self, box, ss, uid: bool):
        """[(seq, uid)] ascending"""
        uids = self._uids(box)
        if uid:
            want = self._expand(ss, uids[-1] if uids else 0)
            return [(i + 1, u) for i, u in enumerate(uids) if u in want]
        want = self._expand(ss, len(uids))
        return [(i + 1, u) for i, u in enumerate(uids) if i + 1 in want]

    def _shown(self, box, u) -> frozenset:
        fl = set(self.boxes[box]['msgs'][u]['flags'])
        if u in self.recent:
            fl.add(b'\\Recent')
        return frozenset(fl)

    def _storable(self, box, fl) -> set:
        fl = {canon_flag(f) for f in fl} - {b'\\Recent'}
        if self.kind == 'maildir':       # only flags with a file-name letter survive
            fl &= self.boxes[box]['perm']
        return fl

    def _nrecent(self, box) -> int:
        return len(self.recent & set(self.boxes[box]['msgs']))

    def _deliver(self, box, flags, date, cid) -> int:
        b = self.boxes[box]
        u = b['next']
        b['next'] += 1
        mine = self.sel is not None and self.sel == (box, False)
        b['msgs'][u] = {'flags': set(flags), 'date': date, 'cid': cid, 'recent': not mine}
        if mine:
            self.recent.add(u)
        return u

    def _announce_new(self, box, before_n, before_recent, new_uids, with_uid) -> list:
        out = []
        uids = self._uids(box)
        if new_uids:
            out.append(('EXISTS', len(uids)))
        if self._nrecent(box) != before_recent:
            out.append(('RECENT', self._nrecent(box)))
        for u in new_uids:     # the flags of every arriving message are announced
            out.append(('FETCH', uids.index(u) + 1, u if with_uid else None,
                        self._shown(box, u), None, None))
        return out

    # -- commands
    def step(self, cmd: dict, names: list[str]) -> dict:
        k = cmd['k']
        if self.sel and self.sel[0] not in self.boxes and \
                k in ('noop', 'check', 'store', 'expunge', 'copy', 'move', 'fetch', 'search'):
            ro_first = self.sel[1] and k in ('store', 'expunge', 'move')
            res = {'cond': 'NO', 'code': ('READ-ONLY',) if ro_first else ('NONEXISTENT',)}
        elif self.sel and self.sel[0] not in self.boxes and k == 'close':
            self.sel = None
            self.recent = set()
            res = {'cond': 'OK'}
        else:
            res = getattr(self, '_' + k)(cmd, names)
        res.setdefault('code', None)
        res.setdefault('untagged', [])
        return res

    def _select(self, cmd, names):
        name = names[cmd['box']]
        self.sel = None
        self.recent = set()
        if name not in self.boxes:
            return {'cond': 'NO', 'code': ('NONEXISTENT',)}
        b = self.boxes[name]
        ro = cmd['ro'] or b['ro']
        uids = self._uids(name)
        if not ro:
            for u, m in b['msgs'].items():
                if m['recent']:
                    m['recent'] = False
                    self.recent.add(u)
            nrec = len(self.recent)
        else:
            nrec = sum(1 for m in b['msgs'].values() if m['recent'])
        unseen = next((i + 1 for i, u in enumerate(uids)
                       if b'\\Seen' not in b['msgs'][u]['flags']), None)
        self.sel = (name, ro)
        return {'cond': 'OK', 'code': ('READ-ONLY',) if ro else ('READ-WRITE',),
                'untagged': [('SELECT', len(uids), nrec, b['next'], unseen,
                              frozenset() if ro else frozenset(b['perm']))]}

    def _append(self, cmd, names):
        name = names[cmd['box']]
        if name not in self.boxes:
            return {'cond': 'NO', 'code': ('TRYCREATE',)}
        b = self.boxes[name]
        if b['ro']:
            return {'cond': 'NO', 'code': ('READ-ONLY',)}
        msgs = cmd['msgs']
        if any(m.get('fail') for m in msgs):
            # RFC 3502: MULTIAPPEND is atomic; the server gives up the connection
            tried = 0
            for m in msgs:
                if m.get('fail'):
                    break
                tried += 1
            b['next'] += tried
            self.sel = None
            self.recent = set()
            return {'cond': 'BYE', 'code': ('SERVERBUG',)}
        n0 = len(b['msgs'])
        r0 = self._nrecent(name) if self.sel and self.sel[0] == name else 0
        uids = [self._deliver(name, self._storable(name, m['flags']), m['date'], m['cid'])
                for m in msgs]
        un = []
        if self.sel and self.sel[0] == name:
            un = self._announce_new(name, n0, r0, uids, False)
        return {'cond': 'OK', 'code': ('APPENDUID', uids), 'untagged': un + self._gone()}

    def _need_sel(self):
        return None if self.sel else {'cond': 'BAD'}

    def _store(self, cmd, names):
        if not self.sel:
            return {'cond': 'BAD'}
        box, ro = self.sel
        if ro:
            return {'cond': 'NO', 'code': ('READ-ONLY',)}
        b = self.boxes[box]
        named = {canon_flag(f) for f in cmd['flags']}
        permitted = named & (b['perm'] - {b'\\Recent'})
        un = []
        for seq, u in self._addressed(box, cmd['ss'], cmd['uid']):
            m = b['msgs'][u]
            if cmd['op'] == 'replace':
                m['flags'] = set(permitted)
            elif cmd['op'] == 'add':
                m['flags'] |= permitted
            else:
                m['flags'] -= permitted
            if not cmd['silent']:
                un.append(('FETCH', seq, u if cmd['uid'] else None, self._shown(box, u),
                           None, None))
        return {'cond': 'OK', 'untagged': un}

    def _remove(self, box, dead: list[int], with_new=None, with_uid=False) -> list:
        """remove UIDs from the selected mailbox and report"""
        uids = self._uids(box)
        r0 = self._nrecent(box)
        un = [('EXPUNGE', uids.index(u) + 1) for u in sorted(dead, reverse=True)]
        for u in dead:
            del self.boxes[box]['msgs'][u]
            self.recent.discard(u)
        return un, r0

    def _expunge(self, cmd, names):
        if not self.sel:
            return {'cond': 'BAD'}
        box, ro = self.sel
        if ro:
            return {'cond': 'NO', 'code': ('READ-ONLY',)}
        b = self.boxes[box]
        uids = self._uids(box)
        dead = [u for u in uids if b'\\Deleted' in b['msgs'][u]['flags']]
        if cmd.get('ss') is not None:
            want = self._expand(cmd['ss'], uids[-1] if uids else 0)
            dead = [u for u in dead if u in want]
        un, r0 = self._remove(box, dead)
        if self._nrecent(box) != r0:
            un.append(('RECENT', self._nrecent(box)))
        return {'cond': 'OK', 'untagged': un}

    def _close(self, cmd, names):
        if not self.sel:
            return {'cond': 'BAD'}
        box, ro = self.sel
        self.sel = None
        if not ro:
            b = self.boxes[box]
            for u in [u for u, m in b['msgs'].items() if b'\\Deleted' in m['flags']]:
                del b['msgs'][u]
        self.recent = set()
        return {'cond': 'OK'}

    def _copy(self, cmd, names, move=False):
        if not self.sel:
            return {'cond': 'BAD'}
        box, ro = self.sel
        if move and ro:
            return {'cond': 'NO', 'code': ('READ-ONLY',)}
        dest = names[cmd['dest']]
        if dest not in self.boxes:
            return {'cond': 'NO', 'code': ('TRYCREATE',)}
        if self.boxes[dest]['ro']:
            return {'cond': 'NO', 'code': ('READ-ONLY',)}
        src = self._addressed(box, cmd['ss'], cmd['uid'])
        n0 = len(self.boxes[box]['msgs'])
        r0 = self._nrecent(box)
        pairs = []
        for _seq, u in src:
            m = self.boxes[box]['msgs'][u]
            pairs.append((u, self._deliver(dest, self._storable(dest, m['flags']), m['date'], m['cid'])))
        code = ('COPYUID', [a for a, _ in pairs], [b for _, b in pairs]) if pairs else None
        un = []
        if move:
            un.append(('MOVED', code))
            ex, _ = self._remove(box, [u for _s, u in src])
            un += ex
        new = [b for _, b in pairs] if dest == box else []
        un += self._announce_new(box, n0, r0, new, cmd['uid'])
        return {'cond': 'OK', 'code': None if move else code, 'untagged': un}

    def _move(self, cmd, names):
        return self._copy(cmd, names, move=True)

    def _fetch(self, cmd, names):
        if not self.sel:
            return {'cond': 'BAD'}
        box, ro = self.sel
        b = self.boxes[box]
        attrs = FETCH_MENU[cmd['attrs']][1]
        names_ = {a[0] for a in attrs}
        # RFC 3501 6.4.5: BODY[<section>] (not .PEEK), RFC822, RFC822.TEXT, and RFC 3516
        # BINARY[<section>] set \Seen
        sets_seen = any((n == 'ABody' and sec) or n in ('ABinary', 'ARfc822', 'ARfc822Text')
                        for n, sec, _c in attrs) and not ro
        un = []
        for seq, u in self._addressed(box, cmd['ss'], cmd['uid']):
            m = b['msgs'][u]
            changed = False
            if sets_seen and b'\\Seen' not in m['flags']:
                m['flags'].add(b'\\Seen')
                changed = True
            un.append(('FETCH', seq,
                       u if (cmd['uid'] or 'AUid' in names_) else None,
                       self._shown(box, u) if ('AFlags' in names_ or changed) else None,
                       m['date'] if 'AInternalDate' in names_ else None,
                       m['cid'] if any(c for _n, _s, c in attrs) else None))
        return {'cond': 'OK', 'untagged': un}

    # -- commands that do not act on messages
    def _gone(self):
        """the selected mailbox no longer exists: the session is told BYE"""
        if self.sel and self.sel[0] not in self.boxes:
            self.sel = None
            self.recent = set()
            return [('BYE',)]
        return []

    def _noop(self, cmd, names):
        return {'cond': 'OK'}

    def _check(self, cmd, names):
        return {'cond': 'OK'} if self.sel else {'cond': 'BAD'}

    def _status(self, cmd, names):
        name = names[cmd['box']]
        if name not in self.boxes:
            return {'cond': 'NO', 'code': ('NONEXISTENT',)}
        b = self.boxes[name]
        if self.sel and self.sel[0] == name:
            recent = len(self.recent & set(b['msgs']))
        else:
            recent = sum(1 for m in b['msgs'].values() if m['recent'])
        unseen = sum(1 for m in b['msgs'].values() if b'\\Seen' not in m['flags'])
        return {'cond': 'OK', 'untagged': [('STATUS', cmd['box'], len(b['msgs']), recent, b['next'],
                                            b['uidv'], unseen)] + self._gone()}

    def _key(self, box, seq, u, k) -> bool:
        kind = k[0]
        if kind == 'all':
            return True
        fl = self._shown(box, u)
        if kind == 'flag':
            return (canon_flag(k[1]) in fl) == k[2]
        if kind == 'new':
            return b'\\Recent' in fl and b'\\Seen' not in fl
        if kind == 'set':
            uids = self._uids(box)
            if k[1]:
                return u in self._expand(k[2], uids[-1] if uids else 0)
            return seq in self._expand(k[2], len(uids))
        if kind == 'not':
            return not self._key(box, seq, u, k[1])
        if kind == 'or':
            return self._key(box, seq, u, k[1]) or self._key(box, seq, u, k[2])
        raise ValueError(k)

    def _search(self, cmd, names):
        if not self.sel:
            return {'cond': 'BAD'}
        box = self.sel[0]
        hits = [(i + 1, u) for i, u in enumerate(self._uids(box))
                if all(self._key(box, i + 1, u, k) for k in cmd['keys'])]
        return {'cond': 'OK', 'untagged': [('SEARCH', [u if cmd['uid'] else q for q, u in hits])]}

    def _new_box(self, uidv):
        return {'msgs': {}, 'next': 101 if self.kind == 'dict' else 1, 'ro': False,
                'perm': {canon_flag(f) for f in SYS5}, 'uidv': uidv}

    def _create(self, cmd, names):
        name = names[cmd['box']]
        if name == 'INBOX':
            return {'cond': 'NO'}
        if name in self.boxes:
            return {'cond': 'NO', 'code': ('ALREADYEXISTS',)}
        self.boxes[name] = self._new_box(cmd['uidv'])
        return {'cond': 'OK', 'untagged': self._gone()}

    def _delete(self, cmd, names):
        name = names[cmd['box']]
        if name == 'INBOX':
            return {'cond': 'NO'}
        if name not in self.boxes:
            return {'cond': 'NO', 'code': ('NONEXISTENT',)}
        del self.boxes[name]
        return {'cond': 'OK', 'untagged': self._gone()}

    def _rename(self, cmd, names):
        src, dst = names[cmd['from']], names[cmd['to']]
        if dst == 'INBOX':
            return {'cond': 'NO'}
        if src == 'INBOX' and self.kind == 'maildir':
            return {'cond': 'NO', 'code': ('CANNOT',)}
        if src not in self.boxes:
            return {'cond': 'NO', 'code': ('NONEXISTENT',)}
        if dst in self.boxes:
            return {'cond': 'NO', 'code': ('ALREADYEXISTS',)}
        self.boxes[dst] = self.boxes.pop(src)
        if src == 'INBOX':          # RFC 3501 6.3.5: INBOX is left empty, not removed
            self.boxes['INBOX'] = self._new_box(cmd['uidv'])
            if self.sel and self.sel[0] == 'INBOX':
                # the messages this session has selected now live under another name: its
                # selection denotes no mailbox any more (it learns that with its next command)
                self.sel = ('\0gone', self.sel[1])
                return {'cond': 'OK'}
        return {'cond': 'OK', 'untagged': self._gone()}

    # -- another client changes a mailbox (plain state change, nothing is reported here)
    def interfere(self, op: dict, names: list[str]) -> None:
        box = names[op['box']]
        b = self.boxes[box]
        if op['k'] in ('wstore', 'wexpunge'):
            # the writer selects the mailbox read-write: it is given the stored \Recent marks
            for m in b['msgs'].values():
                m['recent'] = False
        if op['k'] == 'wstore':
            named = {canon_flag(f) for f in op['flags']} & (b['perm'] - {b'\\Recent'})
            for u in op['uids']:
                m = b['msgs'].get(u)
                if m is None:
                    continue
                if op['op'] == 'replace':
                    m['flags'] = set(named)
                elif op['op'] == 'add':
                    m['flags'] |= named
                else:
                    m['flags'] -= named
        elif op['k'] == 'wexpunge':
            for u in [u for u, m in b['msgs'].items() if b'\\Deleted' in m['flags']]:
                del b['msgs'][u]
                if self.sel and self.sel[0] == box:
                    self.recent.discard(u)
        elif op['k'] == 'wappend':
            mine = self.sel
            if self.kind == 'maildir':
                # a maildir session only knows the selections of its own connection: what another
                # connection delivers is stored \\Recent (file in new/), whoever has it selected
                self.sel = None
            self._deliver(box, self._storable(box, op['flags']), op['date'], op['cid'])
            self.sel = mine

    def snapshot(self) -> list[dict]:
        out = []
        for name in self.all_names:
            if name not in self.boxes:
                out.append({'name': name, 'absent': True})
                continue
            b = self.boxes[name]
            out.append({'name': name, 'maxuid': b['next'] - 1, 'uidv': b['uidv'],
                        'msgs': [{'uid': u, 'flags': frozenset(m['flags']), 'date': m['date'],
                                  'cid': m['cid'], 'recent': m['recent']}
                                 for u, m in sorted(b['msgs'].items())]})
        return out


def canon_out(o: dict) -> tuple:
    return (o['cond'], o.get('code'), tuple(o.get('untagged') or ()))


def canon_dump(d: list[dict]) -> list:
    return [(b['name'], None) if b.get('absent') else (b['name'], b['maxuid'], b['uidv'],
             [(m['uid'], frozenset(m['flags']), m['date'], m['cid'], m['recent'])
              for m in b['msgs']]) for b in d]


# ---------------------------------------------------------------- generators
def gen_seqset(rng, n: int, uid: bool, uids: list[int]):
    """every shape: in range, out of range, reversed, '*', duplicates, huge"""
    if uid:
        lo = (uids[0] if uids else 1)
        hi = (uids[-1] if uids else 1)
        pool = list(range(max(1, lo - 3), hi + 4))
    else:
        pool = list(range(1, n + 4))

    def num():
        r = rng.random()
        if r < 0.06:
            return rng.choice([4294967295, 10 ** 12, 999])
        if r < 0.2 and uids and uid:
            return rng.choice(uids)
        return rng.choice(pool)

    def idx():
        return '*' if rng.random() < 0.18 else num()
    out = []
    for _ in range(rng.choice([1, 1, 1, 2, 2, 3])):
        r = rng.random()
        if r < 0.45:
            out.append(idx())
        else:
            a, b = idx(), idx()
            out.append((a, b))
    if rng.random() < 0.1:
        out.append(out[0])          # duplicate
    if rng.random() < 0.08:
        out = [(1, '*')]
    return out


def gen_flags(rng, kind: str, allow_recent: bool = True):
    """(canonical flag list, spelled flag list)"""
    pool = SYS5 * 3 + KEYWORDS + ([b'\\Recent'] if allow_recent else [])
    n = rng.choice([0, 1, 1, 1, 2, 2, 3, 4])
    chosen = [rng.choice(pool) for _ in range(n)]
    spelled = [rng.choice(SPELL.get(f, [f])) for f in chosen]
    return [canon_flag(f) for f in chosen], spelled


def gen_amsg(rng, env: Env, nextcid, fail: bool = False) -> dict:
    fl, sp = gen_flags(rng, env.kind, allow_recent=True)     # \\Recent in APPEND is dropped
    m = {'flags': fl, 'spelled': sp, 'date': rng.randrange(0, 2_000_000_000),
         'zone': rng.choice([0, 0, 60, -300, 330, 765])}
    if fail:
        m['fail'] = True
    else:
        m['cid'] = nextcid()
    return m


def gen_key(rng, n: int, uids: list[int], depth: int = 0):
    r = rng.random()
    if depth < 2 and r < 0.12:
        return ('not', gen_key(rng, n, uids, depth + 1))
    if depth < 2 and r < 0.22:
        return ('or', gen_key(rng, n, uids, depth + 1), gen_key(rng, n, uids, depth + 1))
    if r < 0.3:
        return ('all',)
    if r < 0.36:
        return ('new',)
    if r < 0.75:
        return ('flag', rng.choice(SYS5 * 2 + [b'\\Recent', b'\\Recent'] + KEYWORDS[:4]),
                rng.random() < 0.6)
    uid = rng.random() < 0.5
    return ('set', uid, gen_seqset(rng, n, uid, uids))


def gen_cmd(rng, env: Env, ref: PyRef, weights: dict, nextcid) -> dict:
    kinds = [x for x in weights if x != 'fail']
    if ref.sel is None and 'select' in weights and rng.random() < 0.8:
        k = rng.choice(['select', 'select', 'select', 'append', 'status'])   # leave the BAD state
    elif ref.sel is None and rng.random() < 0.7:
        k = 'append'
    else:
        k = rng.choices(kinds, [weights[x] for x in kinds])[0]
    sel = ref.sel[0] if ref.sel else None
    uids = ref._uids(sel) if sel else []
    n = len(uids)
    have = [i for i, nm in enumerate(env.names) if nm in ref.boxes]
    missing = [i for i, nm in enumerate(env.names) if nm not in ref.boxes]

    def box(real_bias=0.9):
        if missing and rng.random() >= real_bias:
            return rng.choice(missing)
        return rng.choice(have)

    uid = rng.random() < 0.45
    if k == 'select':
        return {'k': 'select', 'box': box(0.95), 'ro': rng.random() < 0.35}
    if k == 'append':
        nmsg = rng.choice([1, 1, 1, 1, 2, 3])
        msgs = [gen_amsg(rng, env, nextcid) for _ in range(nmsg)]
        if 'fail' in weights and rng.random() < weights['fail']:
            msgs.insert(rng.randrange(len(msgs) + 1), gen_amsg(rng, env, nextcid, fail=True))
        return {'k': 'append', 'box': box(), 'msgs': msgs}
    if k == 'store':
        fl, sp = gen_flags(rng, env.kind)
        if rng.random() < 0.35 and b'\\Deleted' not in fl:
            fl.append(b'\\Deleted')
            sp.append(b'\\Deleted')
        return {'k': 'store', 'uid': uid, 'ss': gen_seqset(rng, n, uid, uids),
                'op': rng.choice(['replace', 'add', 'add', 'delete']),
                'silent': rng.random() < 0.4, 'flags': fl, 'spelled': sp,
                'word': rng.choice([b'FLAGS', b'FLAGS', b'flags']),
                'paren': bool(sp) and rng.random() < 0.85 or not sp}
    if k == 'expunge':
        return {'k': 'expunge', 'ss': None}
    if k == 'uidexpunge':
        return {'k': 'expunge', 'ss': gen_seqset(rng, n, True, uids)}
    if k in ('copy', 'move'):
        return {'k': k, 'uid': uid, 'ss': gen_seqset(rng, n, uid, uids), 'dest': box(0.92)}
    if k == 'fetch':
        return {'k': 'fetch', 'uid': uid, 'ss': gen_seqset(rng, n, uid, uids),
                'attrs': rng.randrange(len(FETCH_MENU))}
    if k in ('close', 'noop', 'check'):
        return {'k': k}
    if k == 'status':
        return {'k': 'status', 'box': env.names.index(sel) if sel in env.names and rng.random() < 0.45
                else box(0.9)}
    if k == 'search':
        return {'k': 'search', 'uid': uid,
                'keys': [gen_key(rng, n, uids) for _ in range(rng.choice([1, 1, 2, 3]))]}
    if k == 'create':
        return {'k': 'create', 'box': box(0.25)}
    if k == 'delete':
        # deleting / renaming the selected mailbox ends the connection: keep it rare
        cand = [i for i in have if env.names[i] != sel or rng.random() < 0.15] or have
        return {'k': 'delete', 'box': rng.choice(cand) if rng.random() < 0.85 else box(0.0)}
    if k == 'rename':
        cand = [i for i in have if env.names[i] != sel or rng.random() < 0.15] or have
        return {'k': 'rename', 'from': rng.choice(cand) if rng.random() < 0.85 else box(0.0),
                'to': box(0.15)}
    raise ValueError(k)


C10_WEIGHTS = {'select': 9, 'append': 13, 'store': 22, 'expunge': 7, 'uidexpunge': 5,
               'copy': 9, 'move': 8, 'fetch': 13, 'close': 3, 'noop': 2, 'check': 2,
               'status': 5, 'search': 8, 'create': 3, 'delete': 2, 'rename': 3, 'fail': 0.04}
C12_WEIGHTS = {'append': 11, 'store': 20, 'expunge': 8, 'uidexpunge': 6,
               'copy': 12, 'move': 13, 'fetch': 16, 'close': 3, 'noop': 2, 'check': 2,
               'status': 4, 'search': 7}


# ------------------------------------------------------- interfering writer
def gen_wop(rng, env: Env, ref: PyRef, nextcid) -> dict:
    """a change made by ANOTHER connection: flags, a delivery, or an expunge"""
    writable = [i for i, n in enumerate(env.names) if n in ref.boxes and not ref.boxes[n]['ro']]
    box = rng.choice(writable)
    if ref.sel and ref.sel[0] in ref.boxes and ref.sel[0] in env.names \
            and not ref.boxes[ref.sel[0]]['ro'] and rng.random() < 0.75:
        box = env.names.index(ref.sel[0])
    uids = ref._uids(env.names[box])
    r = rng.random()
    if r < 0.55 and uids:
        fl, sp = gen_flags(rng, env.kind, allow_recent=False)
        if rng.random() < 0.6:
            fl, sp = fl + [b'\\Deleted'], sp + [b'\\Deleted']
        return {'k': 'wstore', 'box': box, 'uids': sorted(rng.sample(uids, rng.randint(1, min(3, len(uids))))),
                'op': rng.choice(['add', 'add', 'delete', 'delete', 'replace']),
                'flags': fl, 'spelled': sp}
    if r < 0.8 or not uids:
        fl, sp = gen_flags(rng, env.kind, allow_recent=False)
        # (never \\Deleted: whether a session's EXPUNGE/CLOSE removes a message it has not been
        # told about yet is not determined by the RFC)
        keep = [i for i, f in enumerate(fl) if f != b'\\Deleted']
        fl, sp = [fl[i] for i in keep], [sp[i] for i in keep]
        return {'k': 'wappend', 'box': box, 'flags': fl, 'spelled': sp,
                'date': rng.randrange(0, 2_000_000_000), 'cid': nextcid()}
    return {'k': 'wexpunge', 'box': box}


def render_wop(op: dict, names: list[str]) -> list[bytes]:
    """the writer's command lines (it never keeps a mailbox selected)"""
    nm = names[op['box']].encode()
    if op['k'] == 'wappend':
        lit = content(op['cid'])
        return [b'APPEND ' + nm + b' (' + b' '.join(op['spelled']) + b') '
                + render_date(op['date']) + b' {%d}\r\n' % len(lit) + lit]
    if op['k'] == 'wexpunge':
        return [b'SELECT ' + nm, b'EXPUNGE', b'SELECT NoSuchBox']
    item = {'replace': b'', 'add': b'+', 'delete': b'-'}[op['op']] + b'FLAGS.SILENT'
    return [b'SELECT ' + nm,
            b'UID STORE ' + b','.join(b'%d' % u for u in op['uids']) + b' ' + item
            + b' (' + b' '.join(op['spelled']) + b')',
            b'SELECT NoSuchBox']


def gen_uid_cmd(rng, env: Env, ref: PyRef, nextcid, known=None) -> dict:
    """a command whose meaning does not depend on what the session has been told
    so far: no sequence numbers, no '*', only UIDs the session knows (some may
    have been expunged by the other connection meanwhile)"""
    uids = list(known) if known else []
    ss = sorted(rng.sample(uids, rng.randint(1, min(3, len(uids))))) if uids else []
    k = rng.choice(['expunge', 'expunge', 'close', 'uidexpunge', 'store', 'fetch', 'copy', 'move']
                   if uids else ['expunge', 'expunge', 'close'])
    if k == 'expunge':
        return {'k': 'expunge', 'ss': None}
    if k == 'close':
        return {'k': 'close'}
    if k == 'uidexpunge':
        return {'k': 'expunge', 'ss': ss}
    if k == 'store':
        fl, sp = gen_flags(rng, env.kind)
        return {'k': 'store', 'uid': True, 'ss': ss, 'op': rng.choice(['add', 'delete', 'replace']),
                'silent': rng.random() < 0.5, 'flags': fl, 'spelled': sp}
    if k == 'fetch':
        return {'k': 'fetch', 'uid': True, 'ss': ss, 'attrs': rng.randrange(len(FETCH_MENU))}
    return {'k': k, 'uid': True, 'ss': ss,
            'dest': rng.choice([i for i, n in enumerate(env.names) if n in ref.boxes])}
