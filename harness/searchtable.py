"""C13: the translator for the finite tables of SEARCH.

From the real code imported from /repo it derives, on every run,
coq/theories/Search/KeyTable.v (rewritten only when its content changes):

* `grammar_table` — from the `ast` of `SearchKey.parse`
  (pymap/parsing/specials/searchkey.py): every keyword the `if key in (...)`
  chain accepts, the shape of its arguments (which sub-parsers the branch
  calls) and the key name the branch constructs; plus three facts about the
  prefix of the function: `not_repeats` (the NOT prefix is consumed in a loop),
  `bare_set_uid` (a bare sequence set keeps `params.uid`, i.e. would be a UID
  set inside UID SEARCH) and `keyset_nonempty` (an empty parenthesised list is
  refused);
* `dispatch_table` — by running `SearchCriteria.of` on one well-typed
  `SearchKey` per key name: the criteria class with its constant constructor
  arguments (flag and expected value, comparison operator, envelope field,
  with_header), and `SearchKey.requirement` of that key;
* `default_disabled` — the default of `IMAPConfig.disable_search_keys`.

Fail-closed: any statement, branch, class or value the translator does not
recognise raises `TranslatorError`; the check reports it as a broken
obligation and the stale table is left in place.
"""
from __future__ import annotations

import ast
import inspect
import os
import textwrap
from datetime import datetime

from .coqrun import TH

TABLE_PATH = os.path.join(TH, 'Search', 'KeyTable.v')


class TranslatorError(Exception):
    pass


# ------------------------------------------------------------------- grammar
def _calls(node) -> list[str]:
    out = []
    for n in ast.walk(node):
        if isinstance(n, ast.Call) and isinstance(n.func, ast.Attribute):
            recv = n.func.value
            if isinstance(recv, ast.Name):
                out.append(f'{recv.id}.{n.func.attr}')
    return out


def _bytes_consts(node) -> list[bytes]:
    if isinstance(node, ast.Constant) and isinstance(node.value, bytes):
        return [node.value]
    if isinstance(node, ast.Tuple):
        res = []
        for e in node.elts:
            if not (isinstance(e, ast.Constant) and isinstance(e.value, bytes)):
                raise TranslatorError(f'non-constant key in {ast.unparse(node)}')
            res.append(e.value)
        return res
    raise TranslatorError(f'unrecognised key test operand {ast.unparse(node)}')


def _final_return(body) -> ast.Return:
    rets = [n for n in body if isinstance(n, ast.Return)]
    if len(rets) != 1 or body[-1] is not rets[0]:
        raise TranslatorError('a grammar branch must end in exactly one return')
    return rets[0]


def _ctor(ret: ast.Return):
    """`return cls(<key>, <filter>?, <inverse>), buf` -> (key node, inverse ok)"""
    val = ret.value
    if not (isinstance(val, ast.Tuple) and len(val.elts) == 2 and isinstance(val.elts[0], ast.Call)):
        raise TranslatorError(f'unrecognised return {ast.unparse(ret)}')
    call = val.elts[0]
    if not (isinstance(call.func, ast.Name) and call.func.id == 'cls'):
        raise TranslatorError(f'unrecognised constructor {ast.unparse(call)}')
    inv = None
    if len(call.args) == 3:
        inv = call.args[2]
    for kw in call.keywords:
        if kw.arg == 'inverse':
            inv = kw.value
    if not (isinstance(inv, ast.Name) and inv.id == 'inverse'):
        raise TranslatorError(f'the key is not built with the parsed inverse flag: {ast.unparse(call)}')
    return call.args[0]


def _classify_branch(body) -> tuple[str, bytes | None]:
    """-> (shape, constant produced name or None = the keyword itself)"""
    ret = _final_return(body)
    keynode = _ctor(ret)
    produced = None
    if isinstance(keynode, ast.Constant) and isinstance(keynode.value, bytes):
        produced = keynode.value
    elif not (isinstance(keynode, ast.Name) and keynode.id == 'key'):
        raise TranslatorError(f'unrecognised key name {ast.unparse(keynode)}')
    calls = [c for stmt in body for c in _calls(stmt)]
    parsers = [c for c in calls if c not in ('Space.parse',)]
    src = '\n'.join(ast.unparse(s) for s in body)
    sig = tuple(parsers)
    if sig == ():
        return 'ShNone', produced
    if sig == ('cls._parse_astring_filter',):
        return 'ShStr', produced
    if sig == ('cls._parse_astring_filter', 'cls._parse_astring_filter'):
        if calls.count('Space.parse') != 2:
            raise TranslatorError('HEADER-like branch without two separators')
        return 'ShHdr', produced
    if sig == ('ObjectId.parse',):
        return 'ShObj', produced
    if sig == ('cls._parse_date_filter',):
        return 'ShDate', produced
    if sig == ('Flag.parse', 'NotParseable') or sig == ('Flag.parse',):
        if 'is_system' not in src or 'raise NotParseable' not in src:
            raise TranslatorError('keyword branch without the system-flag refusal')
        return 'ShKeyword', produced
    if sig == ('Number.parse',):
        return 'ShInt', produced
    if sig == ('SequenceSet.parse', 'params.copy'):
        if 'params.copy(uid=True)' not in src:
            raise TranslatorError('UID branch does not force uid=True')
        return 'ShUidSet', produced
    if sig == ('SearchKey.parse', 'SearchKey.parse'):
        if calls.count('Space.parse') != 2:
            raise TranslatorError('OR branch without two separators')
        return 'ShOr', produced
    raise TranslatorError(f'unrecognised grammar branch: parsers {sig} in\n{src}')


def introspect_grammar() -> dict:
    from pymap.parsing.specials.searchkey import SearchKey
    src = textwrap.dedent(inspect.getsource(SearchKey.parse.__func__))
    fn = ast.parse(src).body[0]
    body = list(fn.body)
    if body and isinstance(body[0], ast.Expr) and isinstance(body[0].value, ast.Constant):
        body = body[1:]       # docstring
    info = {'rows': []}
    i = 0

    def expect(cond, what):
        if not cond:
            raise TranslatorError(f'SearchKey.parse: expected {what} at statement {i}: '
                                  f'{ast.unparse(body[i])[:120] if i < len(body) else "<end>"}')
    # leading optional space
    expect(isinstance(body[i], ast.Try) and 'Space.parse' in _calls(body[i]), 'optional Space')
    i += 1
    expect(ast.unparse(body[i]) == 'inverse = False', 'inverse = False')
    i += 1
    expect(isinstance(body[i], ast.Assign) and '_not_pattern.match' in ast.unparse(body[i]), 'NOT match')
    i += 1
    if isinstance(body[i], ast.While):
        expect('inverse = not inverse' in ast.unparse(body[i]), 'inverse flipped in the NOT loop')
        info['not_repeats'] = True
    elif isinstance(body[i], ast.If):
        expect('inverse = True' in ast.unparse(body[i]), 'inverse set by the NOT prefix')
        info['not_repeats'] = False
    else:
        expect(False, 'NOT prefix handling')
    i += 1
    # bare sequence set
    expect(isinstance(body[i], ast.Try) and 'SequenceSet.parse' in _calls(body[i]) and body[i].orelse,
           'bare sequence set')
    t = ast.unparse(body[i].body[0])
    if 'params.copy(uid=False)' in t:
        info['bare_set_uid'] = False
    elif 'SequenceSet.parse(buf, params)' in t:
        info['bare_set_uid'] = True
    else:
        expect(False, 'SequenceSet.parse(buf, params[.copy(uid=False)])')
    k = _ctor(_final_return(body[i].orelse))
    expect(isinstance(k, ast.Constant) and k.value == b'SEQSET', "cls(b'SEQSET', ...)")
    i += 1
    # parenthesised list
    expect(isinstance(body[i], ast.Try) and 'List.parse' in _calls(body[i]) and body[i].orelse,
           'parenthesised list')
    expect('expected=[SearchKey]' in ast.unparse(body[i].body[0]), 'a list of search keys')
    k = _ctor(_final_return(body[i].orelse))
    expect(isinstance(k, ast.Constant) and k.value == b'KEYSET', "cls(b'KEYSET', ...)")
    els = '\n'.join(ast.unparse(s) for s in body[i].orelse)
    info['keyset_nonempty'] = 'raise NotParseable' in els and ('not key_set' in els or 'len(key_set)' in els)
    extra = [s for s in body[i].orelse[:-1] if not isinstance(s, (ast.Assign, ast.If))]
    expect(not extra, 'only assignments / the emptiness test before the KEYSET return')
    i += 1
    expect(ast.unparse(body[i]) == 'atom, after = Atom.parse(buf, params)', 'atom')
    i += 1
    expect(ast.unparse(body[i]) == 'key = atom.value.upper()', 'upper-cased keyword')
    i += 1
    node = body[i]
    expect(isinstance(node, ast.If), 'the keyword chain')
    while True:
        t = node.test
        if not (isinstance(t, ast.Compare) and isinstance(t.left, ast.Name) and t.left.id == 'key'
                and len(t.ops) == 1 and isinstance(t.ops[0], (ast.In, ast.Eq))):
            raise TranslatorError(f'unrecognised keyword test {ast.unparse(t)}')
        words = _bytes_consts(t.comparators[0])
        shape, produced = _classify_branch(node.body)
        for w in words:
            info['rows'].append({'word': w, 'shape': shape, 'name': produced or w})
        if len(node.orelse) == 1 and isinstance(node.orelse[0], ast.If):
            node = node.orelse[0]
        elif not node.orelse:
            break
        else:
            raise TranslatorError('the keyword chain has a non-refusing else branch')
    i += 1
    expect(i == len(body) - 1 and isinstance(body[i], ast.Raise), 'raise NotParseable after the chain')
    words = [r['word'] for r in info['rows']]
    if len(set(words)) != len(words):
        raise TranslatorError('a keyword occurs in two branches')
    return info


# ------------------------------------------------------------------ dispatch
class _FakeMessages:
    exists = 7
    max_uid = 107


class _FakeSelected:
    messages = _FakeMessages()
    session_flags = None


_SYSFLAG = {b'\\Answered': 'FAnswered', b'\\Deleted': 'FDeleted', b'\\Draft': 'FDraft',
            b'\\Flagged': 'FFlagged', b'\\Seen': 'FSeen', b'\\Recent': 'FRecent'}
_DOP = {'<': 'DLt', '=': 'DEq', '>=': 'DGe'}
_SOP = {'<': 'SzLt', '>': 'SzGt'}
_FIELD = {b'BCC': 'HBcc', b'CC': 'HCc', b'FROM': 'HFrom', b'SUBJECT': 'HSubject', b'TO': 'HTo'}
_REQ = {'NONE': 0, 'METADATA': 1, 'HEADER': 2, 'BODY': 4}


def _sample_key(name: bytes, shape: str, inverse: bool = False):
    from pymap.frozen import frozenlist
    from pymap.parsing.specials import SearchKey, SequenceSet, ObjectId
    from pymap.parsing.specials.flag import Flag
    filt = {
        'ShNone': None, 'ShStr': 'needle', 'ShHdr': ('x-name', 'needle'),
        'ShObj': ObjectId(b'M123'), 'ShDate': datetime(2019, 1, 2), 'ShKeyword': Flag(b'kw'),
        'ShInt': 42, 'ShUidSet': SequenceSet([3], True), 'ShSet': SequenceSet([3], False),
        'ShOr': (SearchKey(b'ALL'), SearchKey(b'ALL')),
        'ShList': frozenlist([SearchKey(b'ALL')]),
    }[shape]
    return SearchKey(name, filt, inverse)


def _describe(crit, key) -> str:
    from pymap import search as S
    cls = type(crit)
    if cls is S.AllSearchCriteria:
        return 'CkAll'
    if cls is S.SequenceSetSearchCriteria:
        if crit.seq_set is not key.filter:
            raise TranslatorError('SequenceSetSearchCriteria does not carry the key\'s set')
        return 'CkSeq'
    if cls is S.SearchCriteriaSet:
        return 'CkKeySet'
    if cls is S.OrSearchCriteria:
        return 'CkOr'
    if cls is S.HasEmailIdSearchCriteria:
        return 'CkEmailId'
    if cls is S.HasThreadIdSearchCriteria:
        return 'CkThreadId'
    if cls is S.HasFlagSearchCriteria:
        if not isinstance(crit.expected, bool):
            raise TranslatorError('HasFlagSearchCriteria.expected is not a bool')
        e = 'true' if crit.expected else 'false'
        if crit.flag is key.filter:
            return f'(CkKeyword {e})'
        fb = bytes(crit.flag)
        if fb not in _SYSFLAG:
            raise TranslatorError(f'flag criteria on an unknown constant flag {fb!r}')
        return f'(CkFlag {_SYSFLAG[fb]} {e})'
    if cls is S.NewSearchCriteria:
        return 'CkNew'
    if cls is S.DateSearchCriteria:
        return f'(CkDate {_DOP[crit.op]})'
    if cls is S.HeaderDateSearchCriteria:
        return f'(CkHdrDate {_DOP[crit.op]})'
    if cls is S.SizeSearchCriteria:
        return f'(CkSize {_SOP[crit.op]})'
    if cls is S.EnvelopeSearchCriteria:
        return f'(CkEnv {_FIELD[crit.key]})'
    if cls is S.HeaderSearchCriteria:
        return 'CkHeader'
    if cls is S.BodySearchCriteria:
        if not isinstance(crit.with_header, bool):
            raise TranslatorError('BodySearchCriteria.with_header is not a bool')
        return f'(CkBody {"true" if crit.with_header else "false"})'
    raise TranslatorError(f'unrecognised criteria class {cls.__name__}')


def introspect_dispatch(grammar: dict) -> list[dict]:
    from pymap.exceptions import SearchNotAllowed
    from pymap.parsing.specials.fetchattr import FetchRequirement
    from pymap.search import SearchCriteria, SearchParams, InverseSearchCriteria
    names: dict[bytes, str] = {b'SEQSET': 'ShSet', b'KEYSET': 'ShList'}
    for r in grammar['rows']:
        shape = r['shape']
        if r['name'] == b'SEQSET':
            continue
        if names.setdefault(r['name'], shape) != shape:
            raise TranslatorError(f'key name {r["name"]!r} is built with two argument shapes')
    rows = []
    for name in sorted(names):
        shape = names[name]
        key = _sample_key(name, shape)
        params = SearchParams(_FakeSelected())
        try:
            crit = SearchCriteria.of(key, params)
        except SearchNotAllowed as exc:
            raise TranslatorError(f'the parser builds key {name!r} but SearchCriteria.of has no '
                                  f'criteria for it') from exc
        except Exception as exc:
            raise TranslatorError(f'of({name!r}) failed: {exc!r}') from exc
        desc = _describe(crit, key)
        from pymap.parsing.specials import SearchKey as _SK
        inv = SearchCriteria.of(_SK(name, key.filter, True), params)
        if type(inv) is not InverseSearchCriteria or _describe(inv.key, key) != desc:
            raise TranslatorError(f'an inverted {name!r} key is not Inverse(<same criteria>)')
        try:
            SearchCriteria.of(key, SearchParams(_FakeSelected(), disabled=[name]))
        except SearchNotAllowed:
            pass
        else:
            raise TranslatorError(f'a disabled {name!r} key is not refused')
        req = key.requirement
        if not isinstance(req, FetchRequirement):
            raise TranslatorError('requirement is not a FetchRequirement')
        rows.append({'name': name, 'req': req.value, 'crit': desc})
    # the two recursive keys reduce the requirements of their children with |
    from pymap.frozen import frozenlist
    from pymap.parsing.specials import SearchKey
    keys = [SearchKey(b'LARGER', 1), SearchKey(b'SEEN'), SearchKey(b'HEADER', ('a', 'b')),
            SearchKey(b'ALL')]
    for a in keys:
        for b in keys:
            want = a.requirement.value | b.requirement.value
            for k in (SearchKey(b'KEYSET', frozenlist([a, b])), SearchKey(b'OR', (a, b)),
                      SearchKey(b'KEYSET', frozenlist([SearchKey(b'OR', (a, b), True)]), True)):
                if k.requirement.value != want:
                    raise TranslatorError(f'requirement of {k.value!r} is not the union of its children')
    if SearchKey(b'KEYSET', frozenlist([])).requirement.value != 0:
        raise TranslatorError('requirement of an empty KEYSET is not NONE')
    if FetchRequirement.CONTENT.value != 6 or FetchRequirement.METADATA.value != 1 \
            or FetchRequirement.HEADER.value != 2:
        raise TranslatorError('FetchRequirement bit values changed')
    return rows


def default_disabled() -> list[bytes]:
    from pymap.config import IMAPConfig
    sig = inspect.signature(IMAPConfig.__init__)
    d = sig.parameters['disable_search_keys'].default
    if d is None:
        src = inspect.getsource(IMAPConfig.__init__)
        if 'disable_search_keys or []' not in src:
            raise TranslatorError('IMAPConfig: default of disable_search_keys not recognised')
        return []
    return [bytes(x) for x in d]


# -------------------------------------------------------------------- render
def render(grammar: dict, dispatch: list[dict], disabled: list[bytes]) -> str:
    def b(x):
        return 'true' if x else 'false'
    grows = [f'  mk_grow "{r["word"].decode()}" {r["shape"]} N{r["name"].decode()}'
             for r in grammar['rows']]
    drows = [f'  mk_drow N{r["name"].decode()} {r["req"]} {r["crit"]}' for r in dispatch]
    return (
        '(* Search/KeyTable.v -- GENERATED by harness/searchtable.py from the code of /repo:\n'
        '   the ast of pymap.parsing.specials.searchkey.SearchKey.parse (keyword, argument shape,\n'
        '   constructed key name; NOT loop, uid of a bare set, empty list refused) and, per key\n'
        '   name, SearchKey.requirement and the criteria object SearchCriteria.of builds.\n'
        '   Do not edit: it is rewritten whenever the introspected tables differ. *)\n'
        'From Coq Require Import String List NArith.\n'
        'From PV Require Import Search.Keys Search.KeyRow.\n'
        'Import ListNotations.\n'
        'Open Scope string_scope.\n\n'
        f'Definition not_repeats : bool := {b(grammar["not_repeats"])}.\n'
        f'Definition bare_set_uid : bool := {b(grammar["bare_set_uid"])}.\n'
        f'Definition keyset_nonempty : bool := {b(grammar["keyset_nonempty"])}.\n\n'
        'Definition grammar_table : list grow := [\n' + ';\n'.join(grows) + '\n].\n\n'
        'Definition dispatch_table : list drow := [\n' + ';\n'.join(drows) + '\n]%N.\n\n'
        'Definition default_disabled : list kname := '
        + ('[' + '; '.join('N' + d.decode() for d in disabled) + ']' if disabled else '[]') + '.\n')


def write_key_table() -> tuple[dict, bool]:
    """Regenerate Search/KeyTable.v; write only when the content changed.
    Returns ({'grammar':…, 'dispatch':…}, changed).  Raises TranslatorError."""
    try:
        grammar = introspect_grammar()
        dispatch = introspect_dispatch(grammar)
        disabled = default_disabled()
    except TranslatorError:
        raise
    except Exception as exc:          # fail closed, whatever went wrong
        raise TranslatorError(f'{type(exc).__name__}: {exc}') from exc
    from .searchlib import KNAMES
    unknown = sorted({r['name'] for r in grammar['rows']} | {r['name'] for r in dispatch}
                     | set(disabled)) 
    unknown = [n for n in unknown if n not in KNAMES]
    if unknown:
        raise TranslatorError(f'key names unknown to the model (Search/Keys.v kname): {unknown}')
    text = render(grammar, dispatch, disabled)
    old = open(TABLE_PATH).read() if os.path.exists(TABLE_PATH) else None
    changed = old != text
    if changed:
        tmp = TABLE_PATH + '.tmp%d' % os.getpid()
        with open(tmp, 'w') as f:
            f.write(text)
        os.replace(tmp, TABLE_PATH)
    return {'grammar': grammar, 'dispatch': dispatch, 'disabled': disabled}, changed
