(* UidRecent/Maildir.v — the maildir backend's UID / \Recent mechanics as a
   concrete folder state, and the abstraction to the [box] of Model.v.

   pymap/backend/maildir/mailbox.py + uidlist.py:
     dovecot-uidlist      header next_uid (persisted), records uid -> file key
     new/ , cur/          a file in new/ is the stored "not yet claimed" bit
     append / copy / move write the message file, then add the record
                          Record(next_uid, key); next_uid += 1  (with_write)
     reset()              (every get_mailbox) adopts files that have no record:
                          each gets next_uid, in listing order
     claim_recent         moves every file of new/ to cur/
     messages()/snapshot  list the records whose file exists; UIDNEXT = next_uid
   External delivery (another agent drops a file into new/ or cur/) is
   [md_add_file] alone.  Definitions only. *)
From PV Require Import Base.Prelude UidRecent.Model.

Local Open Scope N_scope.

Record mfile := mkFile { f_key : N; f_new : bool; f_deleted : bool; f_mark : N }.

Record mdir := mkDir {
  d_next : N;                      (* uidlist header: next UID to assign *)
  d_recs : list (N * N);           (* uidlist records (uid, file key), file order *)
  d_files : list mfile;            (* the message files of new/ and cur/ *)
  d_log : list (N * N)             (* ghost: every (uid, mark) ever recorded *)
}.

Definition find_file (k : N) (fs : list mfile) : option mfile :=
  find (fun f => f_key f =? k) fs.

(* what IMAP sees: the records whose file exists *)
Definition abs_msgs (recs : list (N * N)) (fs : list mfile) : list msg :=
  flat_map (fun r => match find_file (snd r) fs with
                     | Some f => [mkMsg (fst r) (f_new f) (f_deleted f) (f_mark f)]
                     | None => []
                     end) recs.

Definition abs (d : mdir) : box :=
  mkBox (d_next d - 1) (abs_msgs (d_recs d) (d_files d)) (d_log d).

(* a file appears (first half of append/copy/move, or an external delivery) *)
Definition md_add_file (f : mfile) (d : mdir) : mdir :=
  mkDir (d_next d) (d_recs d) (d_files d ++ [f]) (d_log d).

(* UidList.with_write: Record(next_uid, key); next_uid += 1 *)
Definition md_record (k mk : N) (d : mdir) : mdir :=
  mkDir (d_next d + 1) (d_recs d ++ [(d_next d, k)]) (d_files d) (d_log d ++ [(d_next d, mk)]).

Definition md_append (f : mfile) (d : mdir) : mdir :=
  md_record (f_key f) (f_mark f) (md_add_file f d).

Definition unknown (d : mdir) : list mfile :=
  filter (fun f => negb (existsb (N.eqb (f_key f)) (map snd (d_recs d)))) (d_files d).

(* MailboxData.reset *)
Definition md_reset (d : mdir) : mdir :=
  fold_left (fun d' f => md_record (f_key f) (f_mark f) d') (unknown d) d.

(* Maildir.claim_new: new/ -> cur/ *)
Definition md_claim (d : mdir) : mdir :=
  mkDir (d_next d) (d_recs d)
        (map (fun f => mkFile (f_key f) false (f_deleted f) (f_mark f)) (d_files d)) (d_log d).

(* MailboxData.delete: the files go, the records stay until cleanup() *)
Definition md_remove (drop : mfile -> bool) (d : mdir) : mdir :=
  mkDir (d_next d) (d_recs d) (filter (fun f => negb (drop f)) (d_files d)) (d_log d).

(* the abstract counterpart of recording one file *)
Definition box_add (b : box) (rc dl : bool) (mk : N) : box :=
  mkBox (b_max b + 1) (b_msgs b ++ [mkMsg (b_max b + 1) rc dl mk]) (b_log b ++ [(b_max b + 1, mk)]).

Definition md_wf (d : mdir) : Prop :=
  1 <= d_next d /\ NoDup (map f_key (d_files d)) /\
  (forall r, In r (d_recs d) -> fst r < d_next d).
