(* UidRecent/RecentInv.v — C17: the invariant behind "\Recent is announced to
   exactly one session and never stored", and its preservation by every
   operation of UidRecent/Model.v. *)
From PV Require Import Base.Prelude Wire.SeqSet.
From PV Require Import UidRecent.Model UidRecent.MapLemmas UidRecent.UidProofs.
From Coq Require Import Sorting.Sorted.

Local Open Scope N_scope.

Record Inv_rec (st : sys) : Prop := mk_inv_rec {
  ir_keys : NoDup (map fst (sess st));
  ir_bkeys : NoDup (map fst (boxes st));
  ir_insts : NoDup (map (fun p => s_inst (snd p)) (sess st));
  ir_inst_lt : forall s sl, In (s, sl) (sess st) -> s_inst sl < next_inst st;
  ir_bid_lt : forall s sl, In (s, sl) (sess st) -> s_bid sl < next_bid st;
  ir_box_lt : forall i b, In (i, b) (boxes st) -> i < next_bid st;
  ir_rec_nodup : forall s sl, In (s, sl) (sess st) -> NoDup (s_recent sl);
  (* read-only selections hold nothing *)
  ir_ro : forall s sl, In (s, sl) (sess st) -> s_ro sl = true -> s_recent sl = [];
  (* whatever a selection holds was handed to exactly that selection *)
  ir_held_in : forall s sl u, In (s, sl) (sess st) -> In u (s_recent sl) ->
                              In (s_bid sl, u, s_inst sl) (held st);
  (* a message was handed out at most once, ever *)
  ir_held_fun : forall i u k k', In (i, u, k) (held st) -> In (i, u, k') (held st) -> k = k';
  ir_held_lt : forall i u k, In (i, u, k) (held st) -> k < next_inst st /\ i < next_bid st;
  ir_held_max : forall i u k b, In (i, u, k) (held st) -> In (i, b) (boxes st) -> u <= b_max b;
  (* ... and only to read-write selections of that mailbox *)
  ir_held_owner : forall i u k s sl, In (i, u, k) (held st) -> In (s, sl) (sess st) ->
                                     s_inst sl = k -> s_bid sl = i /\ s_ro sl = false;
  (* a stored \Recent bit means: never handed out *)
  ir_stored : forall i b m k, In (i, b) (boxes st) -> In m (b_msgs b) -> m_recent m = true ->
                              ~ In (i, m_uid m, k) (held st);
  ir_view_le : forall s sl b, In (s, sl) (sess st) -> In (s_bid sl, b) (boxes st) ->
                              Forall (fun u => u <= b_max b) (s_view sl);
  ir_view_asc : forall s sl, In (s, sl) (sess st) ->
                             asc (s_view sl) /\ Forall (fun u => 0 < u) (s_view sl);
  (* the RECENT count last announced is the number of messages the session
     sees flagged *)
  ir_ann : forall s sl, In (s, sl) (sess st) ->
                        s_ann sl = nlen (filter (fun u => mem u (s_view sl)) (s_recent sl))
}.

Definition full (st : sys) : Prop := Inv_uid st /\ Inv_rec st.

Lemma NoDup_snoc {A} (l : list A) x : NoDup l -> ~ In x l -> NoDup (l ++ [x]).
Proof.
  induction l as [|y r IH]; cbn [app]; intros Hnd Hni; [constructor; [intros []|constructor]|].
  inversion Hnd as [|? ? Hy Hr]; subst. constructor.
  - intro H. apply in_app_iff in H as [H|[E|[]]]; [contradiction|]. subst. apply Hni. left. reflexivity.
  - apply IH; [exact Hr|]. intro H. apply Hni. right. exact H.
Qed.

Lemma In_replace_nodup {A} k (v v' : A) l :
  NoDup (map fst l) -> In (k, v') (replace k v l) -> v' = v.
Proof.
  induction l as [|[k0 v0] r IH]; cbn [replace map fst]; intros Hnd Hin; [destruct Hin|].
  inversion Hnd as [|? ? Hni Hnd']; subst.
  destruct (N.eqb_spec k0 k) as [->|Hne]; cbn [In] in Hin.
  - destruct Hin as [E|Hin]; [congruence|].
    exfalso. apply Hni. apply (in_map fst) in Hin. exact Hin.
  - destruct Hin as [E|Hin]; [congruence|auto].
Qed.

(* the picked selection is a read-write selection of mailbox [i] *)
Definition pick_valid (st : sys) (i : N) (c : option N) : Prop :=
  match c with
  | None => True
  | Some t => exists sl, lookup t (sess st) = Some sl /\ s_bid sl = i /\ s_ro sl = false
  end.

Lemma candidates_valid st i t : In t (candidates st i) ->
  exists sl, In (t, sl) (sess st) /\ s_bid sl = i /\ s_ro sl = false.
Proof.
  unfold candidates. destruct (cfg_shared st); [|intros []].
  intro H. apply in_map_iff in H as ([t' sl] & E & Hin). cbn [fst] in E. subst t'.
  apply filter_In in Hin as [Hin Hrw]. unfold rw_on in Hrw. cbn [snd] in Hrw.
  apply andb_true_iff in Hrw as [Hb Hr]. apply N.eqb_eq in Hb. apply negb_true_iff in Hr.
  eauto.
Qed.

Lemma pick_ok_valid st s i c : NoDup (map fst (sess st)) ->
  pick_ok st s i c = true -> pick_valid st i c.
Proof.
  intros Hnd H. unfold pick_ok in H. destruct c as [t|]; [|exact I]. cbn [pick_valid].
  unfold own_pick in H. destruct (lookup s (sess st)) as [sl|] eqn:Hl.
  - destruct (rw_on i (s, sl)) eqn:Hrw.
    + apply N.eqb_eq in H. subst t. exists sl. unfold rw_on in Hrw. cbn [snd] in Hrw.
      apply andb_true_iff in Hrw as [Hb Hr]. apply N.eqb_eq in Hb. apply negb_true_iff in Hr.
      auto.
    + apply mem_In in H. apply candidates_valid in H as (sl' & Hin & Hb & Hr).
      exists sl'. split; [apply In_lookup; assumption|auto].
  - apply mem_In in H. apply candidates_valid in H as (sl' & Hin & Hb & Hr).
    exists sl'. split; [apply In_lookup; assumption|auto].
Qed.

(* ------------------------------------------------------ session updates *)
(* replacing the selection of [t] by one with the same identity *)
Lemma rec_replace_sel st t sl sl' :
  Inv_rec st -> lookup t (sess st) = Some sl ->
  s_bid sl' = s_bid sl -> s_ro sl' = s_ro sl -> s_inst sl' = s_inst sl ->
  NoDup (s_recent sl') ->
  (s_ro sl' = true -> s_recent sl' = []) ->
  (forall u, In u (s_recent sl') -> In (s_bid sl, u, s_inst sl) (held st)) ->
  (forall b, In (s_bid sl, b) (boxes st) -> Forall (fun u => u <= b_max b) (s_view sl')) ->
  (asc (s_view sl') /\ Forall (fun u => 0 < u) (s_view sl')) ->
  s_ann sl' = nlen (filter (fun u => mem u (s_view sl')) (s_recent sl')) ->
  Inv_rec (set_sess (replace t sl' (sess st)) st).
Proof.
  intros I Hl Eb Er Ei Hnd' Hro Hheld Hle Hasc Hann.
  assert (Hin0 : In (t, sl) (sess st)) by (apply lookup_In; exact Hl).
  assert (Hcase : forall s x, In (s, x) (replace t sl' (sess st)) ->
                              (s = t /\ x = sl') \/ In (s, x) (sess st)).
  { intros s x Hin. apply In_replace in Hin as [E|Hin]; [inversion E; auto|auto]. }
  destruct I. constructor; cbn [sess boxes held next_inst next_bid set_sess].
  - rewrite map_fst_replace. assumption.
  - assumption.
  - (* insts *)
    clear - ir_insts0 Hl Ei. revert Hl ir_insts0.
    induction (sess st) as [|[k0 v0] r IH]; cbn [lookup replace map snd]; [discriminate|].
    destruct (N.eqb_spec k0 t) as [->|Hne]; intros Hl Hnd.
    + inversion Hl; subst. cbn [map snd]. rewrite Ei. exact Hnd.
    + cbn [map snd]. inversion Hnd as [|? ? Hni Hnd']; subst. constructor; [|auto].
      intro Hin. apply Hni. apply in_map_iff in Hin as ([s x] & E & Hx). cbn [snd] in E.
      apply In_replace in Hx as [E2|Hx].
      * inversion E2; subst. rewrite Ei in E. apply in_map_iff.
        exists (t, sl). split; [exact E|]. apply lookup_In. exact Hl.
      * apply in_map_iff. exists (s, x). split; [exact E|exact Hx].
  - intros s x Hin. destruct (Hcase _ _ Hin) as [[-> ->]|H]; [rewrite Ei|]; eauto.
  - intros s x Hin. destruct (Hcase _ _ Hin) as [[-> ->]|H]; [rewrite Eb|]; eauto.
  - assumption.
  - intros s x Hin. destruct (Hcase _ _ Hin) as [[-> ->]|H]; eauto.
  - intros s x Hin. destruct (Hcase _ _ Hin) as [[-> ->]|H]; eauto.
  - intros s x u Hin Hu. destruct (Hcase _ _ Hin) as [[-> ->]|H]; [rewrite Eb, Ei|]; eauto.
  - assumption.
  - assumption.
  - assumption.
  - intros i u k s x Hh Hin Hk. destruct (Hcase _ _ Hin) as [[-> ->]|H].
    + rewrite Eb, Er. rewrite Ei in Hk. eapply ir_held_owner0; eauto.
    + eauto.
  - assumption.
  - intros s x b Hin Hb. destruct (Hcase _ _ Hin) as [[-> ->]|H]; [rewrite Eb in Hb|]; eauto.
  - intros s x Hin. destruct (Hcase _ _ Hin) as [[-> ->]|H]; eauto.
  - intros s x Hin. destruct (Hcase _ _ Hin) as [[-> ->]|H]; eauto.
Qed.

Lemma rec_drop_sel st s : Inv_rec st -> Inv_rec (drop_sel s st).
Proof.
  intro I. destruct I.
  assert (Hsub : forall k x, In (k, x) (remove s (sess st)) -> In (k, x) (sess st)).
  { intros k x H. apply In_remove in H as [H _]. exact H. }
  constructor; cbn [sess boxes held next_inst next_bid set_sess drop_sel]; eauto.
  - apply (NoDup_map_remove fst). assumption.
  - apply (NoDup_map_remove (fun p => s_inst (snd p))). assumption.
Qed.

(* ---------------------------------------------------------------- sync *)
Lemma filter_idem {A} (f : A -> bool) l : filter f (filter f l) = filter f l.
Proof.
  induction l as [|x r IH]; cbn [filter]; [reflexivity|].
  destruct (f x) eqn:E; cbn [filter]; [rewrite E, IH|]; auto.
Qed.

Lemma rec_do_sync st s sl b :
  full st -> lookup s (sess st) = Some sl -> In (s_bid sl, b) (boxes st) ->
  Inv_rec (fst (do_sync s sl b st)).
Proof.
  intros [Iu I] Hl Hb. unfold do_sync, sync_sel. cbn [fst].
  assert (Hok : box_ok b) by (eapply Iu; eauto).
  assert (Hin0 : In (s, sl) (sess st)) by (apply lookup_In; exact Hl).
  eapply rec_replace_sel; eauto; cbn [s_bid s_ro s_inst s_recent s_view s_ann].
  - apply NoDup_filter. eapply ir_rec_nodup; eauto.
  - intro Hro. rewrite (ir_ro _ I _ _ Hin0 Hro). reflexivity.
  - intros u Hu. apply filter_In in Hu as [Hu _]. eapply ir_held_in; eauto.
  - intros b' Hb'. assert (b' = b).
    { pose proof (ir_bkeys _ I) as Hnd. apply In_lookup in Hb; [|exact Hnd].
      apply In_lookup in Hb'; [|exact Hnd]. congruence. }
    subst b'. apply Forall_forall. intros u Hu. unfold live_uids in Hu.
    apply in_map_iff in Hu as (m & <- & Hm). pose proof (box_ok_live_lt _ _ Hok Hm). lia.
  - split; [exact (bo_msgs_asc _ Hok)|].
    apply Forall_forall. intros u Hu. unfold live_uids in Hu.
    apply in_map_iff in Hu as (m & <- & Hm). pose proof (box_ok_live_lt _ _ Hok Hm). lia.
Qed.

Lemma sess_do_sync_other st s sl b t x :
  t <> s -> In (t, x) (sess (fst (do_sync s sl b st))) -> In (t, x) (sess st).
Proof.
  intros Hne. unfold do_sync. destruct (sync_sel sl b) as [sl' y]. cbn [fst sess set_sess].
  intro H. apply In_replace in H as [E|H]; [inversion E; congruence|exact H].
Qed.

Lemma full_same_boxes st st' : boxes st' = boxes st -> Inv_uid st -> Inv_uid st'.
Proof. intros E H. unfold Inv_uid. rewrite E. exact H. Qed.

Lemma full_do_sync st s sl b :
  full st -> lookup s (sess st) = Some sl -> In (s_bid sl, b) (boxes st) ->
  full (fst (do_sync s sl b st)).
Proof.
  intros F Hl Hb. split; [|apply rec_do_sync; assumption].
  eapply full_same_boxes; [apply boxes_do_sync|exact (proj1 F)].
Qed.

Lemma find_box_In st nm i b : find_box st nm = Some (i, b) -> In (i, b) (boxes st).
Proof.
  unfold find_box. destruct (lookup nm (names st)) as [j|]; [|discriminate].
  destruct (lookup j (boxes st)) as [x|] eqn:E; [|discriminate].
  intro H. inversion H; subst. apply lookup_In. exact E.
Qed.

Lemma full_post_sync st s h : full st -> full (fst (post_sync s h st)).
Proof.
  intro F. unfold post_sync. destruct (lookup s (sess st)) as [sl|] eqn:Hl; [|exact F].
  assert (H : full (fst (match find_box st (s_name sl) with
                          | Some (i, b) => if i =? s_bid sl then do_sync s sl b st else (drop_sel s st, PBye)
                          | None => (drop_sel s st, PBye)
                          end))).
  { destruct (find_box st (s_name sl)) as [[i b]|] eqn:Hf.
    - destruct (N.eqb_spec i (s_bid sl)) as [->|Hne];
        [|cbn [fst]; split; [exact (proj1 F)|apply rec_drop_sel; exact (proj2 F)]].
      apply full_do_sync; [exact F|exact Hl|]. eapply find_box_In; eauto.
    - cbn [fst]. split; [exact (proj1 F)|apply rec_drop_sel; exact (proj2 F)]. }
  destruct h as [i|]; [|exact H].
  destruct (N.eqb_spec i (s_bid sl)) as [->|Hne]; [|exact H].
  destruct (lookup (s_bid sl) (boxes st)) as [b|] eqn:Hb; [|exact H].
  apply full_do_sync; [exact F|exact Hl|]. apply lookup_In. exact Hb.
Qed.

Lemma resolve_box st s sl i b :
  resolve st s = RBox sl i b ->
  lookup s (sess st) = Some sl /\ find_box st (s_name sl) = Some (i, b) /\ i = s_bid sl.
Proof.
  unfold resolve. destruct (lookup s (sess st)) as [x|]; [|discriminate].
  destruct (find_box st (s_name x)) as [[j y]|] eqn:Hf; [|discriminate].
  destruct (N.eqb_spec j (s_bid x)) as [->|]; [|discriminate].
  intro H. inversion H; subst. repeat split; [exact Hf].
Qed.

Lemma full_resync st s : full st -> full (fst (resync s st)).
Proof.
  intro F. unfold resync. destruct (resolve st s) as [| |sl i b] eqn:R; try exact F.
  apply resolve_box in R as (Hl & Hf & ->).
  apply full_do_sync; [exact F|exact Hl|]. eapply find_box_In; eauto.
Qed.

(* -------------------------------------------------------- mailbox updates *)
Lemma rec_replace_box st i b b' :
  Inv_rec st -> lookup i (boxes st) = Some b -> b_max b <= b_max b' ->
  (forall m, In m (b_msgs b') -> m_recent m = true ->
             (exists m0, In m0 (b_msgs b) /\ m_uid m0 = m_uid m /\ m_recent m0 = true)
             \/ b_max b < m_uid m) ->
  Inv_rec (set_boxes (replace i b' (boxes st)) st).
Proof.
  intros I Hl Hmax Hrec.
  assert (Hin0 : In (i, b) (boxes st)) by (apply lookup_In; exact Hl).
  destruct I.
  assert (Hcase : forall j x, In (j, x) (replace i b' (boxes st)) ->
                              (j = i /\ x = b') \/ (j <> i /\ In (j, x) (boxes st))).
  { intros j x Hin. destruct (N.eq_dec j i) as [->|Hne].
    - left. split; [reflexivity|]. eapply In_replace_nodup; eauto.
    - right. split; [exact Hne|]. apply In_replace in Hin as [E|Hin]; [inversion E; congruence|exact Hin]. }
  constructor; cbn [sess boxes held next_inst next_bid set_boxes]; eauto.
  - rewrite map_fst_replace. assumption.
  - intros j x Hin. destruct (Hcase _ _ Hin) as [[-> ->]|[_ H]]; eauto.
  - intros j u k x Hh Hin. destruct (Hcase _ _ Hin) as [[-> ->]|[_ H]]; [|eauto].
    specialize (ir_held_max0 _ _ _ _ Hh Hin0). lia.
  - intros j x m k Hin Hm Hr Hh. destruct (Hcase _ _ Hin) as [[-> ->]|[_ H]].
    + destruct (Hrec _ Hm Hr) as [(m0 & Hm0 & Eu & Hr0)|Hgt].
      * rewrite <- Eu in Hh. eapply ir_stored0; eauto.
      * specialize (ir_held_max0 _ _ _ _ Hh Hin0). lia.
    + eapply ir_stored0; eauto.
  - intros s sl x Hs Hin. destruct (Hcase _ _ Hin) as [[E ->]|[_ H]]; [|eauto].
    rewrite <- E in Hin0. specialize (ir_view_le0 _ _ _ Hs Hin0).
    eapply Forall_impl; [|exact ir_view_le0]. cbn. intros; lia.
Qed.

Lemma rec_remove_msgs st i drop : Inv_rec st -> Inv_rec (remove_msgs i drop st).
Proof.
  intro I. unfold remove_msgs. destruct (lookup i (boxes st)) as [b|] eqn:Hl; [|exact I].
  eapply rec_replace_box; eauto; cbn [b_max b_msgs]; [lia|].
  intros m Hm Hr. left. apply filter_In in Hm as [Hm _]. eauto.
Qed.

Lemma rec_map_msgs st i f :
  (forall m, m_uid (f m) = m_uid m /\ (m_recent (f m) = true -> m_recent m = true)) ->
  Inv_rec st -> Inv_rec (map_msgs i f st).
Proof.
  intros Hf I. unfold map_msgs. destruct (lookup i (boxes st)) as [b|] eqn:Hl; [|exact I].
  eapply rec_replace_box; eauto; cbn [b_max b_msgs]; [lia|].
  intros m Hm Hr. left. apply in_map_iff in Hm as (m0 & <- & Hm0).
  destruct (Hf m0) as [Eu Er]. exists m0. auto.
Qed.

Lemma full_remove_msgs st i drop : full st -> full (remove_msgs i drop st).
Proof.
  intros [Iu I]. split; [apply (proj1 (remove_msgs_good i drop st)); exact Iu|].
  apply rec_remove_msgs. exact I.
Qed.

(* ------------------------------------------------- handing out \Recent *)
Lemma inst_unique (l : list (N * sel)) s x t sl :
  NoDup (map (fun p => s_inst (snd p)) l) -> In (s, x) l -> In (t, sl) l ->
  s_inst x = s_inst sl -> (s, x) = (t, sl).
Proof.
  induction l as [|p r IH]; cbn [In map]; [intros _ []|].
  intros Hnd [E1|H1] [E2|H2] Hk; inversion Hnd as [|? ? Hni Hnd']; subst.
  - congruence.
  - exfalso. apply Hni. cbn [snd]. rewrite Hk. apply in_map_iff. exists (t, sl). auto.
  - exfalso. apply Hni. cbn [snd]. rewrite <- Hk. apply in_map_iff. exists (s, x). auto.
  - apply IH; assumption.
Qed.

Lemma rec_add_held st i u t sl :
  Inv_rec st -> In (t, sl) (sess st) -> s_bid sl = i -> s_ro sl = false ->
  (forall k, ~ In (i, u, k) (held st)) ->
  (forall b, In (i, b) (boxes st) -> u <= b_max b) ->
  (forall b m, In (i, b) (boxes st) -> In m (b_msgs b) -> m_uid m = u -> m_recent m = false) ->
  Inv_rec (set_held (held st ++ [(i, u, s_inst sl)]) st).
Proof.
  intros I Hin Hb Hr Hnew Hmax Hst. destruct I.
  assert (Hcase : forall j v k, In (j, v, k) (held st ++ [(i, u, s_inst sl)]) ->
                                In (j, v, k) (held st) \/ (j = i /\ v = u /\ k = s_inst sl)).
  { intros j v k H. apply in_app_iff in H as [H|[E|[]]]; [auto|]. inversion E; auto. }
  constructor; cbn [sess boxes held next_inst next_bid set_held]; eauto.
  - intros s x v Hs Hv. apply in_app_iff. left. eauto.
  - intros j v k k' H1 H2.
    destruct (Hcase _ _ _ H1) as [H1'|(-> & -> & ->)], (Hcase _ _ _ H2) as [H2'|(E1 & E2 & E3)].
    + eauto.
    + subst. exfalso. eapply Hnew; eauto.
    + exfalso. eapply Hnew; eauto.
    + congruence.
  - intros j v k H. destruct (Hcase _ _ _ H) as [H'|(-> & -> & ->)]; [eauto|].
    split; [eauto|]. rewrite <- Hb. eauto.
  - intros j v k b H Hbx. destruct (Hcase _ _ _ H) as [H'|(-> & -> & ->)]; eauto.
  - intros j v k s x H Hs Hk. destruct (Hcase _ _ _ H) as [H'|(-> & -> & ->)]; [eauto|].
    assert (E : (s, x) = (t, sl)) by (eapply inst_unique; eauto).
    inversion E; subst.
    auto.
  - intros j b m k Hbx Hm Hrc H. destruct (Hcase _ _ _ H) as [H'|(-> & E & ->)].
    + eapply ir_stored0; eauto.
    + rewrite (Hst _ _ Hbx Hm E) in Hrc. discriminate.
Qed.

Lemma filter_app_one_out (f : N -> bool) l u : f u = false -> filter f (l ++ [u]) = filter f l.
Proof. intro H. rewrite filter_app. cbn [filter]. rewrite H. apply app_nil_r. Qed.

Lemma rec_add_recent st t sl i u :
  Inv_rec st -> lookup t (sess st) = Some sl -> s_bid sl = i -> s_ro sl = false ->
  (forall k, ~ In (i, u, k) (held st)) ->
  ~ In u (s_view sl) ->
  (forall b, In (i, b) (boxes st) -> u <= b_max b) ->
  (forall b m, In (i, b) (boxes st) -> In m (b_msgs b) -> m_uid m = u -> m_recent m = false) ->
  Inv_rec (add_recent t i u st).
Proof.
  intros I Hl Hb Hr Hnew Hview Hmax Hst. unfold add_recent. rewrite Hl.
  assert (Hin : In (t, sl) (sess st)) by (apply lookup_In; exact Hl).
  pose proof (rec_add_held st i u t sl I Hin Hb Hr Hnew Hmax Hst) as I1.
  change (Inv_rec (set_sess (replace t
            (mkSel (s_bid sl) (s_name sl) (s_ro sl) (s_inst sl) (s_recent sl ++ [u]) (s_view sl)
                   (s_ann sl)) (sess (set_held (held st ++ [(i, u, s_inst sl)]) st)))
            (set_held (held st ++ [(i, u, s_inst sl)]) st))).
  eapply rec_replace_sel; eauto; cbn [s_bid s_ro s_inst s_recent s_view s_ann held set_held].
  - apply NoDup_snoc; [eapply ir_rec_nodup; eauto|].
    intro Hu. apply (Hnew (s_inst sl)). rewrite <- Hb. eapply ir_held_in; eauto.
  - intro H. congruence.
  - intros v Hv. apply in_app_iff in Hv as [Hv|[<-|[]]]; apply in_app_iff.
    + left. eapply ir_held_in; eauto.
    + right. left. rewrite Hb. reflexivity.
  - intros b Hbx. eapply ir_view_le; eauto.
  - eapply ir_view_asc; eauto.
  - rewrite filter_app_one_out by (apply mem_false; exact Hview). eapply ir_ann; eauto.
Qed.

Lemma lookup_sess_add_recent t i u st s :
  lookup s (sess (add_recent t i u st)) = None <-> lookup s (sess st) = None.
Proof.
  unfold add_recent. destruct (lookup t (sess st)) as [sl|] eqn:Hl; [|reflexivity].
  cbn [sess set_held set_sess]. destruct (N.eq_dec s t) as [->|Hne].
  - erewrite lookup_replace_eq by eauto. rewrite Hl. split; discriminate.
  - rewrite lookup_replace_neq by exact Hne. reflexivity.
Qed.

(* pick validity survives the primitives of the delivery loops *)
Lemma pick_valid_add_recent st i c t j u :
  pick_valid st i c -> pick_valid (add_recent t j u st) i c.
Proof.
  destruct c as [t'|]; [|auto]. cbn [pick_valid]. intros (sl & Hl & Hb & Hr).
  unfold add_recent. destruct (lookup t (sess st)) as [x|] eqn:Hx; [|eauto].
  cbn [sess set_held set_sess]. destruct (N.eq_dec t' t) as [->|Hne].
  - erewrite lookup_replace_eq by eauto. eexists. split; [reflexivity|].
    cbn [s_bid s_ro]. rewrite Hx in Hl. inversion Hl; subst. auto.
  - rewrite lookup_replace_neq by exact Hne. eauto.
Qed.

Lemma full_deliver st i c dl mk :
  full st -> pick_valid st i c ->
  full (fst (deliver i c dl mk st)) /\ pick_valid (fst (deliver i c dl mk st)) i c.
Proof.
  intros [Iu I] Hp.
  split; [split; [apply (proj1 (deliver_good i c dl mk st)); exact Iu|]|].
  - unfold deliver. destruct (lookup i (boxes st)) as [b|] eqn:Hl; cbn [fst]; [|exact I].
    assert (Hin0 : In (i, b) (boxes st)) by (apply lookup_In; exact Hl).
    assert (Hok : box_ok b) by (eapply Iu; eauto).
    set (u := b_max b + 1).
    assert (I1 : forall rc, (rc = true -> c = None) ->
                 Inv_rec (set_boxes (replace i (mkBox u (b_msgs b ++ [mkMsg u rc dl mk])
                                                      (b_log b ++ [(u, mk)])) (boxes st)) st)).
    { intros rc Hrc. eapply rec_replace_box; eauto; cbn [b_max b_msgs]; [lia|].
      intros m Hm Hr. apply in_app_iff in Hm as [Hm|[<-|[]]]; [left; eauto|].
      right. cbn [m_uid]. lia. }
    destruct c as [t|]; [|apply I1; auto].
    destruct Hp as (sl & Hsl & Hb & Hro).
    eapply rec_add_recent; [apply I1; discriminate|exact Hsl|exact Hb|exact Hro| | | |];
      cbn [boxes held set_boxes].
    + intros k Hk. pose proof (ir_held_max _ I _ _ _ _ Hk Hin0). lia.
    + intro Hv. assert (Hin1 : In (t, sl) (sess st)) by (apply lookup_In; exact Hsl).
      rewrite <- Hb in Hin0. pose proof (ir_view_le _ I _ _ _ Hin1 Hin0) as Hle.
      rewrite Forall_forall in Hle. specialize (Hle _ Hv). lia.
    + intros b' Hb'. apply In_replace_nodup in Hb'; [|exact (ir_bkeys _ I)].
      subst b'. cbn [b_max]. lia.
    + intros b' m Hb' Hm Eu. apply In_replace_nodup in Hb'; [|exact (ir_bkeys _ I)].
      subst b'. cbn [b_msgs] in Hm. apply in_app_iff in Hm as [Hm|[<-|[]]]; [|reflexivity].
      pose proof (box_ok_live_lt _ _ Hok Hm). lia.
  - unfold deliver. destruct (lookup i (boxes st)) as [b|]; cbn [fst]; [|exact Hp].
    destruct c as [t|]; [|exact Logic.I]. apply pick_valid_add_recent. exact Hp.
Qed.

Lemma pick_valid_same_sess st st' i c : sess st' = sess st -> pick_valid st i c -> pick_valid st' i c.
Proof. intros E. destruct c; [|auto]. cbn [pick_valid]. rewrite E. auto. Qed.

Lemma full_append_loop i c ms : forall st,
  full st -> pick_valid st i c -> full (fst (append_loop i c ms st)).
Proof.
  induction ms as [|[[mk dl] rc] r IH]; intros st F Hp; cbn [append_loop]; [exact F|].
  destruct (full_deliver st i c dl mk F Hp) as [F1 P1].
  destruct (deliver i c dl mk st) as [st1 [u|]]; cbn [fst] in *.
  - specialize (IH st1 F1 P1). destruct (append_loop i c r st1). exact IH.
  - apply IH; assumption.
Qed.

Lemma full_copy_loop mv src dst c us : forall st,
  full st -> pick_valid st dst c -> full (fst (copy_loop mv src dst c us st)).
Proof.
  induction us as [|u r IH]; intros st F Hp; cbn [copy_loop]; [exact F|].
  destruct (lookup src (boxes st)) as [b|]; [|apply IH; assumption].
  destruct (find_msg u b) as [m|]; [|apply IH; assumption].
  set (st0 := if mv then remove_msgs src (fun x => m_uid x =? u) st else st).
  assert (F0 : full st0) by (subst st0; destruct mv; [apply full_remove_msgs|]; exact F).
  assert (P0 : pick_valid st0 dst c).
  { subst st0. destruct mv; [|exact Hp]. eapply pick_valid_same_sess; [|exact Hp].
    unfold remove_msgs. destruct (lookup src (boxes st)); reflexivity. }
  destruct (full_deliver st0 dst c (m_deleted m) (m_mark m) F0 P0) as [F1 P1].
  destruct (deliver dst c (m_deleted m) (m_mark m) st0) as [st1 [du|]]; cbn [fst] in *.
  - specialize (IH st1 F1 P1). destruct (copy_loop mv src dst c r st1). exact IH.
  - apply IH; assumption.
Qed.

(* ------------------------------------------------------ new selections *)
Lemma filter_all {A} (f : A -> bool) l : (forall x, In x l -> f x = true) -> filter f l = l.
Proof.
  induction l as [|x r IH]; cbn [filter]; intro H; [reflexivity|].
  rewrite (H x) by (left; reflexivity). f_equal. apply IH. intros y Hy. apply H. right. exact Hy.
Qed.

Lemma rec_add_sel st s sl :
  Inv_rec st -> lookup s (sess st) = None -> s_inst sl = next_inst st ->
  s_bid sl < next_bid st ->
  NoDup (s_recent sl) ->
  (s_ro sl = true -> s_recent sl = []) ->
  (forall u k, In u (s_recent sl) -> ~ In (s_bid sl, u, k) (held st)) ->
  (forall u b, In u (s_recent sl) -> In (s_bid sl, b) (boxes st) -> u <= b_max b) ->
  (forall b m, In (s_bid sl, b) (boxes st) -> In m (b_msgs b) -> m_recent m = true ->
               ~ In (m_uid m) (s_recent sl)) ->
  (forall b, In (s_bid sl, b) (boxes st) -> Forall (fun u => u <= b_max b) (s_view sl)) ->
  (asc (s_view sl) /\ Forall (fun u => 0 < u) (s_view sl)) ->
  s_ann sl = nlen (filter (fun u => mem u (s_view sl)) (s_recent sl)) ->
  Inv_rec (add_sel s sl (map (fun u => (s_bid sl, u, next_inst st)) (s_recent sl)) st).
Proof.
  intros I Hs Hk Hb Hnd' Hro Hnew Hmax Hst Hle Hasc Hann. destruct I.
  assert (Hsc : forall t x, In (t, x) (sess st ++ [(s, sl)]) ->
                            In (t, x) (sess st) \/ (t = s /\ x = sl)).
  { intros t x H. apply in_app_iff in H as [H|[E|[]]]; [auto|]. inversion E; auto. }
  assert (Hhc : forall j v k, In (j, v, k) (held st ++ map (fun u => (s_bid sl, u, next_inst st))
                                                          (s_recent sl)) ->
                              In (j, v, k) (held st) \/
                              (j = s_bid sl /\ In v (s_recent sl) /\ k = next_inst st)).
  { intros j v k H. apply in_app_iff in H as [H|H]; [auto|]. right.
    apply in_map_iff in H as (u & E & Hu). inversion E; subst. auto. }
  constructor; cbn [sess boxes held next_inst next_bid add_sel].
  - rewrite map_app. cbn [map fst]. apply NoDup_snoc; [assumption|].
    apply lookup_None_notin. exact Hs.
  - assumption.
  - rewrite map_app. cbn [map snd]. apply NoDup_snoc; [assumption|].
    intro H. apply in_map_iff in H as ([t x] & E & Hx). cbn [snd] in E.
    specialize (ir_inst_lt0 _ _ Hx). lia.
  - intros t x H. destruct (Hsc _ _ H) as [H'|[-> ->]]; [specialize (ir_inst_lt0 _ _ H')|]; lia.
  - intros t x H. destruct (Hsc _ _ H) as [H'|[-> ->]]; eauto.
  - assumption.
  - intros t x H. destruct (Hsc _ _ H) as [H'|[-> ->]]; eauto.
  - intros t x H. destruct (Hsc _ _ H) as [H'|[-> ->]]; eauto.
  - intros t x u H Hu. apply in_app_iff. destruct (Hsc _ _ H) as [H'|[-> ->]]; [left; eauto|].
    right. apply in_map_iff. exists u. rewrite Hk. auto.
  - intros j v k k' H1 H2.
    destruct (Hhc _ _ _ H1) as [H1'|(-> & Hv1 & ->)], (Hhc _ _ _ H2) as [H2'|(E & Hv2 & E')].
    + eauto.
    + subst. exfalso. eapply Hnew; eauto.
    + exfalso. eapply Hnew; eauto.
    + congruence.
  - intros j v k H. destruct (Hhc _ _ _ H) as [H'|(-> & Hv & ->)].
    + destruct (ir_held_lt0 _ _ _ H'). split; [lia|assumption].
    + split; [lia|assumption].
  - intros j v k b H Hbx. destruct (Hhc _ _ _ H) as [H'|(-> & Hv & ->)]; eauto.
  - intros j v k t x H Ht Hi.
    destruct (Hhc _ _ _ H) as [H'|(-> & Hv & ->)], (Hsc _ _ Ht) as [Ht'|[-> ->]].
    + eauto.
    + destruct (ir_held_lt0 _ _ _ H'). lia.
    + specialize (ir_inst_lt0 _ _ Ht'). lia.
    + split; [reflexivity|]. destruct (s_ro sl) eqn:R; [|reflexivity].
      rewrite (Hro eq_refl) in Hv. destruct Hv.
  - intros j b m k Hbx Hm Hr H. destruct (Hhc _ _ _ H) as [H'|(-> & Hv & ->)].
    + eapply ir_stored0; eauto.
    + eapply Hst; eauto.
  - intros t x b H Hbx. destruct (Hsc _ _ H) as [H'|[-> ->]]; eauto.
  - intros t x H. destruct (Hsc _ _ H) as [H'|[-> ->]]; eauto.
  - intros t x H. destruct (Hsc _ _ H) as [H'|[-> ->]]; eauto.
Qed.

Lemma live_ok b : box_ok b ->
  Forall (fun u => u <= b_max b) (live_uids b) /\ asc (live_uids b) /\
  Forall (fun u => 0 < u) (live_uids b).
Proof.
  intro Hok. repeat split.
  - apply Forall_forall. intros u Hu. apply in_map_iff in Hu as (m & <- & Hm).
    pose proof (box_ok_live_lt _ _ Hok Hm). lia.
  - exact (bo_msgs_asc _ Hok).
  - apply Forall_forall. intros u Hu. apply in_map_iff in Hu as (m & <- & Hm).
    pose proof (box_ok_live_lt _ _ Hok Hm). lia.
Qed.

Lemma box_unique st i b b' : Inv_rec st -> In (i, b) (boxes st) -> In (i, b') (boxes st) -> b = b'.
Proof.
  intros I H1 H2. pose proof (ir_bkeys _ I) as Hnd.
  apply In_lookup in H1; [|exact Hnd]. apply In_lookup in H2; [|exact Hnd]. congruence.
Qed.

Lemma full_select_new st s nm ro :
  full st -> lookup s (sess st) = None -> full (fst (select_new s nm ro st)).
Proof.
  intros [Iu I] Hs. unfold select_new. destruct (find_box st nm) as [[i b]|] eqn:Hf; [|split; assumption].
  assert (Hin : In (i, b) (boxes st)) by (eapply find_box_In; eauto).
  assert (Hok : box_ok b) by (eapply Iu; eauto).
  destruct (live_ok _ Hok) as (Hle & Hasc & Hpos).
  destruct (ro || box_ro st i); cbn [fst].
  - split; [exact Iu|].
    change (@nil (N * N * N)) with
      (map (fun u => (s_bid (mkSel i nm true (next_inst st) [] (live_uids b) 0), u, next_inst st))
           (s_recent (mkSel i nm true (next_inst st) [] (live_uids b) 0))).
    apply rec_add_sel; cbn [s_bid s_ro s_inst s_recent s_view s_ann]; auto;
      try solve [eapply ir_box_lt; eauto | intros u k [] | intros u b' [] | constructor].
    intros b' Hb'. rewrite (box_unique _ _ _ _ I Hb' Hin). exact Hle.
  - assert (Hl : lookup i (boxes st) = Some b) by (apply In_lookup; [exact (ir_bkeys _ I)|exact Hin]).
    pose proof (proj1 (map_msgs_good i clear_recent st clear_recent_keeps) Iu) as Iu1.
    assert (I1 : Inv_rec (map_msgs i clear_recent st)).
    { apply rec_map_msgs; [|exact I]. intro m. split; [reflexivity|]. cbn. discriminate. }
    assert (Em : map_msgs i clear_recent st =
                 set_boxes (replace i (mkBox (b_max b) (map clear_recent (b_msgs b)) (b_log b))
                                    (boxes st)) st)
      by (unfold map_msgs; rewrite Hl; reflexivity).
    rewrite Em in *.
    set (st1 := set_boxes (replace i (mkBox (b_max b) (map clear_recent (b_msgs b)) (b_log b))
                                   (boxes st)) st) in *.
    split; [exact Iu1|].
    assert (Hbx : forall b', In (i, b') (boxes st1) ->
                             b' = mkBox (b_max b) (map clear_recent (b_msgs b)) (b_log b)).
    { intros b' Hb'. eapply In_replace_nodup; [exact (ir_bkeys _ I)|exact Hb']. }
    set (sl := mkSel i nm false (next_inst st) (stored_recent b) (live_uids b)
                     (nlen (stored_recent b))).
    change (Inv_rec (add_sel s sl (map (fun u => (s_bid sl, u, next_inst st1)) (s_recent sl)) st1)).
    apply rec_add_sel; subst sl; cbn [s_bid s_ro s_inst s_recent s_view s_ann]; auto.
    + exact (ir_box_lt _ I _ _ Hin).
    + unfold stored_recent. apply asc_NoDup. apply asc_map_filter. exact (bo_msgs_asc _ Hok).
    + discriminate.
    + intros u k Hu. unfold stored_recent in Hu.
      apply in_map_iff in Hu as (m & <- & Hm). apply filter_In in Hm as [Hm Hr].
      eapply (ir_stored _ I); eauto.
    + intros u b' Hu Hb'. rewrite (Hbx _ Hb'). cbn [b_max]. unfold stored_recent in Hu.
      apply in_map_iff in Hu as (m & <- & Hm). apply filter_In in Hm as [Hm _].
      pose proof (box_ok_live_lt _ _ Hok Hm). lia.
    + intros b' m Hb' Hm Hr. rewrite (Hbx _ Hb') in Hm. cbn [b_msgs] in Hm.
      apply in_map_iff in Hm as (m0 & <- & _). cbn in Hr. discriminate.
    + intros b' Hb'. rewrite (Hbx _ Hb'). cbn [b_max]. exact Hle.
    + f_equal. symmetry. f_equal. apply filter_all. intros u Hu. apply mem_In.
      unfold stored_recent in Hu. apply in_map_iff in Hu as (m & <- & Hm).
      apply filter_In in Hm as [Hm _]. apply in_map. exact Hm.
Qed.

(* ------------------------------------------------------- new mailboxes *)
Lemma rec_add_box st nms base cb cs ro :
  Inv_rec st ->
  Inv_rec (mkSys nms (boxes st ++ [(next_bid st, empty_box base)]) (sess st)
                 (next_bid st + 1) (next_inst st) (held st) cb cs ro).
Proof.
  intro I. destruct I.
  assert (Hbc : forall j x, In (j, x) (boxes st ++ [(next_bid st, empty_box base)]) ->
                            In (j, x) (boxes st) \/ (j = next_bid st /\ x = empty_box base)).
  { intros j x H. apply in_app_iff in H as [H|[E|[]]]; [auto|]. inversion E; auto. }
  constructor; cbn [sess boxes held next_inst next_bid]; eauto.
  - rewrite map_app. cbn [map fst]. apply NoDup_snoc; [assumption|].
    intro H. apply in_map_iff in H as ([j x] & E & Hx). cbn [fst] in E. subst j.
    specialize (ir_box_lt0 _ _ Hx). lia.
  - intros s sl H. specialize (ir_bid_lt0 _ _ H). lia.
  - intros j x H. destruct (Hbc _ _ H) as [H'|[-> ->]]; [specialize (ir_box_lt0 _ _ H')|]; lia.
  - intros j u k H. destruct (ir_held_lt0 _ _ _ H). split; [assumption|lia].
  - intros j u k x H Hx. destruct (Hbc _ _ Hx) as [H'|[-> ->]]; [eauto|].
    destruct (ir_held_lt0 _ _ _ H). lia.
  - intros j x m k Hx Hm. destruct (Hbc _ _ Hx) as [H'|[-> ->]]; [eauto|]. destruct Hm.
  - intros s sl x H Hx. destruct (Hbc _ _ Hx) as [H'|[E ->]]; [eauto|].
    specialize (ir_bid_lt0 _ _ H). lia.
Qed.

Lemma rec_set_names st n : Inv_rec st -> Inv_rec (set_names n st).
Proof. intro I. destruct I. constructor; cbn [sess boxes held next_inst next_bid set_names]; auto. Qed.

Lemma rec_set_ro st l : Inv_rec st -> Inv_rec (set_ro l st).
Proof. intro I. destruct I. constructor; cbn [sess boxes held next_inst next_bid set_ro]; auto. Qed.

Lemma full_set_names st n : full st -> full (set_names n st).
Proof. intros [Iu I]. split; [exact Iu|apply rec_set_names; exact I]. Qed.

Lemma full_adopt_one st i rc dl mk : full st -> full (adopt_one i rc dl mk st).
Proof.
  intros [Iu I]. split; [apply (proj1 (adopt_one_good i rc dl mk st)); exact Iu|].
  unfold adopt_one. destruct (lookup i (boxes st)) as [b|] eqn:Hl; [|exact I].
  eapply rec_replace_box; eauto; cbn [b_max b_msgs]; [lia|].
  intros m Hm Hr. apply in_app_iff in Hm as [Hm|[<-|[]]]; [left; eauto|].
  right. cbn [m_uid]. lia.
Qed.

Lemma full_adopt_loop i ms : forall st, full st -> full (adopt_loop i ms st).
Proof.
  induction ms as [|[[mk dl] rc] r IH]; intros st F; cbn [adopt_loop]; [exact F|].
  apply IH, full_adopt_one, F.
Qed.

Lemma full_create_box st nm : full st -> full (create_box nm st).
Proof.
  intros [Iu I]. split; [apply (proj1 (create_box_good nm st)); exact Iu|].
  apply rec_add_box. exact I.
Qed.

Lemma full_rename_tree st a b : full st -> full (rename_tree a b st).
Proof.
  intro F. unfold rename_tree.
  assert (H : forall x y s0, full s0 -> full (rename_box x y s0)).
  { intros x y s0 [Iu I]. split; [apply (proj1 (rename_box_good x y s0)); exact Iu|].
    unfold rename_box. destruct (lookup x (names s0)); [|exact I].
    destruct (x =? INBOX); [apply rec_add_box; exact I|apply rec_set_names; exact I]. }
  destruct (name_sub a), (name_sub b); auto.
Qed.

Lemma full_rename_box st a b : full st -> full (rename_box a b st).
Proof.
  intros [Iu I]. split; [apply (proj1 (rename_box_good a b st)); exact Iu|].
  unfold rename_box. destruct (lookup a (names st)); [|exact I].
  destruct (a =? INBOX); [apply rec_add_box; exact I|apply rec_set_names; exact I].
Qed.

(* ------------------------------------------------------------ every step *)
Lemma full_drop_sel st s : full st -> full (drop_sel s st).
Proof. intros [Iu I]. split; [exact Iu|apply rec_drop_sel; exact I]. Qed.

Lemma full_map_store st i set md fd :
  full st ->
  full (map_msgs i (fun m => if in_set set (m_uid m) then apply_store md fd m else m) st).
Proof.
  intros [Iu I]. split.
  - apply (proj1 (map_msgs_good i _ st (apply_store_keeps set md fd))). exact Iu.
  - apply rec_map_msgs; [|exact I]. intro m. cbn beta.
    destruct (in_set set (m_uid m)); split; auto.
Qed.

Ltac pairfst e :=
  let x := fresh "stx" in let p := fresh "px" in let E := fresh "Ex" in
  destruct e as [x p] eqn:E; cbn [fst];
  replace x with (fst e) by (rewrite E; reflexivity).

Theorem step_full st o ch : full st -> full (fst (step st o ch)).
Proof.
  intro F. assert (Hk : NoDup (map fst (sess st))) by exact (ir_keys _ (proj2 F)).
  destruct o; cbn [step].
  - (* Create *)
    destruct (nm =? INBOX); [exact F|]. destruct (lookup nm (names st)); [exact F|].
    pairfst (post_sync s None (create_box nm st)). apply full_post_sync, full_create_box, F.
  - (* Delete *)
    destruct (nm =? INBOX); [exact F|]. destruct (lookup nm (names st)); [|exact F].
    pairfst (post_sync s None (set_names (remove nm (names st)) st)).
    apply full_post_sync, full_set_names, F.
  - (* Rename *)
    destruct (b =? INBOX); [exact F|].
    destruct (in_tree st a && negb (in_tree st b)); [|exact F].
    match goal with |- context [if ?c then _ else _] => destruct c end.
    + apply full_rename_tree, F.
    + pairfst (post_sync s None (rename_tree a b st)). apply full_post_sync, full_rename_tree, F.
  - (* Append *)
    destruct (find_box st nm) as [[i b]|]; [|exact F].
    destruct (box_ro st i); [exact F|].
    destruct (pick_ok st s i (c_pick ch)) eqn:Hp; [|exact F].
    pose proof (full_append_loop i (c_pick ch) ms st F (pick_ok_valid _ _ _ _ Hk Hp)) as F1.
    destruct (append_loop i (c_pick ch) ms st) as [st1 us]. cbn [fst] in F1.
    pairfst (post_sync s (Some i) st1). apply full_post_sync, F1.
  - (* Select *)
    apply full_select_new; [apply full_drop_sel, F|]. apply lookup_remove_eq.
  - (* Close *)
    destruct (lookup s (sess st)) as [sl|]; [|exact F].
    destruct (s_ro sl); [apply full_drop_sel, F|].
    destruct (find_box st (s_name sl)) as [[i b]|]; [|apply full_drop_sel, F].
    destruct (i =? s_bid sl); [|apply full_drop_sel, F].
    cbn [fst]. apply full_drop_sel, full_remove_msgs, F.
  - (* Logout *) apply full_drop_sel, F.
  - (* Noop *)
    destruct (resolve st s) as [| |sl i b] eqn:R; try exact F.
    apply resolve_box in R as (Hl & Hf & ->).
    pairfst (do_sync s sl b st). apply full_do_sync; [exact F|exact Hl|eapply find_box_In; eauto].
  - (* Expunge *)
    destruct (resolve st s) as [| |sl i b]; try exact F.
    destruct (s_ro sl); [exact F|].
    match goal with |- context [resync s ?X] => pairfst (resync s X) end.
    apply full_resync, full_remove_msgs, F.
  - (* Copy *)
    destruct (resolve st s) as [| |sl i b]; try exact F.
    destruct (find_box st nm) as [[j bj]|]; [|exact F].
    destruct (box_ro st j); [exact F|].
    destruct (pick_ok st s j (c_pick ch)) eqn:Hp; [|exact F].
    match goal with |- context [copy_loop false i j ?c ?us st] =>
      pose proof (full_copy_loop false i j c us st F (pick_ok_valid _ _ _ _ Hk Hp)) as F1;
      destruct (copy_loop false i j c us st) as [st1 ps] end.
    cbn [fst] in F1. pairfst (resync s st1). apply full_resync, F1.
  - (* Move *)
    destruct (resolve st s) as [| |sl i b]; try exact F.
    destruct (find_box st nm) as [[j bj]|]; [|exact F].
    destruct (s_ro sl || box_ro st j); [exact F|].
    destruct (pick_ok st s j (c_pick ch)) eqn:Hp; [|exact F].
    match goal with |- context [copy_loop true i j ?c ?us st] =>
      pose proof (full_copy_loop true i j c us st F (pick_ok_valid _ _ _ _ Hk Hp)) as F1;
      destruct (copy_loop true i j c us st) as [st1 ps] end.
    cbn [fst] in F1. pairfst (resync s st1). apply full_resync, F1.
  - (* Status *)
    destruct (find_box st nm) as [[i b]|]; [|exact F].
    pairfst (post_sync s (Some i) st). apply full_post_sync, F.
  - (* Fetch *)
    destruct (resolve st s) as [| |sl i b] eqn:R; try exact F.
    apply resolve_box in R as (Hl & Hf & ->).
    assert (F1 : full (fst (do_sync s sl b st)))
      by (apply full_do_sync; [exact F|exact Hl|eapply find_box_In; eauto]).
    destruct (do_sync s sl b st) as [st1 p]. cbn [fst] in F1.
    destruct (lookup s (sess st1)); exact F1.
  - (* Store *)
    destruct (resolve st s) as [| |sl i b] eqn:R; try exact F.
    apply resolve_box in R as (Hl & Hf & ->).
    assert (F1 : full (fst (do_sync s sl b st)))
      by (apply full_do_sync; [exact F|exact Hl|eapply find_box_In; eauto]).
    destruct (do_sync s sl b st) as [st1 p]. cbn [fst] in F1.
    destruct (s_ro sl); cbn [fst]; [exact F1|]. apply full_map_store, F1.
  - (* Idle *) destruct (lookup s (sess st)); exact F.
  - (* IdleWake *)
    destruct (resolve st s) as [| |sl i b] eqn:R; try exact F.
    apply resolve_box in R as (Hl & Hf & ->).
    pairfst (do_sync s sl b st). apply full_do_sync; [exact F|exact Hl|eapply find_box_In; eauto].
  - (* Done *)
    destruct (resolve st s) as [| |sl i b] eqn:R; try exact F.
    apply resolve_box in R as (Hl & Hf & ->).
    pairfst (do_sync s sl b st). apply full_do_sync; [exact F|exact Hl|eapply find_box_In; eauto].
  - (* MakeRo *)
    destruct (find_box st nm) as [[i b]|]; [|exact F]. cbn [fst].
    split; [exact (proj1 F)|apply rec_set_ro; exact (proj2 F)].
  - (* Adopt *)
    destruct (find_box st nm) as [[i b]|]; [|exact F]. apply full_adopt_loop, F.
Qed.

Lemma init_full base shared : full (init_cfg base shared).
Proof.
  split; [apply init_inv_uid|].
  constructor; cbn; try (intros; contradiction); try constructor; auto; try constructor.
  - intros i b [E|[]]. inversion E. lia.
Qed.

Theorem run_full tr : forall st, full st -> full (run st tr).
Proof.
  induction tr as [|[o ch] r IH]; intros st F; cbn [run fold_left]; [exact F|].
  apply IH. apply step_full. exact F.
Qed.

Theorem full_reachable base shared tr : full (run (init_cfg base shared) tr).
Proof. apply run_full, init_full. Qed.
