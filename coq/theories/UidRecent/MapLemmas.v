(* UidRecent/MapLemmas.v — lemmas about the association-list operations,
   [mem], [nsort] and strictly ascending lists used by UidRecent/Model.v. *)
From PV Require Import Base.Prelude UidRecent.Model.
From Coq Require Import Sorting.Sorted.

Local Open Scope N_scope.

(* ------------------------------------------------------------- lookup *)
Section Maps.
Context {A : Type}.

Lemma lookup_In k (v : A) l : lookup k l = Some v -> In (k, v) l.
Proof.
  induction l as [|[k' v'] r IH]; cbn [lookup]; [discriminate|].
  destruct (N.eqb_spec k' k) as [->|Hne]; intro H.
  - inversion H; subst. left; reflexivity.
  - right; auto.
Qed.

Lemma In_lookup k (v : A) l : NoDup (map fst l) -> In (k, v) l -> lookup k l = Some v.
Proof.
  induction l as [|[k' v'] r IH]; cbn [lookup map fst]; intros Hnd Hin; [destruct Hin|].
  inversion Hnd as [|? ? Hni Hnd']; subst.
  destruct Hin as [E|Hin].
  - inversion E; subst. rewrite N.eqb_refl. reflexivity.
  - destruct (N.eqb_spec k' k) as [->|Hne].
    + exfalso. apply Hni. apply (in_map fst) in Hin. exact Hin.
    + auto.
Qed.

Lemma lookup_None_notin k (l : list (N * A)) : lookup k l = None -> ~ In k (map fst l).
Proof.
  induction l as [|[k' v'] r IH]; cbn [lookup map fst]; intros H Hin; [destruct Hin|].
  destruct (N.eqb_spec k' k) as [->|Hne]; [discriminate|].
  destruct Hin as [E|Hin]; [congruence|]. exact (IH H Hin).
Qed.

Lemma notin_lookup_None k (l : list (N * A)) : ~ In k (map fst l) -> lookup k l = None.
Proof.
  induction l as [|[k' v'] r IH]; cbn [lookup map fst]; intro H; [reflexivity|].
  destruct (N.eqb_spec k' k) as [->|Hne]; [exfalso; apply H; left; reflexivity|].
  apply IH. intro Hin. apply H. right. exact Hin.
Qed.

Lemma lookup_app k (l1 l2 : list (N * A)) :
  lookup k (l1 ++ l2) = match lookup k l1 with Some v => Some v | None => lookup k l2 end.
Proof.
  induction l1 as [|[k' v'] r IH]; cbn [lookup app]; [reflexivity|].
  destruct (k' =? k); [reflexivity|exact IH].
Qed.

Lemma lookup_replace_eq k (v v0 : A) l : lookup k l = Some v0 -> lookup k (replace k v l) = Some v.
Proof.
  induction l as [|[k' v'] r IH]; cbn [lookup replace]; [discriminate|].
  destruct (N.eqb_spec k' k) as [->|Hne]; intro H; cbn [lookup].
  - rewrite N.eqb_refl. reflexivity.
  - destruct (N.eqb_spec k' k); [contradiction|]. auto.
Qed.

Lemma lookup_replace_neq k k2 (v : A) l : k2 <> k -> lookup k2 (replace k v l) = lookup k2 l.
Proof.
  intro Hne. induction l as [|[k' v'] r IH]; cbn [lookup replace]; [reflexivity|].
  destruct (N.eqb_spec k' k) as [->|Hne']; cbn [lookup].
  - destruct (N.eqb_spec k k2); [congruence|reflexivity].
  - destruct (k' =? k2); [reflexivity|exact IH].
Qed.

Lemma map_fst_replace k (v : A) l : map fst (replace k v l) = map fst l.
Proof.
  induction l as [|[k' v'] r IH]; cbn [replace map fst]; [reflexivity|].
  destruct (k' =? k); cbn [map fst]; [reflexivity|]. rewrite IH. reflexivity.
Qed.

Lemma In_replace k (v : A) l p : In p (replace k v l) -> p = (k, v) \/ In p l.
Proof.
  induction l as [|[k' v'] r IH]; cbn [replace]; [intros []|].
  destruct (N.eqb_spec k' k) as [->|Hne]; cbn [In]; intros [E|H]; auto.
  destruct (IH H); auto.
Qed.

Lemma In_replace_other k (v : A) l k2 v2 :
  k2 <> k -> In (k2, v2) l -> In (k2, v2) (replace k v l).
Proof.
  intro Hne. induction l as [|[k' v'] r IH]; cbn [replace]; [intros []|].
  destruct (N.eqb_spec k' k) as [->|Hne']; cbn [In]; intros [E|H]; auto.
  inversion E; subst. contradiction.
Qed.

Lemma In_replace_new k (v v0 : A) l : lookup k l = Some v0 -> In (k, v) (replace k v l).
Proof. intro H. apply lookup_In. eapply lookup_replace_eq; eauto. Qed.

Lemma lookup_remove_eq k (l : list (N * A)) : lookup k (remove k l) = None.
Proof.
  induction l as [|[k' v'] r IH]; cbn [lookup remove]; [reflexivity|].
  destruct (N.eqb_spec k' k) as [->|Hne]; [exact IH|]. cbn [lookup].
  destruct (N.eqb_spec k' k); [contradiction|exact IH].
Qed.

Lemma lookup_remove_neq k k2 (l : list (N * A)) : k2 <> k -> lookup k2 (remove k l) = lookup k2 l.
Proof.
  intro Hne. induction l as [|[k' v'] r IH]; cbn [lookup remove]; [reflexivity|].
  destruct (N.eqb_spec k' k) as [->|Hne'].
  - destruct (N.eqb_spec k k2); [congruence|exact IH].
  - cbn [lookup]. destruct (k' =? k2); [reflexivity|exact IH].
Qed.

Lemma In_remove k (l : list (N * A)) p : In p (remove k l) -> In p l /\ fst p <> k.
Proof.
  induction l as [|[k' v'] r IH]; cbn [remove]; [intros []|].
  destruct (N.eqb_spec k' k) as [->|Hne].
  - intro H. destruct (IH H). split; [right|]; assumption.
  - cbn [In]. intros [E|H].
    + subst p. split; [left; reflexivity|exact Hne].
    + destruct (IH H). split; [right|]; assumption.
Qed.

Lemma In_remove_other k (l : list (N * A)) p : In p l -> fst p <> k -> In p (remove k l).
Proof.
  induction l as [|[k' v'] r IH]; cbn [remove]; [intros []|].
  intros [E|H] Hne.
  - subst p. cbn [fst] in Hne. destruct (N.eqb_spec k' k); [contradiction|left; reflexivity].
  - destruct (k' =? k); [|right]; auto.
Qed.

Lemma NoDup_map_remove {B} (f : N * A -> B) k l :
  NoDup (map f l) -> NoDup (map f (remove k l)).
Proof.
  induction l as [|[k' v'] r IH]; cbn [remove map]; intro H; [constructor|].
  inversion H as [|? ? Hni Hnd]; subst.
  destruct (k' =? k); [auto|]. cbn [map]. constructor; [|auto].
  intro Hin. apply Hni. apply in_map_iff in Hin as (p & E & Hp).
  apply In_remove in Hp as [Hp _]. apply in_map_iff. eauto.
Qed.

End Maps.

(* ---------------------------------------------------------------- mem *)
Lemma mem_In u l : mem u l = true <-> In u l.
Proof.
  unfold mem. rewrite existsb_exists. split.
  - intros (x & Hx & E). apply N.eqb_eq in E. subst. exact Hx.
  - intro H. exists u. split; [exact H|apply N.eqb_refl].
Qed.

Lemma mem_false u l : mem u l = false <-> ~ In u l.
Proof.
  split; intro H.
  - intro Hin. apply mem_In in Hin. congruence.
  - destruct (mem u l) eqn:E; [|reflexivity]. apply mem_In in E. contradiction.
Qed.

Lemma mem_app u l1 l2 : mem u (l1 ++ l2) = mem u l1 || mem u l2.
Proof. unfold mem. apply existsb_app. Qed.

(* --------------------------------------------------- ascending lists *)
Definition asc (l : list N) : Prop := StronglySorted N.lt l.

Lemma asc_nil : asc []. Proof. constructor. Qed.

Lemma asc_cons_inv x l : asc (x :: l) -> asc l /\ Forall (N.lt x) l.
Proof. intro H. inversion H; subst. split; assumption. Qed.

Lemma asc_NoDup l : asc l -> NoDup l.
Proof.
  induction l as [|x r IH]; intro H; [constructor|].
  apply asc_cons_inv in H as [Hr Hx]. constructor; [|exact (IH Hr)].
  intro Hin. rewrite Forall_forall in Hx. specialize (Hx _ Hin). lia.
Qed.

Lemma asc_app_one l x : asc l -> Forall (fun y => y < x) l -> asc (l ++ [x]).
Proof.
  induction l as [|y r IH]; cbn [app]; intros Hl Hx.
  - constructor; constructor.
  - apply asc_cons_inv in Hl as [Hr Hy]. inversion Hx as [|? ? Hyx Hrx]; subst.
    constructor; [exact (IH Hr Hrx)|].
    apply Forall_app. split; [exact Hy|]. constructor; [exact Hyx|constructor].
Qed.

Lemma asc_app l1 l2 : asc l1 -> asc l2 -> (forall a b, In a l1 -> In b l2 -> a < b) ->
  asc (l1 ++ l2).
Proof.
  induction l1 as [|y r IH]; cbn [app]; intros H1 H2 Hlt; [exact H2|].
  apply asc_cons_inv in H1 as [Hr Hy]. constructor.
  - apply IH; auto. intros a b Ha Hb. apply Hlt; [right|]; assumption.
  - apply Forall_app. split; [exact Hy|]. apply Forall_forall. intros b Hb.
    apply Hlt; [left; reflexivity|exact Hb].
Qed.

Lemma asc_filter f l : asc l -> asc (filter f l).
Proof.
  induction l as [|x r IH]; cbn [filter]; intro H; [constructor|].
  apply asc_cons_inv in H as [Hr Hx]. destruct (f x); [|exact (IH Hr)].
  constructor; [exact (IH Hr)|]. apply Forall_forall. intros y Hy. apply filter_In in Hy as [Hy _].
  rewrite Forall_forall in Hx. auto.
Qed.

Lemma asc_map_filter {A} (g : A -> N) f l : asc (map g l) -> asc (map g (filter f l)).
Proof.
  induction l as [|x r IH]; cbn [filter map]; intro H; [constructor|].
  apply asc_cons_inv in H as [Hr Hx]. destruct (f x); [|exact (IH Hr)]. cbn [map].
  constructor; [exact (IH Hr)|]. apply Forall_forall. intros y Hy. apply in_map_iff in Hy as (z & <- & Hz).
  apply filter_In in Hz as [Hz _]. rewrite Forall_forall in Hx. apply Hx. apply in_map. exact Hz.
Qed.

Lemma asc_select_pos l : forall k view, asc view ->
  asc (select_pos l k view) /\ Forall (fun u => In u view) (select_pos l k view).
Proof.
  intros k view. revert k. induction view as [|u r IH]; intros k H; cbn [select_pos].
  - split; constructor.
  - apply asc_cons_inv in H as [Hr Hu]. destruct (IH (k + 1) Hr) as [Ha Hf].
    assert (Hf' : Forall (fun x => In x (u :: r)) (select_pos l (k + 1) r)).
    { eapply Forall_impl; [|exact Hf]. cbn. intros; right; assumption. }
    destruct (mem k l); [|split; assumption]. split.
    + constructor; [exact Ha|]. rewrite Forall_forall in *. intros x Hx. apply Hu, Hf, Hx.
    + constructor; [left; reflexivity|exact Hf'].
Qed.

Lemma asc_select_view set view : asc view ->
  asc (select_view set view) /\ Forall (fun u => In u view) (select_view set view).
Proof.
  intro H. destruct set as [|l|l]; cbn [select_view].
  - split; [exact H|]. apply Forall_forall. auto.
  - split; [apply asc_filter; exact H|]. apply Forall_forall. intros u Hu.
    apply filter_In in Hu as [Hu _]. exact Hu.
  - apply asc_select_pos. exact H.
Qed.

(* sorted(set(l)) of an ascending list is the list *)
Lemma ninsert_lt x l : Forall (N.lt x) l -> ninsert x l = x :: l.
Proof.
  destruct l as [|y r]; cbn [ninsert]; intro H; [reflexivity|].
  inversion H as [|? ? Hxy _]; subst. destruct (N.ltb_spec x y); [reflexivity|lia].
Qed.

Lemma nsort_asc l : asc l -> nsort l = l.
Proof.
  induction l as [|x r IH]; cbn [nsort fold_right]; intro H; [reflexivity|].
  apply asc_cons_inv in H as [Hr Hx]. fold (nsort r). rewrite (IH Hr).
  apply ninsert_lt. exact Hx.
Qed.

(* at most one element of a duplicate-free list satisfies a predicate that
   identifies its argument *)
Lemma filter_unique_length {A} (f : A -> bool) (l : list A) :
  NoDup l -> (forall x y, In x l -> In y l -> f x = true -> f y = true -> x = y) ->
  (length (filter f l) <= 1)%nat.
Proof.
  induction l as [|x r IH]; cbn [filter]; intros Hnd Hu; [auto|].
  inversion Hnd as [|? ? Hni Hnd']; subst.
  assert (IHr : (length (filter f r) <= 1)%nat).
  { apply IH; [exact Hnd'|]. intros a b Ha Hb. apply Hu; right; assumption. }
  destruct (f x) eqn:Fx; [|exact IHr]. cbn [length].
  destruct (filter f r) as [|y q] eqn:E; [cbn; auto|]. exfalso.
  assert (Hy : In y (filter f r)) by (rewrite E; left; reflexivity).
  apply filter_In in Hy as [Hy Fy]. apply Hni.
  rewrite (Hu x y); [exact Hy|left; reflexivity|right; exact Hy|exact Fx|exact Fy].
Qed.
