(* UidRecent/Check.v — case checkers for the correspondence runs of C04/C17
   (harness/uidrecent.py).  A case is a history: the operations issued and,
   for each, what the real server answered.  The model replays the history;
   wherever the code is free to choose (any_selected) every allowed choice is
   tried, and the history is accepted iff some allowed resolution explains
   every observation.  Mailbox identities are matched with the observed
   UIDVALIDITY values through a map built on the way (same model mailbox =>
   same observed value; values themselves are never compared). *)
From PV Require Import Base.Prelude Wire.SeqSet UidRecent.Model.

Local Open Scope N_scope.

Definition vmap := list (N * N).

Definition bind_v (vm : vmap) (i v : N) : option vmap :=
  match lookup i vm with
  | Some v' => if v' =? v then Some vm else None
  | None => Some ((i, v) :: vm)
  end.

Definition optN_eqb := option_eqb N.eqb.

(* [full = false] (the C04 run) leaves every \Recent datum out of the
   comparison: RECENT counts and the \Recent column of the dumps *)
Definition sync_eqb (full : bool) (a b : sync_out) : bool :=
  (y_exp a =? y_exp b) && optN_eqb (y_exists a) (y_exists b)
  && (negb full || optN_eqb (y_recent a) (y_recent b)).

(* the harness cannot tell "nothing selected" from "a sync that announced
   nothing": both are observed as PSync (0, None, None) *)
Definition post_match (full : bool) (m o : post) : bool :=
  match m, o with
  | PNone, PSync y => sync_eqb full (mkSync 0 None None) y
  | PSync y, PSync y' => sync_eqb full y y'
  | PBye, PBye => true
  | _, _ => false
  end.

Definition row_eqb (full : bool) (a b : N * bool * bool * N) : bool :=
  let '(u, r, d, m) := a in let '(u', r', d', m') := b in
  (u =? u') && (negb full || Bool.eqb r r') && Bool.eqb d d' && (m =? m').

(* UIDNEXT is compared by the bounds of the property statement, not exactly:
   above every existing UID of the mailbox ([lo] = the highest live UID of
   the model mailbox) and not above the next UID that will be assigned (the
   model's counter + 1) *)
Definition uidnext_ok (lo n n' : N) : bool := (lo <? n') && (n' <=? n).

Definition out_match (full : bool) (lo : N) (vm : vmap) (m o : out) : option vmap :=
  match m, o with
  | OBad, OBad => Some vm
  | ONo, ONo => Some vm
  | OOk p, OOk p' => if post_match full p p' then Some vm else None
  | OAppend i us p, OAppend v us' p' =>
    if bytes_eqb us us' && post_match full p p' then bind_v vm i v else None
  | OCopy None p, OCopy None p' => if post_match full p p' then Some vm else None
  | OCopy (Some (j, a, b)) p, OCopy (Some (v, a', b')) p' =>
    if bytes_eqb a a' && bytes_eqb b b' && post_match full p p' then bind_v vm j v else None
  | OSelect i ro e r n, OSelect v ro' e' r' n' =>
    if Bool.eqb ro ro' && (e =? e') && (negb full || (r =? r')) && uidnext_ok lo n n' then bind_v vm i v else None
  | OStatus i e r n p, OStatus v e' r' n' p' =>
    if (e =? e') && (negb full || (r =? r')) && uidnext_ok lo n n' && post_match full p p' then bind_v vm i v else None
  | OFetch p rows, OFetch p' rows' =>
    if post_match full p p' && eqb_list (row_eqb full) rows rows' then Some vm else None
  | OStore p ok, OStore p' ok' =>
    if post_match full p p' && Bool.eqb ok ok' then Some vm else None
  | _, _ => None
  end.

Definition live_top (st : sys) (o : op) : N :=
  match o with
  | Select _ nm _ | Status _ nm =>
    match find_box st nm with
    | Some (_, b) => fold_left N.max (live_uids b) 0
    | None => 0
    end
  | _ => 0
  end.

Definition conn_ro (st : sys) (s : N) : bool :=
  match lookup s (sess st) with Some sl => s_ro sl | None => false end.

Definition choices_for (st : sys) (o : op) : list choice :=
  match o with
  | Append s nm _ =>
    match find_box st nm with
    | Some (i, _) => map (fun p => mkChoice p) (picks st s i)
    | None => [mkChoice None]
    end
  | Copy s _ nm =>
    match find_box st nm with
    | Some (i, _) => map (fun p => mkChoice p) (picks st s i)
    | None => [mkChoice None]
    end
  | Move s _ nm =>
    match find_box st nm with
    | Some (i, _) =>
      map (fun p => mkChoice p) (picks st s i)
    | None => [mkChoice None]
    end
  | _ => [mkChoice None]
  end.

Fixpoint search (full : bool) (st : sys) (vm : vmap) (tr : list (op * out)) : bool :=
  match tr with
  | [] => true
  | (o, ob) :: r =>
    existsb (fun ch =>
               let '(st', m) := step st o ch in
               match out_match full (live_top st o) vm m ob with
               | Some vm' => search full st' vm' r
               | None => false
               end) (choices_for st o)
  end.

(* (base, shared, history) *)
Definition chk_history (c : N * bool * list (op * out)) : bool :=
  let '(base, shared, tr) := c in search true (init_cfg base shared) [] tr.
Definition chk_history_uid (c : N * bool * list (op * out)) : bool :=
  let '(base, shared, tr) := c in search false (init_cfg base shared) [] tr.

(* diagnostics for a rejected history: the model's answers along the
   resolution that explains the longest prefix (the last one is the first
   answer that does not match) *)
Fixpoint explain (full : bool) (st : sys) (vm : vmap) (tr : list (op * out)) : list out :=
  match tr with
  | [] => []
  | (o, ob) :: r =>
    fold_left (fun best ch =>
                 let '(st', m) := step st o ch in
                 let cand := match out_match full (live_top st o) vm m ob with
                             | Some vm' => m :: explain full st' vm' r
                             | None => [m]
                             end in
                 if (length best <? length cand)%nat then cand else best)
              (choices_for st o) []
  end.

Definition explain_history (full : bool) (c : N * bool * list (op * out)) : list out :=
  let '(base, shared, tr) := c in explain full (init_cfg base shared) [] tr.

(* --- small pure checkers: printing of UID sets (AppendUid / CopyUid) *)
Definition chk_uidset (c : list N * bytes) : bool := bytes_eqb (uidset_bytes (fst c)) (snd c).
