(* UidRecent/Model.v — focused multi-session model of UID assignment and of
   the \Recent flag in pymap (dict backend), for properties C04 and C17.

   Code modelled (as it is in /repo):
     pymap/backend/dict/mailbox.py   MailboxData: _max_uid, append/copy/move/
                                     delete/claim_recent/snapshot/update_selected;
                                     MailboxSet: get_mailbox/add_mailbox/rename_mailbox
     pymap/backend/session.py        append_messages, copy_messages, move_messages,
                                     expunge_mailbox, select_mailbox, check_mailbox,
                                     update_flags, _pick_selected, _load_updates
     pymap/selected.py               SelectedSet.any_selected, SelectedMailbox.fork/_compare
                                     (EXISTS / RECENT / number of EXPUNGE), add_updates
     pymap/flags.py                  SessionFlags (_recent), PermanentFlags (no \Recent)
     pymap/imap/state.py             do_select, do_status, do_close, do_noop, ...
     pymap/parsing/response/code.py  AppendUid, CopyUid (SequenceSet.build of the
                                     sorted set of UIDs)

   A mailbox is identified by its MailboxData object ([bid], which also
   stands for its UIDVALIDITY and MAILBOXID: the three are created together
   and RENAME carries the object).  Names are numbers, 0 = INBOX; only flat
   names are modelled.  Definitions only. *)
From PV Require Import Base.Prelude Wire.SeqSet.

Local Open Scope N_scope.

Definition INBOX : N := 0.
Definition FIRST_MAX : N := 100.          (* MailboxData._max_uid = 100 *)

(* ---------------------------------------------------------------- maps *)
Fixpoint lookup {A} (k : N) (l : list (N * A)) : option A :=
  match l with
  | [] => None
  | (k', v) :: r => if k' =? k then Some v else lookup k r
  end.

(* replace the value stored under [k] (no effect when absent) *)
Fixpoint replace {A} (k : N) (v : A) (l : list (N * A)) : list (N * A) :=
  match l with
  | [] => []
  | (k', v') :: r => if k' =? k then (k', v) :: r else (k', v') :: replace k v r
  end.

Fixpoint remove {A} (k : N) (l : list (N * A)) : list (N * A) :=
  match l with
  | [] => []
  | (k', v') :: r => if k' =? k then remove k r else (k', v') :: remove k r
  end.

Definition mem (u : N) (l : list N) : bool := existsb (N.eqb u) l.
Definition nlen {A} (l : list A) : N := N.of_nat (length l).

(* sorted(set(l)) *)
Fixpoint ninsert (x : N) (l : list N) : list N :=
  match l with
  | [] => [x]
  | y :: r => if x <? y then x :: l else if x =? y then l else y :: ninsert x r
  end.
Definition nsort (l : list N) : list N := fold_right ninsert [] l.

(* bytes(SequenceSet.build(uids)) *)
Definition uidset_bytes (l : list N) : bytes := print_seqset (build_seqset (nsort l)).

(* --------------------------------------------------------------- state *)
Record msg := mkMsg {
  m_uid : N;
  m_recent : bool;        (* Message._recent: not yet claimed by any session *)
  m_deleted : bool;       (* \Deleted in permanent_flags *)
  m_mark : N              (* content identity (the harness uses the Subject) *)
}.

Record box := mkBox {
  b_max : N;                      (* MailboxData._max_uid *)
  b_msgs : list msg;              (* MailboxData._messages, insertion order *)
  b_log : list (N * N)            (* ghost: every (uid, mark) ever assigned here *)
}.

(* one SelectedMailbox (with its forks) of one connection *)
Record sel := mkSel {
  s_bid : N;              (* mailbox_id the selection was made on *)
  s_name : N;             (* lookup: the name remembered at SELECT time *)
  s_ro : bool;            (* SelectedMailbox.readonly *)
  s_inst : N;             (* ghost: which SELECT/EXAMINE created it *)
  s_recent : list N;      (* SessionFlags._recent *)
  s_view : list N;        (* SynchronizedMessages._sorted *)
  s_ann : N               (* len(_prev.recent): the RECENT count last announced *)
}.

Record sys := mkSys {
  names : list (N * N);           (* MailboxSet: name -> bid (INBOX included) *)
  boxes : list (N * box);         (* bid -> MailboxData *)
  sess : list (N * sel);          (* connection -> its current selection *)
  next_bid : N;
  next_inst : N;
  held : list (N * N * N);        (* ghost: (bid, uid, inst) every time \Recent of
                                     a message was handed to a selection *)
  cfg_base : N;                   (* _max_uid of a new mailbox: 100 (dict), 0 (maildir) *)
  cfg_shared : bool;              (* one SelectedSet per mailbox for all connections
                                     (dict); maildir builds a MailboxSet per connection,
                                     so any_selected only ever sees the own selection *)
  ro_boxes : list N               (* mailboxes the backend declares read-only
                                     (MailboxData.readonly, e.g. the demo Trash) *)
}.

Definition empty_box (base : N) : box := mkBox base [] [].
Definition init_cfg (base : N) (shared : bool) : sys :=
  mkSys [(INBOX, 0)] [(0, empty_box base)] [] 1 0 [] base shared [].
Definition init : sys := init_cfg FIRST_MAX true.

Definition set_names n (st : sys) := mkSys n (boxes st) (sess st) (next_bid st) (next_inst st) (held st) (cfg_base st) (cfg_shared st) (ro_boxes st).
Definition set_boxes b (st : sys) := mkSys (names st) b (sess st) (next_bid st) (next_inst st) (held st) (cfg_base st) (cfg_shared st) (ro_boxes st).
Definition set_sess s (st : sys) := mkSys (names st) (boxes st) s (next_bid st) (next_inst st) (held st) (cfg_base st) (cfg_shared st) (ro_boxes st).
Definition set_held h (st : sys) := mkSys (names st) (boxes st) (sess st) (next_bid st) (next_inst st) h (cfg_base st) (cfg_shared st) (ro_boxes st).

Definition find_box (st : sys) (nm : N) : option (N * box) :=
  match lookup nm (names st) with
  | Some i => match lookup i (boxes st) with Some b => Some (i, b) | None => None end
  | None => None
  end.

Definition live_uids (b : box) : list N := map m_uid (b_msgs b).
Definition stored_recent (b : box) : list N := map m_uid (filter m_recent (b_msgs b)).
Definition find_msg (u : N) (b : box) : option msg :=
  find (fun m => m_uid m =? u) (b_msgs b).

(* ------------------------------------------------- who gets \Recent *)
(* SelectedSet.any_selected ranges over the live non-read-only selections
   of the mailbox, in WeakSet order: any of them may be returned. *)
Definition rw_on (i : N) (p : N * sel) : bool := (s_bid (snd p) =? i) && negb (s_ro (snd p)).
Definition candidates (st : sys) (i : N) : list N :=
  if cfg_shared st then map fst (filter (rw_on i) (sess st)) else [].

(* BaseSession._pick_selected: own selection if it is this mailbox and not
   read-only, else any_selected.  [c] is the observed/guessed result. *)
Definition own_pick (st : sys) (s i : N) : bool :=
  match lookup s (sess st) with Some sl => rw_on i (s, sl) | None => false end.

Definition pick_ok (st : sys) (s i : N) (c : option N) : bool :=
  if own_pick st s i then match c with Some t => t =? s | None => false end
  else match c with
       | None => match candidates st i with [] => true | _ => false end
       | Some t => mem t (candidates st i)
       end.

Definition picks (st : sys) (s i : N) : list (option N) :=
  if own_pick st s i then [Some s]
  else match candidates st i with [] => [None] | l => map Some l end.

(* ------------------------------------------------------- primitives *)
(* SessionFlags.add_recent on the picked selection (+ ghost record) *)
Definition add_recent (t i u : N) (st : sys) : sys :=
  match lookup t (sess st) with
  | Some sl =>
    let sl' := mkSel (s_bid sl) (s_name sl) (s_ro sl) (s_inst sl)
                     (s_recent sl ++ [u]) (s_view sl) (s_ann sl) in
    set_held (held st ++ [(i, u, s_inst sl)]) (set_sess (replace t sl' (sess st)) st)
  | None => st
  end.

(* MailboxData.append / the destination half of copy and move: the next UID,
   stored recent iff nobody was picked. *)
Definition deliver (i : N) (c : option N) (dl : bool) (mk : N) (st : sys) : sys * option N :=
  match lookup i (boxes st) with
  | None => (st, None)
  | Some b =>
    let u := b_max b + 1 in
    let rc := match c with None => true | Some _ => false end in
    let b' := mkBox u (b_msgs b ++ [mkMsg u rc dl mk]) (b_log b ++ [(u, mk)]) in
    let st1 := set_boxes (replace i b' (boxes st)) st in
    (match c with Some t => add_recent t i u st1 | None => st1 end, Some u)
  end.

Definition remove_msgs (i : N) (drop : msg -> bool) (st : sys) : sys :=
  match lookup i (boxes st) with
  | None => st
  | Some b =>
    set_boxes (replace i (mkBox (b_max b) (filter (fun m => negb (drop m)) (b_msgs b)) (b_log b))
                       (boxes st)) st
  end.

Definition map_msgs (i : N) (f : msg -> msg) (st : sys) : sys :=
  match lookup i (boxes st) with
  | None => st
  | Some b => set_boxes (replace i (mkBox (b_max b) (map f (b_msgs b)) (b_log b)) (boxes st)) st
  end.

(* what a fork announces *)
Record sync_out := mkSync { y_exp : N; y_exists : option N; y_recent : option N }.

Definition is_nil {A} (l : list A) : bool := match l with [] => true | _ => false end.

(* update_selected + add_updates + fork/_compare for connection [s] against
   mailbox [b]: the view becomes the live UIDs, expunged UIDs leave the
   session's recent set, EXISTS iff something new, RECENT iff the count
   changed since the previous fork. *)
Definition sync_sel (sl : sel) (b : box) : sel * sync_out :=
  let live := live_uids b in
  let gone := filter (fun u => negb (mem u live)) (s_view sl) in
  let fresh := filter (fun u => negb (mem u (s_view sl))) live in
  let rec' := filter (fun u => mem u live) (s_recent sl) in
  let cnt := nlen (filter (fun u => mem u live) rec') in
  (mkSel (s_bid sl) (s_name sl) (s_ro sl) (s_inst sl) rec' live cnt,
   mkSync (nlen gone)
          (if is_nil fresh then None else Some (nlen live))
          (if cnt =? s_ann sl then None else Some cnt)).

Inductive post :=
| PNone                     (* the connection has nothing selected *)
| PSync (y : sync_out)
| PBye.                     (* "* BYE Selected mailbox no longer exists." *)

Definition drop_sel (s : N) (st : sys) : sys := set_sess (remove s (sess st)) st.

(* sync connection [s] with the mailbox [i]/[b] *)
Definition do_sync (s : N) (sl : sel) (b : box) (st : sys) : sys * post :=
  let '(sl', y) := sync_sel sl b in
  (set_sess (replace s sl' (sess st)) st, PSync y).

(* BaseSession._load_updates(selected, mbx): [hint] is the mailbox the
   command has just resolved (APPEND, STATUS) if any. *)
Definition post_sync (s : N) (hint : option N) (st : sys) : sys * post :=
  match lookup s (sess st) with
  | None => (st, PNone)
  | Some sl =>
    let by_name :=
      match find_box st (s_name sl) with
      | None => (drop_sel s st, PBye)
      | Some (i, b) =>
        (* _get_selected: a name that now denotes another mailbox counts as gone *)
        if i =? s_bid sl then do_sync s sl b st else (drop_sel s st, PBye)
      end in
    match hint with
    | Some i =>
      if i =? s_bid sl then
        match lookup i (boxes st) with
        | Some b => do_sync s sl b st
        | None => by_name
        end
      else by_name
    | None => by_name
    end
  end.

(* --------------------------------------------------------------- ops *)
Inductive smode := SAdd | SDel | SRepl.

(* the message set of COPY / MOVE: 1:*, a UID set, or a set of message
   sequence numbers (positions in the connection's view) *)
Inductive uset := UAll | UUids (l : list N) | USeqs (l : list N).

Inductive op :=
| Create (s nm : N)
| Delete (s nm : N)
| Rename (s a b : N)
| Append (s nm : N) (ms : list (N * bool * bool))   (* (mark, \Deleted given, \Recent given) *)
| Select (s nm : N) (ro : bool)
| Close (s : N)
| Logout (s : N)
| Noop (s : N)
| Expunge (s : N) (set : option (list N))            (* EXPUNGE | UID EXPUNGE set *)
| Copy (s : N) (set : uset) (nm : N)                 (* COPY / UID COPY *)
| Move (s : N) (set : uset) (nm : N)                 (* MOVE / UID MOVE *)
| Status (s nm : N)
| Fetch (s : N)                                      (* NOOP; UID FETCH 1:* (UID FLAGS ..) *)
| Store (s : N) (set : option (list N)) (md : smode) (f_deleted f_recent : bool)
                                                     (* NOOP; UID STORE set +-FLAGS (..) *)
| Idle (s : N)                                       (* IDLE, up to "+ Idling." *)
| IdleWake (s : N)                                   (* the idling connection is pushed updates *)
| Done (s : N)                                       (* DONE *)
(* labels of the environment, no connection involved *)
| MakeRo (nm : N)                                    (* the backend declares the mailbox read-only *)
| Adopt (nm : N) (ms : list (N * bool * bool)).      (* maildir: files (mark, \Deleted, in new/)
                                                        that appeared in the folder without a
                                                        uidlist record are adopted by reset() *)

(* the environment's choice: who any_selected returned *)
Record choice := mkChoice { c_pick : option N }.

Inductive out :=
| OBad                                  (* wrong connection state *)
| ONo
| OBadChoice                            (* the choice is not one the code can make *)
| OOk (p : post)
| OAppend (i : N) (uids : bytes) (p : post)
| OCopy (r : option (N * bytes * bytes)) (p : post)
| OSelect (i : N) (ro : bool) (n_exists n_recent uidnext : N)
| OStatus (i : N) (n_messages n_recent uidnext : N) (p : post)
| OFetch (p : post) (rows : list (N * bool * bool * N))
| OStore (p : post) (ok : bool).

Definition in_set (set : option (list N)) (u : N) : bool :=
  match set with None => true | Some l => mem u l end.

(* resolution of a select-state command: the selection, and the mailbox its
   remembered name denotes now *)
Inductive resolved :=
| RBad | RNo | RBox (sl : sel) (i : N) (b : box).

Definition resolve (st : sys) (s : N) : resolved :=
  match lookup s (sess st) with
  | None => RBad
  | Some sl =>
    match find_box st (s_name sl) with
    | None => RNo
    | Some (i, b) => if i =? s_bid sl then RBox sl i b else RNo   (* replaced: gone *)
    end
  end.

Definition resync (s : N) (st : sys) : sys * post :=
  match resolve st s with
  | RBox sl i b => do_sync s sl b st
  | _ => (st, PNone)
  end.

(* MailboxSet.add_mailbox *)
Definition create_box (nm : N) (st : sys) : sys :=
  mkSys (names st ++ [(nm, next_bid st)]) (boxes st ++ [(next_bid st, empty_box (cfg_base st))])
        (sess st) (next_bid st + 1) (next_inst st) (held st) (cfg_base st) (cfg_shared st) (ro_boxes st).

(* the messages a COPY/MOVE set denotes, in the order get_uids lists them *)
Fixpoint select_pos (l : list N) (k : N) (view : list N) : list N :=
  match view with
  | [] => []
  | u :: r => if mem k l then u :: select_pos l (k + 1) r else select_pos l (k + 1) r
  end.
Definition select_view (set : uset) (view : list N) : list N :=
  match set with
  | UAll => view
  | UUids l => filter (fun u => mem u l) view
  | USeqs l => select_pos l 1 view
  end.

(* hierarchy: the names are INBOX = 0, three top-level names 1..3 and one
   inferior of each, p/Sub = p + 4 (delimiter "/") *)
Definition name_sub (p : N) : option N :=
  if (1 <=? p) && (p <=? 3) then Some (p + 4) else None.
Definition has_name (st : sys) (n : N) : bool :=
  match lookup n (names st) with Some _ => true | None => false end.
(* ListTree.get: the name exists or is the superior of an existing name *)
Definition in_tree (st : sys) (n : N) : bool :=
  has_name st n || match name_sub n with Some c => has_name st c | None => false end.

(* MailboxSet.rename_mailbox for one name *)
Definition rename_box (a b : N) (st : sys) : sys :=
  match lookup a (names st) with
  | None => st
  | Some i =>
    if a =? INBOX then
      mkSys (replace INBOX (next_bid st) (names st) ++ [(b, i)])
            (boxes st ++ [(next_bid st, empty_box (cfg_base st))])
            (sess st) (next_bid st + 1) (next_inst st) (held st) (cfg_base st) (cfg_shared st) (ro_boxes st)
    else set_names (remove a (names st) ++ [(b, i)]) st
  end.

(* get_renames: the name itself and (except for INBOX) its inferior *)
Definition rename_tree (a b : N) (st : sys) : sys :=
  let st1 := rename_box a b st in
  match name_sub a, name_sub b with
  | Some ca, Some cb => rename_box ca cb st1
  | _, _ => st1
  end.

(* reset(): an unknown file gets the next UID; it counts as stored \Recent iff
   it lies in new/ *)
Definition adopt_one (i : N) (rc dl : bool) (mk : N) (st : sys) : sys :=
  match lookup i (boxes st) with
  | None => st
  | Some b =>
    let u := b_max b + 1 in
    set_boxes (replace i (mkBox u (b_msgs b ++ [mkMsg u rc dl mk]) (b_log b ++ [(u, mk)]))
                       (boxes st)) st
  end.
Fixpoint adopt_loop (i : N) (ms : list (N * bool * bool)) (st : sys) : sys :=
  match ms with
  | [] => st
  | (mk, dl, rc) :: r => adopt_loop i r (adopt_one i rc dl mk st)
  end.

Definition set_ro (l : list N) (st : sys) : sys :=
  mkSys (names st) (boxes st) (sess st) (next_bid st) (next_inst st) (held st)
        (cfg_base st) (cfg_shared st) l.
Definition box_ro (st : sys) (i : N) : bool := mem i (ro_boxes st).

(* the loop of append_messages *)
Fixpoint append_loop (i : N) (c : option N) (ms : list (N * bool * bool)) (st : sys)
  : sys * list N :=
  match ms with
  | [] => (st, [])
  | (mk, dl, _rc) :: r =>          (* AppendMessage drops a requested \Recent *)
    match deliver i c dl mk st with
    | (st1, Some u) => let '(st2, us) := append_loop i c r st1 in (st2, u :: us)
    | (st1, None) => append_loop i c r st1
    end
  end.

(* the loop of copy_messages / move_messages over the UIDs of the view *)
Fixpoint copy_loop (mv : bool) (src dst : N) (c : option N) (us : list N) (st : sys)
  : sys * list (N * N) :=
  match us with
  | [] => (st, [])
  | u :: r =>
    match lookup src (boxes st) with
    | None => copy_loop mv src dst c r st
    | Some b =>
      match find_msg u b with
      | None => copy_loop mv src dst c r st             (* copy() returned None *)
      | Some m =>
        let st0 := if mv then remove_msgs src (fun x => m_uid x =? u) st else st in
        match deliver dst c (m_deleted m) (m_mark m) st0 with
        | (st1, Some du) => let '(st2, ps) := copy_loop mv src dst c r st1 in (st2, (u, du) :: ps)
        | (st1, None) => copy_loop mv src dst c r st1
        end
      end
    end
  end.

Definition apply_store (md : smode) (fd : bool) (m : msg) : msg :=
  mkMsg (m_uid m) (m_recent m)
        (match md with
         | SAdd => m_deleted m || fd
         | SDel => m_deleted m && negb fd
         | SRepl => fd
         end) (m_mark m).

(* SELECT / EXAMINE after the old selection has been dropped *)
Definition clear_recent (m : msg) : msg := mkMsg (m_uid m) false (m_deleted m) (m_mark m).

Definition add_sel (s : N) (sl : sel) (hs : list (N * N * N)) (st : sys) : sys :=
  mkSys (names st) (boxes st) (sess st ++ [(s, sl)]) (next_bid st) (next_inst st + 1)
        (held st ++ hs) (cfg_base st) (cfg_shared st) (ro_boxes st).

Definition select_new (s nm : N) (ro : bool) (st : sys) : sys * out :=
  match find_box st nm with
  | None => (st, ONo)
  | Some (i, b) =>
    let k := next_inst st in
    if ro || box_ro st i then
      (add_sel s (mkSel i nm true k [] (live_uids b) 0) [] st,
       OSelect i true (nlen (b_msgs b)) (nlen (stored_recent b)) (b_max b + 1))
    else
      (* claim_recent: every stored \Recent moves to this selection *)
      let claimed := stored_recent b in
      (add_sel s (mkSel i nm false k claimed (live_uids b) (nlen claimed))
               (map (fun u => (i, u, k)) claimed) (map_msgs i clear_recent st),
       OSelect i false (nlen (b_msgs b)) (nlen claimed) (b_max b + 1))
  end.

Definition fetch_rows (sl : sel) (b : box) : list (N * bool * bool * N) :=
  map (fun m => (m_uid m, mem (m_uid m) (s_recent sl), m_deleted m, m_mark m)) (b_msgs b).

Definition step (st : sys) (o : op) (ch : choice) : sys * out :=
  match o with
  | Create s nm =>
    if nm =? INBOX then (st, ONo)
    else match lookup nm (names st) with
         | Some _ => (st, ONo)
         | None => let '(st', p) := post_sync s None (create_box nm st) in (st', OOk p)
         end
  | Delete s nm =>
    if nm =? INBOX then (st, ONo)
    else match lookup nm (names st) with
         | None => (st, ONo)
         | Some _ =>
           let '(st', p) := post_sync s None (set_names (remove nm (names st)) st) in (st', OOk p)
         end
  | Rename s a b =>
    if b =? INBOX then (st, ONo)
    else if in_tree st a && negb (in_tree st b) then
      if (a =? INBOX) && match lookup s (sess st) with
                         | Some sl => s_name sl =? INBOX
                         | None => false
                         end
      then (* the connection that renames the INBOX it has selected is not
              told by its own RENAME *)
        (rename_tree a b st, OOk PNone)
      else let '(st', p) := post_sync s None (rename_tree a b st) in (st', OOk p)
    else (st, ONo)
  | Append s nm ms =>
    match find_box st nm with
    | None => (st, ONo)
    | Some (i, _) =>
      if box_ro st i then (st, ONo)
      else if pick_ok st s i (c_pick ch) then
        let '(st1, us) := append_loop i (c_pick ch) ms st in
        let '(st2, p) := post_sync s (Some i) st1 in
        (st2, OAppend i (uidset_bytes us) p)
      else (st, OBadChoice)
    end
  | Select s nm ro => select_new s nm ro (drop_sel s st)
  | Logout s => (drop_sel s st, OOk PNone)
  | Noop s =>
    match resolve st s with
    | RBad => (st, OOk PNone)
    | RNo => (st, ONo)
    | RBox sl i b => let '(st', p) := do_sync s sl b st in (st', OOk p)
    end
  | Close s =>
    (* do_close: deselect first; a read-write selection is then expunged;
       when the remembered name is gone there is nothing to expunge (OK) *)
    match lookup s (sess st) with
    | None => (st, OBad)
    | Some sl =>
      if s_ro sl then (drop_sel s st, OOk PNone)
      else
        match find_box st (s_name sl) with
        | None => (drop_sel s st, OOk PNone)
        | Some (i, b) =>
          if i =? s_bid sl then
            (drop_sel s (remove_msgs i (fun m => mem (m_uid m) (s_view sl) && m_deleted m) st),
             OOk PNone)
          else (drop_sel s st, OOk PNone)
        end
    end
  | Expunge s set =>
    match resolve st s with
    | RBad => (st, OBad)
    | RNo => (st, ONo)
    | RBox sl i b =>
      if s_ro sl then (st, ONo)
      else
        let st1 := remove_msgs i (fun m => mem (m_uid m) (s_view sl) && in_set set (m_uid m)
                                           && m_deleted m) st in
        let '(st2, p) := resync s st1 in (st2, OOk p)
    end
  | Copy s set nm =>
    match resolve st s with
    | RBad => (st, OBad)
    | RNo => (st, ONo)
    | RBox sl i b =>
      match find_box st nm with
      | None => (st, ONo)
      | Some (j, _) =>
        if box_ro st j then (st, ONo)
        else if pick_ok st s j (c_pick ch) then
          let us := select_view set (s_view sl) in
          let '(st1, ps) := copy_loop false i j (c_pick ch) us st in
          let '(st2, p) := resync s st1 in
          (st2, OCopy (match ps with
                       | [] => None
                       | _ => Some (j, uidset_bytes (map fst ps), uidset_bytes (map snd ps))
                       end) p)
        else (st, OBadChoice)
      end
    end
  | Move s set nm =>
    match resolve st s with
    | RBad => (st, OBad)
    | RNo => (st, ONo)
    | RBox sl i b =>
      match find_box st nm with
      | None => (st, ONo)
      | Some (j, _) =>
        if s_ro sl || box_ro st j then (st, ONo)   (* MOVE out of a read-only selection,
                                                      or into a read-only mailbox *)
        else if pick_ok st s j (c_pick ch) then
          let us := select_view set (s_view sl) in
          let '(st1, ps) := copy_loop true i j (c_pick ch) us st in
          let '(st2, p) := resync s st1 in
          (st2, OCopy (match ps with
                       | [] => None
                       | _ => Some (j, uidset_bytes (map fst ps), uidset_bytes (map snd ps))
                       end) p)
        else (st, OBadChoice)
      end
    end
  | Status s nm =>
    match find_box st nm with
    | None => (st, ONo)
    | Some (i, b) =>
      let '(st1, p) := post_sync s (Some i) st in
      let rc := match lookup s (sess st1) with
                | Some sl => if s_bid sl =? i then nlen (s_recent sl) else nlen (stored_recent b)
                | None => nlen (stored_recent b)
                end in
      (st1, OStatus i (nlen (b_msgs b)) rc (b_max b + 1) p)
    end
  | Fetch s =>
    match resolve st s with
    | RBad => (st, OBad)
    | RNo => (st, ONo)
    | RBox sl i b =>
      let '(st1, p) := do_sync s sl b st in
      match lookup s (sess st1) with
      | Some sl1 => (st1, OFetch p (fetch_rows sl1 b))
      | None => (st1, OFetch p [])
      end
    end
  | Store s set md fd _fr =>
    match resolve st s with
    | RBad => (st, OBad)
    | RNo => (st, ONo)
    | RBox sl i b =>
      let '(st1, p) := do_sync s sl b st in
      if s_ro sl then (st1, OStore p false)
      else
        (map_msgs i (fun m => if in_set set (m_uid m) then apply_store md fd m else m) st1,
         OStore p true)
    end
  | Idle s =>
    match lookup s (sess st) with
    | None => (st, OBad)
    | Some _ => (st, OOk PNone)           (* "+ Idling." *)
    end
  | IdleWake s =>
    match resolve st s with
    | RBox sl i b => let '(st', p) := do_sync s sl b st in (st', OOk p)
    | _ => (st, OOk PNone)
    end
  | Done s =>
    match resolve st s with
    | RBad => (st, OBad)
    | RNo => (st, ONo)
    | RBox sl i b => let '(st', p) := do_sync s sl b st in (st', OOk p)
    end
  | MakeRo nm =>
    match find_box st nm with
    | Some (i, _) => (set_ro (i :: ro_boxes st) st, OOk PNone)
    | None => (st, OOk PNone)
    end
  | Adopt nm ms =>
    match find_box st nm with
    | Some (i, _) => (adopt_loop i ms st, OOk PNone)
    | None => (st, OOk PNone)
    end
  end.

(* all executions: a history is a list of (op, choice) *)
Definition run (st : sys) (tr : list (op * choice)) : sys :=
  fold_left (fun st oc => fst (step st (fst oc) (snd oc))) tr st.

(* ------------------------------------------------------ observations *)
Definition holders (st : sys) (i u : N) : list N :=
  map fst (filter (fun p => (s_bid (snd p) =? i) && mem u (s_recent (snd p))) (sess st)).

Definition stored_bit (st : sys) (i u : N) : nat :=
  match lookup i (boxes st) with
  | Some b => length (filter (fun m => (m_uid m =? u) && m_recent m) (b_msgs b))
  | None => 0%nat
  end.
