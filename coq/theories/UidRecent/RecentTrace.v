(* UidRecent/RecentTrace.v — C17, the arrival clause as one statement about
   histories: a stored \Recent bit survives any history without a read-write
   SELECT of that mailbox, and the first such SELECT then shows it. *)
From PV Require Import Base.Prelude Wire.SeqSet.
From PV Require Import UidRecent.Model UidRecent.MapLemmas UidRecent.UidProofs.
From PV Require Import UidRecent.RecentInv UidRecent.StepRel UidRecent.RecentProofs.

Local Open Scope N_scope.

(* no operation of the history is a read-write SELECT of a name that denotes
   mailbox [i] at that moment *)
Fixpoint no_rw_select (i : N) (st : sys) (tr : list (op * choice)) : Prop :=
  match tr with
  | [] => True
  | (o, ch) :: r => not_rw_select_of i st o /\ no_rw_select i (fst (step st o ch)) r
  end.

Lemma Rkeep_run i tr : forall st, no_rw_select i st tr -> Rkeep i st (run st tr).
Proof.
  induction tr as [|[o ch] r IH]; intros st H; cbn [run fold_left]; [apply Rkeep_refl|].
  destruct H as [H1 H2]. eapply Rkeep_trans; [apply Rkeep_step; exact H1|apply IH; exact H2].
Qed.

Theorem stored_recent_survives_run i tr st b m :
  full st -> no_rw_select i st tr ->
  lookup i (boxes st) = Some b -> In m (b_msgs b) -> m_recent m = true ->
  exists b', lookup i (boxes (run st tr)) = Some b' /\
             forall m', In m' (b_msgs b') -> m_uid m' = m_uid m -> m_recent m' = true.
Proof.
  intros [Iu I] Hno Hl Hm Hr. destruct (Rkeep_run i tr st Hno b Hl) as (b' & Hl' & [_ K]).
  exists b'. split; [exact Hl'|]. intros m' Hm' Eu.
  assert (Hok : box_ok b) by (eapply Iu; apply lookup_In; exact Hl).
  pose proof (box_ok_live_lt _ _ Hok Hm) as Hle.
  destruct (K _ Hm' ltac:(lia)) as (m0 & Hm0 & Eu0 & Er0).
  assert (m0 = m).
  { eapply (NoDup_map_inj m_uid); eauto; [apply asc_NoDup; exact (bo_msgs_asc _ Hok)|congruence]. }
  subst m0. congruence.
Qed.

(* The clause of the statement, end to end: a message that is stored recent
   (it arrived while no read-write selection existed, see
   arrives_unselected_is_stored), any history in which nobody SELECTs that
   mailbox read-write, then the first read-write SELECT by any connection
   [s] of any name [nm] that denotes the mailbox: if the message still
   exists, the SELECT's RECENT count includes it, the new selection holds it
   (so FETCH shows it \Recent to [s]) and its stored bit is cleared. *)
Theorem arrival_claimed_by_first_rw_select i tr st b m s nm ch b' m' :
  full st -> no_rw_select i st tr ->
  lookup i (boxes st) = Some b -> In m (b_msgs b) -> m_recent m = true ->
  find_box (run st tr) nm = Some (i, b') -> box_ro (run st tr) i = false ->
  In m' (b_msgs b') -> m_uid m' = m_uid m ->
  let st2 := fst (step (run st tr) (Select s nm false) ch) in
  exists sl' b2,
    snd (step (run st tr) (Select s nm false) ch)
      = OSelect i false (nlen (b_msgs b')) (nlen (stored_recent b')) (b_max b' + 1) /\
    lookup s (sess st2) = Some sl' /\ s_ro sl' = false /\ s_bid sl' = i /\
    In (m_uid m) (s_recent sl') /\ In (m_uid m) (s_view sl') /\
    (0 < nlen (stored_recent b')) /\
    lookup i (boxes st2) = Some b2 /\ forall x, In x (b_msgs b2) -> m_recent x = false.
Proof.
  intros F Hno Hl Hm Hr Hf Hnro Hm' Eu st2.
  destruct (stored_recent_survives_run i tr st b m F Hno Hl Hm Hr) as (bx & Hbx & Hkeep).
  pose proof (find_box_lookup _ _ _ _ Hf) as Hb'. rewrite Hb' in Hbx. inversion Hbx; subst bx.
  pose proof (Hkeep _ Hm' Eu) as Hr'.
  destruct (first_rw_select_claims (run st tr) s nm ch i b' Hf Hnro)
    as (sl' & b2 & Ho & Hs & Hbid & Hro & Hv & Hrec & _ & Hb2 & _ & Hclr).
  assert (Hin : In (m_uid m) (stored_recent b')).
  { unfold stored_recent. rewrite <- Eu. apply in_map. apply filter_In. split; assumption. }
  exists sl', b2. subst st2. repeat split; auto.
  - rewrite Hrec. exact Hin.
  - rewrite Hv. unfold live_uids. rewrite <- Eu. apply in_map. exact Hm'.
  - unfold nlen. destruct (stored_recent b'); [destruct Hin|cbn [length]; lia].
Qed.
