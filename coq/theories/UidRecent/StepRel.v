(* UidRecent/StepRel.v — one case analysis of [step] for every reflexive,
   transitive relation between states that the primitives respect. *)
From PV Require Import Base.Prelude Wire.SeqSet.
From PV Require Import UidRecent.Model UidRecent.MapLemmas.

Local Open Scope N_scope.

Section StepRel.
  Variable R : sys -> sys -> Prop.
  Variable allowed : sys -> op -> Prop.      (* side condition, used for SELECT only *)
  Hypothesis R_refl : forall st, R st st.
  Hypothesis R_trans : forall a b c, R a b -> R b c -> R a c.
  Hypothesis R_deliver : forall i c dl mk st, R st (fst (deliver i c dl mk st)).
  Hypothesis R_remove : forall i drop st, R st (remove_msgs i drop st).
  Hypothesis R_store : forall i set md fd st,
      R st (map_msgs i (fun m => if in_set set (m_uid m) then apply_store md fd m else m) st).
  Hypothesis R_do_sync : forall s sl b st, R st (fst (do_sync s sl b st)).
  Hypothesis R_drop : forall s st, R st (drop_sel s st).
  Hypothesis R_create : forall nm st, R st (create_box nm st).
  Hypothesis R_rename : forall a b st, R st (rename_box a b st).
  Hypothesis R_names : forall n st, R st (set_names n st).
  Hypothesis R_ro : forall l st, R st (set_ro l st).
  Hypothesis R_adopt : forall i rc dl mk st, R st (adopt_one i rc dl mk st).
  Hypothesis R_select : forall s nm ro st,
      allowed st (Select s nm ro) -> R (drop_sel s st) (fst (select_new s nm ro (drop_sel s st))).

  Lemma R_post_sync s h st : R st (fst (post_sync s h st)).
  Proof.
    unfold post_sync. destruct (lookup s (sess st)) as [sl|]; [|apply R_refl].
    assert (H : R st (fst (match find_box st (s_name sl) with
                           | Some (i, b) => if i =? s_bid sl then do_sync s sl b st else (drop_sel s st, PBye)
                           | None => (drop_sel s st, PBye)
                           end))).
    { destruct (find_box st (s_name sl)) as [[i b]|]; [|apply R_drop].
      destruct (i =? s_bid sl); [apply R_do_sync|apply R_drop]. }
    destruct h as [i|]; [|exact H].
    destruct (i =? s_bid sl); [|exact H].
    destruct (lookup i (boxes st)); [apply R_do_sync|exact H].
  Qed.

  Lemma R_rename_tree a b st : R st (rename_tree a b st).
  Proof.
    unfold rename_tree. destruct (name_sub a), (name_sub b); try apply R_rename.
    eapply R_trans; apply R_rename.
  Qed.

  Lemma R_adopt_loop i ms : forall st, R st (adopt_loop i ms st).
  Proof.
    induction ms as [|[[mk dl] rc] r IH]; intro st; cbn [adopt_loop]; [apply R_refl|].
    eapply R_trans; [apply R_adopt|apply IH].
  Qed.

  Lemma R_resync s st : R st (fst (resync s st)).
  Proof. unfold resync. destruct (resolve st s); try apply R_refl. apply R_do_sync. Qed.

  Lemma R_append_loop i c ms : forall st, R st (fst (append_loop i c ms st)).
  Proof.
    induction ms as [|[[mk dl] rc] r IH]; intro st; cbn [append_loop]; [apply R_refl|].
    pose proof (R_deliver i c dl mk st) as G.
    destruct (deliver i c dl mk st) as [st1 [u|]]; cbn [fst] in G.
    - specialize (IH st1). destruct (append_loop i c r st1) as [st2 us]. cbn [fst] in *.
      eapply R_trans; eauto.
    - eapply R_trans; [exact G|apply IH].
  Qed.

  Lemma R_copy_loop mv src dst c us : forall st, R st (fst (copy_loop mv src dst c us st)).
  Proof.
    induction us as [|u r IH]; intro st; cbn [copy_loop]; [apply R_refl|].
    destruct (lookup src (boxes st)) as [b|]; [|apply IH].
    destruct (find_msg u b) as [m|]; [|apply IH].
    set (st0 := if mv then remove_msgs src (fun x => m_uid x =? u) st else st).
    assert (G0 : R st st0) by (subst st0; destruct mv; [apply R_remove|apply R_refl]).
    pose proof (R_deliver dst c (m_deleted m) (m_mark m) st0) as G.
    destruct (deliver dst c (m_deleted m) (m_mark m) st0) as [st1 [du|]]; cbn [fst] in G.
    - specialize (IH st1). destruct (copy_loop mv src dst c r st1) as [st2 ps]. cbn [fst] in *.
      eapply R_trans; [exact G0|]. eapply R_trans; eauto.
    - eapply R_trans; [exact G0|]. eapply R_trans; [exact G|apply IH].
  Qed.

  Ltac pfst e :=
    let x := fresh "stx" in let p := fresh "px" in let E := fresh "Ex" in
    destruct e as [x p] eqn:E; cbn [fst];
    replace x with (fst e) by (rewrite E; reflexivity).

  Theorem step_rel st o ch : allowed st o -> R st (fst (step st o ch)).
  Proof.
    intro Hal. destruct o; cbn [step].
    - destruct (nm =? INBOX); [apply R_refl|]. destruct (lookup nm (names st)); [apply R_refl|].
      pfst (post_sync s None (create_box nm st)).
      eapply R_trans; [apply R_create|apply R_post_sync].
    - destruct (nm =? INBOX); [apply R_refl|]. destruct (lookup nm (names st)); [|apply R_refl].
      pfst (post_sync s None (set_names (remove nm (names st)) st)).
      eapply R_trans; [apply R_names|apply R_post_sync].
    - destruct (b =? INBOX); [apply R_refl|].
      destruct (in_tree st a && negb (in_tree st b)); [|apply R_refl].
      match goal with |- context [if ?c then _ else _] => destruct c end.
      + apply R_rename_tree.
      + pfst (post_sync s None (rename_tree a b st)).
        eapply R_trans; [apply R_rename_tree|apply R_post_sync].
    - destruct (find_box st nm) as [[i b]|]; [|apply R_refl].
      destruct (box_ro st i); [apply R_refl|].
      destruct (pick_ok st s i (c_pick ch)); [|apply R_refl].
      pose proof (R_append_loop i (c_pick ch) ms st) as G.
      destruct (append_loop i (c_pick ch) ms st) as [st1 us]. cbn [fst] in G.
      pfst (post_sync s (Some i) st1). eapply R_trans; [exact G|apply R_post_sync].
    - eapply R_trans; [apply R_drop|]. apply R_select. exact Hal.
    - destruct (lookup s (sess st)) as [sl|]; [|apply R_refl].
      destruct (s_ro sl); [apply R_drop|].
      destruct (find_box st (s_name sl)) as [[i b]|]; [|apply R_drop].
      destruct (i =? s_bid sl); [|apply R_drop].
      cbn [fst]. eapply R_trans; [apply R_remove|apply R_drop].
    - apply R_drop.
    - destruct (resolve st s) as [| |sl i b]; try apply R_refl.
      pfst (do_sync s sl b st). apply R_do_sync.
    - destruct (resolve st s) as [| |sl i b]; try apply R_refl.
      destruct (s_ro sl); [apply R_refl|].
      match goal with |- context [resync s ?X] => pfst (resync s X) end.
      eapply R_trans; [apply R_remove|apply R_resync].
    - destruct (resolve st s) as [| |sl i b]; try apply R_refl.
      destruct (find_box st nm) as [[j bj]|]; [|apply R_refl].
      destruct (box_ro st j); [apply R_refl|].
      destruct (pick_ok st s j (c_pick ch)); [|apply R_refl].
      match goal with |- context [copy_loop false i j ?c ?us st] =>
        pose proof (R_copy_loop false i j c us st) as G;
        destruct (copy_loop false i j c us st) as [st1 ps] end.
      cbn [fst] in G. pfst (resync s st1). eapply R_trans; [exact G|apply R_resync].
    - destruct (resolve st s) as [| |sl i b]; try apply R_refl.
      destruct (find_box st nm) as [[j bj]|]; [|apply R_refl].
      destruct (s_ro sl || box_ro st j); [apply R_refl|].
      destruct (pick_ok st s j (c_pick ch)); [|apply R_refl].
      match goal with |- context [copy_loop true i j ?c ?us st] =>
        pose proof (R_copy_loop true i j c us st) as G;
        destruct (copy_loop true i j c us st) as [st1 ps] end.
      cbn [fst] in G. pfst (resync s st1). eapply R_trans; [exact G|apply R_resync].
    - destruct (find_box st nm) as [[i b]|]; [|apply R_refl].
      pfst (post_sync s (Some i) st). apply R_post_sync.
    - destruct (resolve st s) as [| |sl i b]; try apply R_refl.
      pose proof (R_do_sync s sl b st) as G.
      destruct (do_sync s sl b st) as [st1 p]. cbn [fst] in G.
      destruct (lookup s (sess st1)); exact G.
    - destruct (resolve st s) as [| |sl i b]; try apply R_refl.
      pose proof (R_do_sync s sl b st) as G.
      destruct (do_sync s sl b st) as [st1 p]. cbn [fst] in G.
      destruct (s_ro sl); cbn [fst]; [exact G|]. eapply R_trans; [exact G|apply R_store].
    - destruct (lookup s (sess st)); apply R_refl.
    - destruct (resolve st s) as [| |sl i b]; try apply R_refl.
      pfst (do_sync s sl b st). apply R_do_sync.
    - destruct (resolve st s) as [| |sl i b]; try apply R_refl.
      pfst (do_sync s sl b st). apply R_do_sync.
    - destruct (find_box st nm) as [[i b]|]; [|apply R_refl]. apply R_ro.
    - destruct (find_box st nm) as [[i b]|]; [|apply R_refl]. apply R_adopt_loop.
  Qed.
End StepRel.
